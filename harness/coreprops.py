"""Property definitions (generation + oracle) for the checks that rest on the core model."""
from __future__ import annotations

import copy
import itertools
import json
import random
from typing import Any, Dict, List, Optional, Sequence, Tuple

import gen
from engine import CoreProp
from gen import Cfg, G, SCALARS, DISPATCH_VALUES, dict_family, perturb, base_options
from pdl import Prog, fn, sort_json
from pylib import dumps

Item = Tuple[Dict[str, Any], Dict[str, Any]]
EVAL_ERRS = ("EvaluationError", "KeyNotFoundError", "SwitchError", "CaseWhenError", "InsufficientInformationError")


# ------------------------------------------------------------------ independent reference helpers

def ref_get(key: str, o: Any):
    """independent dotted lookup: ('found', v) | ('absent',) | ('type',)"""
    cur = o
    for seg in key.split("."):
        # a segment that reads as a Python integer literal (sign, underscores, any decimal digits) is an index
        try:
            idx = int(seg)
        except ValueError:
            idx = None
        if isinstance(cur, dict):
            if idx is not None or seg not in cur:
                return ("absent",)
            cur = cur[seg]
        elif isinstance(cur, list):
            if idx is None or not (-len(cur) <= idx < len(cur)):
                return ("absent",)
            cur = cur[idx]
        elif isinstance(cur, str):
            if idx is None:
                return ("type",)
            if not (-len(cur) <= idx < len(cur)):
                return ("absent",)
            cur = cur[idx]
        else:
            return ("type",)
    return ("found", cur)


def ref_mix(dish: Any, ing: Any):
    if not isinstance(ing, dict):
        return copy.deepcopy(ing)
    if not isinstance(dish, dict):
        return copy.deepcopy(ing)
    out = copy.deepcopy(dish)
    for k, v in ing.items():
        if isinstance(v, dict):
            out[k] = ref_mix(out.get(k, {}), v)
        else:
            out[k] = copy.deepcopy(v)
    return out


def ref_restrict(o: Dict[str, Any], keys: Sequence[str]) -> Dict[str, Any]:
    """options restricted to the reported keys (an index segment keeps the whole list)"""
    out: Dict[str, Any] = {}
    for k in sorted(keys):
        segs = k.split(".")
        cut = len(segs)
        for i, s in enumerate(segs):
            if s.isdigit():
                cut = i
                break
        segs = segs[:cut]
        if not segs:
            continue
        r = ref_get(".".join(segs), o)
        if r[0] != "found":
            continue
        cur = out
        for s in segs[:-1]:
            if not isinstance(cur.get(s), dict):
                cur[s] = {}
            cur = cur[s]
        if isinstance(cur.get(segs[-1]), dict) and isinstance(r[1], dict):
            cur[segs[-1]] = ref_mix(cur[segs[-1]], r[1])
        else:
            cur[segs[-1]] = copy.deepcopy(r[1])
    return out


def is_ok(o):
    return isinstance(o, dict) and isinstance(o.get("r"), list) and o["r"][0] == "ok"


def is_err(o):
    return isinstance(o, dict) and isinstance(o.get("r"), list) and o["r"][0] == "err"


def innermost(o):
    return o["r"][1][-1] if is_err(o) and o["r"][1] else None


def root_cause_key(o):
    """(class, key) of the deepest labrea/user frame"""
    fr = o["r"][1]
    for f in reversed(fr):
        if f[0] == "KeyError" and len(fr) > 1:
            continue
        return f[0], f[2]
    return None


def missing_option(o) -> Optional[str]:
    """key when the failure is rooted in a missing option"""
    if not is_err(o):
        return None
    for f in o["r"][1]:
        if f[0] == "KeyNotFoundError":
            last = f[2]
    ks = [f[2] for f in o["r"][1] if f[0] == "KeyNotFoundError"]
    return ks[-1] if ks else None


def keyset(o) -> Optional[set]:
    if is_ok(o) and isinstance(o["r"][1], dict) and o["r"][1].get("$") == "set":
        return set(o["r"][1]["v"])
    return None


def gen_items(rng: random.Random, cfg: Cfg, n: int, history, **kw) -> List[Item]:
    out = []
    for _ in range(n):
        g = G(rng, cfg)
        meta: Dict[str, Any] = {}
        history(rng, cfg, g, meta, **kw)
        meta["kinds"] = g.kinds
        out.append((g.P.to_json(), meta))
    return out


def sizes(tier: str, quick: int, thorough: int) -> int:
    return thorough if tier == "thorough" else quick


def corpus_items(pid: str) -> List[Item]:
    from common import VERIF
    out = []
    d = VERIF / "corpus"
    for f in sorted(d.glob(f"{pid}_*.json")) + sorted(d.glob("all_*.json")):
        j = json.loads(f.read_text())
        meta = dict(j.get("meta", {}), corpus=f.name)
        out.append((j["program"], meta))
    return out


# ================================================================== C05

def hist_all_ops(rng, cfg, g: G, meta, n_roots=2, n_dicts=4, ops=("validate", "keys", "explain", "evaluate")):
    roots = [g.expr(rng.choice(["any", "any", "scalar"]), rng.randint(1, cfg.max_depth)) for _ in range(n_roots)]
    fam = dict_family(rng, cfg, n_dicts)
    for o in fam:
        for r in roots:
            for op in ops:
                g.P.op(op, r, o)


def c05_programs(rng, tier) -> List[Item]:
    items = corpus_items("C05")
    cfg = Cfg(cached=False, raising=False, catch_unsafe=True)
    items += small_tree_enumeration(sizes(tier, 1, 2))
    items += gen_items(rng, cfg, sizes(tier, 250, 4000), hist_all_ops, ops=("evaluate",))
    cfg2 = Cfg(raising=True, catch_unsafe=True)
    items += gen_items(rng, cfg2, sizes(tier, 100, 1500), hist_all_ops, ops=("evaluate",))
    items += equal_hash_items(rng, sizes(tier, 20, 150))
    items += lifted_falsy_items(rng, sizes(tier, 15, 100))
    items += shared_constant_items(rng, sizes(tier, 90, 450))
    items += shared_argument_items(rng, sizes(tier, 30, 150))
    items += collections_api_items(rng, sizes(tier, 45, 180))
    items += node_returning_items(rng, sizes(tier, 20, 60))
    items += mapping_order_items(rng, sizes(tier, 12, 36))
    items += interface_items(rng, sizes(tier, 12, 60))
    items += dataset_class_items(rng, sizes(tier, 30, 150))
    return items


def lifted_falsy_items(rng, n) -> List[Item]:
    """`FunctionApplication.lift(f, **overrides)` where the overriding keyword values are plain constants, every falsy
    one included (0, False, None, "", [], {}): the function is applied to exactly those values"""
    items = []
    FALSY = [0, False, None, "", [], {}]
    for _ in range(n):
        P = Prog()
        names = rng.sample(["u", "v", "w", "x"], rng.randint(1, 3))
        kw = []
        for nm in names:
            r = rng.random()
            if r < 0.6:
                kw.append((nm, P.value(copy.deepcopy(rng.choice(FALSY)))))
            elif r < 0.8:
                kw.append((nm, P.value(rng.choice([1, "s", [0]]))))
            else:
                kw.append((nm, P.option("A", dflt=P.value(copy.deepcopy(rng.choice(FALSY))))))
        fa = P._node("funapp", f=P.fnvalue(P.free(f"lf{rng.randint(0, 10**6)}")), args=[], kw=[[a, b] for a, b in kw], lift=1)
        root = fa if rng.random() < 0.5 else P.switch(P.option("K", bare=True), [("x", fa)], fa)
        for o in [{}, {"A": 5}, {"A": 0, "K": "x"}]:
            P.evaluate(root, o)
        items.append((P.to_json(), {}))
    return items


NESTED_CONSTANTS = [(["id", "name"], "W"), ({"a": [1]},), (([1],), 2), [[1], [2]], {"k": [1]}, ([],), [({"m": []}, 1)],
                    ("s", 1, None), ((), [()])]


def _has_tuple(x) -> bool:
    if isinstance(x, tuple):
        return True
    if isinstance(x, list):
        return any(_has_tuple(y) for y in x)
    return isinstance(x, dict) and any(_has_tuple(y) for y in x.values())


def shared_constant_items(rng, n) -> List[Item]:
    """plain constants at every position where the library wraps one (switch branch and default, case result, coalesce
    member, Iter member, lifted keyword, Option default, Map iterable) — tuples holding lists / dicts (only shallowly
    immutable) included — consumed by code that edits what it receives in place (a body, or the caller editing the
    result, also element by element while a Map is still producing): every evaluation yields what the eager
    computation over the constant as written yields, whatever earlier evaluations or their consumers did"""
    items = []
    positions = ["switch", "switch_dflt", "case", "coalesce", "iter", "lift", "optdflt", "map", "map_lazy", "with"]
    for i in range(n):
        P = Prog()
        c = copy.deepcopy(NESTED_CONSTANTS[i % len(NESTED_CONSTANTS)])
        c2 = copy.deepcopy(NESTED_CONSTANTS[(i * 5 + 3) % len(NESTED_CONSTANTS)])
        pos = positions[(i // len(NESTED_CONSTANTS)) % len(positions)] if n >= 90 else rng.choice(positions)
        lazy = False
        if pos == "switch":
            e = P.switch(P.option("K", bare=True), [("x", P.value(c)), ("y", P.value(c2))], P.value(0))
        elif pos == "switch_dflt":
            e = P.switch(P.option("K", bare=True), [("q", P.value(1))], P.value(c))
        elif pos == "case":
            e = P.case(P.option("K"), [(P.fnvalue("eq", "x"), P.value(c))], P.value(c2))
        elif pos == "coalesce":
            e = P.coalesce([P.option("Q"), P.value(c)])
        elif pos == "iter":
            e = P.collection("list", [P.value(c), P.option("K"), P.value(c2)])
        elif pos == "lift":
            e = P._node("funapp", f=P.fnvalue(P.free(f"lc{i}")), args=[], kw=[["u", P.value(c)], ["v", P.option("K")]], lift=1)
        elif pos == "optdflt":
            e = P.option("Q", dflt=P.value(c))
        elif pos == "with":
            e = P.with_options(P.option("Z"), {"Z": c if not isinstance(c, tuple) else [list(c)]})
        else:
            # (what a Map iterates are option values: JSON-like, so no tuples here — a tuple placed in an option dictionary
            # is handed out as it is, by Option.evaluate as by plain Python)
            js = [x for x in NESTED_CONSTANTS if not _has_tuple(x)]
            c, c2 = copy.deepcopy(js[i % len(js)]), copy.deepcopy(js[(i + 1) % len(js)])
            e = P.map(P.collection("list", [P.option("M"), P.option("K")]), [("M", P.value([c, c2, copy.deepcopy(c)])), ("N", P.value([1, 2]))])
            lazy = pos == "map_lazy"
            if not lazy:
                e = P.apply(e, P.fnvalue("py:list"))
        how = rng.choice(["body", "result", "both"]) if not lazy else "result"
        root = e
        if how in ("body", "both") and not lazy:
            root = P.apply(e, P.fnvalue(P.free(f"mut{i}", mutates=True)))
        for o in [{"K": "x"}, {"K": "x"}, {"K": "y", "ZZ": 1}, {"K": "x", "Q": 5}, {"K": "x"}]:
            kw: Dict[str, Any] = {}
            if lazy:
                kw["mutate_result"] = "lazy"
            elif how in ("result", "both"):
                kw["mutate_result"] = True
            P.evaluate(root, o, **kw)
        items.append((P.to_json(), {"position": pos}))
    return items


def shared_argument_items(rng, n) -> List[Item]:
    """ONE expression object bound to several parameters of a dataset / function application / pipeline step
    (`f(a=E, b=E)`): each parameter receives a value of its own — a body that edits one argument in place sees the
    others untouched — exactly as the eager `f(eval(E), eval(E))`"""
    items = []
    for i in range(n):
        P = Prog()
        ek = i % 5
        if ek == 0:
            e = P.value([1, [2]], wrap=True)
        elif ek == 1:
            e = P.collection("list", [P.option("A"), P.value(1)])
        elif ek == 2:
            e = P.option("S")
        elif ek == 3:
            e = P.switch(P.option("K", bare=True), [("x", P.value({"k": [1]}))], P.value([0]))
        else:
            e = P.dataset([("a", P.option("A"))], fn_name=P.const_fn(f"mk{i}", [[1], {"q": 2}]), cache=P.new_cache("nocache"))
        fname = P.free(f"two{i}", mutates="first")
        ck = (i // 5) % 3
        if ck == 0:
            root = P.dataset([("a", e), ("b", e)], fn_name=fname, cache=P.new_cache("nocache"))
        elif ck == 1:
            root = P.funapp(P.fnvalue(fname), kw=[("a", e), ("b", e), ("c", e)])
        else:
            root = P.apply(P.option("A"), P.partial(P.fnvalue(fname), kw=[("u", e), ("v", e)]))
        for o in [{"A": 1, "S": {"X": [1]}, "K": "x"}, {"A": 2, "S": {"X": [1]}, "K": "y"}, {"A": 1, "S": {"X": [1]}, "K": "x"}]:
            P.evaluate(root, o)
        items.append((P.to_json(), {}))
    return items


def collections_api_items(rng, n) -> List[Item]:
    """the collection builders of `labrea.collections` (`evaluatable_list / _tuple / _set / _dict` and their `Dataset…`
    aliases) over members that are evaluatables and plain constants in every interleaving: the result has the members'
    values in the order written (for a dict: the entries in the order written — observed through `str()` of the result,
    which shows the order), a fresh container per evaluation"""
    items = []
    for i in range(n):
        P = Prog()
        consts = [1, "c", None, [1, 2], {"k": 0}]
        def member(j):
            r = (i + j) % 4
            if r == 0:
                return P.value(copy.deepcopy(consts[(i + j) % len(consts)]))
            if r == 1:
                return P.option("A")
            if r == 2:
                return P.option("B", dflt=P.value(0))
            return P.dataset([("a", P.option("A"))], cache=P.new_cache("nocache"))
        kind = ["dict", "list", "tuple", "dict", "set"][i % 5]
        nm = 2 + (i // 5) % 3
        if kind == "dict":
            keys = rng.sample(["a", "b", "c", "z", "m"], nm)
            root = P.api_dict([(k, member(j)) for j, k in enumerate(keys)])
        elif kind == "set":
            root = P.api_collection("set", [P.option("A"), P.value(1), P.option("B", dflt=P.value("x"))][:nm])
        else:
            root = P.api_collection(kind, [member(j) for j in range(nm)])
        shown = P.apply(root, P.fnvalue("tostr")) if kind != "set" else root
        top = [lambda: shown, lambda: P.collection("list", [shown, root]), lambda: P.dataset([("c", shown)], cache=P.new_cache("nocache"))][i % 3]()
        for o in [{"A": 1}, {"A": "x", "B": 2}, {}, {"A": 1}]:
            P.evaluate(top, o, **({"mutate_result": True} if i % 2 and kind != "set" else {}))
        items.append((P.to_json(), {}))
    return items


def node_returning_items(rng, n) -> List[Item]:
    """user functions that RETURN a labrea node (a registry lookup yielding an Option, a body returning a Value): `apply`,
    `>>`, dataset bodies, callbacks and lifted functions hand that object on as the value it is — only `bind` evaluates
    what its function returns"""
    items = []
    for i in range(n):
        P = Prog()
        kind = i % 2
        marker = "<node Option PATH_A>" if kind == 0 else "<node Value>"
        nodespec = {"k": "option", "key": "PATH_A"} if kind == 0 else {"k": "value", "v": 7}
        name = P.const_fn(f"reg{i}", marker, node=nodespec)
        src = P.option("KIND", dflt=P.value("a"))
        shape = (i // 2) % 5
        if shape == 0:
            root = P.apply(src, P.fnvalue(name))
        elif shape == 1:
            root = P.apply(src, P.fnvalue(name), via="rshift")
        elif shape == 2:
            root = P.dataset([("k", src)], fn_name=name, cache=P.new_cache("nocache"))
        elif shape == 3:
            root = P.dataset([("k", src)], callback=P.fnvalue(name))
        else:
            root = P.collection("list", [P.funapp(P.fnvalue(name), [src]), P.apply(P.apply(src, P.fnvalue(name)), P.fnvalue("pair", 0))])
        for o in [{"PATH_A": "/data/a.csv", "KIND": "a"}, {}, {"PATH_A": "/other"}]:
            P.evaluate(root, o)
        items.append((P.to_json(), {}))
    return items


def equal_hash_items(rng, n) -> List[Item]:
    """values that are `==` and hash alike but are different values (1 / True, 0 / False) reach one long-lived bind,
    switch, case or dataset one after the other: a continuation (user code) tells them apart, a dispatch table
    (a dict) does not — either way nothing may depend on which of them came first"""
    items = []
    seqs = [[1, True, 1, 0, False, True], [True, 1, False, 0], [0, False, 1, True, 2], [False, True, 0, 1]]
    for _ in range(n):
        P = Prog()
        src = P.option("A") if rng.random() < 0.6 else P.apply(P.option("A"), P.fnvalue("ident"))
        table = [(1, P.value("int-one")), (True, P.value("bool-true")), (0, P.option("Z", dflt=P.value("int-zero"))),
                 (False, P.value("bool-false"))]
        rng.shuffle(table)
        table = table[: rng.randint(2, 4)]
        b = P.bind(src, table, P.value("other") if rng.random() < 0.7 else None)
        shape = rng.choice(["bind", "in_list", "in_dataset", "nested"])
        if shape == "bind":
            root = b
        elif shape == "in_list":
            root = P.collection("list", [b, P.switch(P.option("A", bare=True), [(1, P.value("sw-one")), (0, P.value("sw-zero"))], P.value("sw-d"))])
        elif shape == "in_dataset":
            root = P.dataset([("v", b)], cache=P.new_cache("nocache"))
        else:
            root = P.bind(b, [("int-one", P.value(11)), ("bool-true", P.value(12))], P.value(13))
        for v in rng.choice(seqs):
            P.evaluate(root, {"A": v})
        items.append((P.to_json(), {}))
    return items


def small_tree_enumeration(level: int) -> List[Item]:
    """exhaustive small trees over a reduced alphabet, evaluated on a fixed dictionary grid"""
    leaves = [("opt", "A"), ("opt", "K"), ("optd", "B"), ("val", 1), ("val", None)]
    dicts = [{}, {"A": 0, "K": "x"}, {"A": 5, "K": 1, "B": False}, {"K": None, "B": "y"}, {"A": "", "K": True}]
    items: List[Item] = []

    def mk_leaf(P: Prog, l):
        if l[0] == "opt":
            return P.option(l[1])
        if l[0] == "optd":
            return P.option(l[1], dflt=P.value(7))
        return P.value(l[1])

    combos = list(itertools.product(leaves, repeat=3)) if level >= 2 else list(itertools.product(leaves[:4], repeat=3))
    for kind in ("switch", "switch_nodef", "switch_compound", "coalesce", "case", "tuple", "apply", "bind", "with", "funapp", "map"):
        for a, b, c in combos:
            P = Prog()
            x, y, z = mk_leaf(P, a), mk_leaf(P, b), mk_leaf(P, c)
            if kind == "switch":
                r = P.switch(x, [("x", y), (1, P.value("one")), (None, P.value("none"))], z)
            elif kind == "switch_nodef":
                r = P.switch(x, [("x", y), (0, z)])
            elif kind == "switch_compound":
                # a derived dispatch: when it cannot be evaluated the failure is a wrapped EvaluationError
                r = P.switch(P.apply(x, P.fnvalue("ident")), [("x", y), (1, P.value("one"))], z)
            elif kind == "coalesce":
                r = P.coalesce([x, y, z])
            elif kind == "case":
                r = P.case(x, [(P.fnvalue("eq", 0), y), (P.fnvalue("truthy"), z)], None if a[0] == "val" else P.value("dflt"))
            elif kind == "tuple":
                r = P.collection("tuple", [x, y, z])
            elif kind == "apply":
                r = P.apply(P.collection("list", [x, y]), P.fnvalue("pair", 0))
            elif kind == "bind":
                r = P.bind(x, [(0, y), ("x", z)], dflt=P.value("other"))
            elif kind == "with":
                r = P.with_options(P.collection("list", [x, y, z]), {"A": 9, "K": "x"}, force=(b[0] != "val"))
            elif kind == "funapp":
                P.free("h")
                r = P.funapp(P.fnvalue("h"), [x], [("u", y), ("v", z)])
            else:
                r = P.apply(P.map(P.collection("list", [x, y]), [("A", P.value([1, 2])), ("K", z if c[0] == "val" and isinstance(c[1], list) else P.value(["x", "q"]))]),
                            P.fnvalue("py:list"))
            for o in dicts:
                P.evaluate(r, o)
            items.append((P.to_json(), {"enum": kind}))
    return items


def c05_oracle(prog, meta, impl, model):
    """the model is the eager reference computation: values must coincide, failures must coincide"""
    out = []
    for i, j in meta.get("pairs", []):
        # (programs outside the model: the eager computation is the same graph with nothing stored)
        if i < len(impl) and j < len(impl) and not same_value_or_both_fail(impl[i], impl[j]):
            out.append(("evaluation yields a different value than the eager computation (the same graph evaluated with nothing stored)", i,
                        {"options": prog["ops"][i]["o"], "got": impl[i].get("r"), "eager": impl[j].get("r")}))
    if meta.get("no_model"):
        return out
    if not isinstance(model, list):
        return out
    for i, (op, a, b) in enumerate(zip(prog["ops"], impl, model)):
        if op["op"] != "evaluate" or "r" not in a or not isinstance(b, dict) or "r" not in b:
            continue
        if a["r"][0] == "fuel" or b["r"][0] == "fuel":
            continue
        if a["r"][0] != b["r"][0]:
            out.append((f"evaluation {'fails' if is_err(a) else 'succeeds'} where the eager computation "
                        f"{'fails' if b['r'][0] == 'err' else 'succeeds'}", i, {"impl": a["r"], "reference": b["r"]}))
        elif a["r"][0] == "ok":
            from pylib import canon_model_value
            if dumps(a["r"][1]) != dumps(canon_model_value(b["r"][1])):
                out.append(("evaluation yields a different value than the eager computation", i,
                            {"impl": a["r"], "reference": b["r"]}))
    return out


def nontrivial_eval(prog, impl):
    kinds = {n["k"] for n in prog.get("nodes", [])}
    oks = {dumps(o["r"]) for o in impl if isinstance(o, dict) and "r" in o}
    return len(kinds) >= 3 and len(oks) >= 2


C05 = CoreProp("C05", ("eval",), c05_programs, c05_oracle, nontrivial=nontrivial_eval,
               rule="corpus + exhaustive 3-leaf trees per combinator over a 5-dictionary grid + random typed "
                    "trees/DAGs (depth<=4); non-trivial = >=3 node kinds and >=2 distinct outcomes over its dictionaries; directed families: "
                    "equal-hash value sequences, lifted falsy keywords, constants (tuples holding lists included) at every wrapping "
                    "position with consumers that edit them in place, dataset classes (plain / derived / nested)")


# ================================================================== C01

def hist_cached_vs_uncached(rng, cfg, g: G, meta, n_dicts=5):
    P = g.P
    roots = [g.expr("any", rng.randint(1, cfg.max_depth)) for _ in range(rng.randint(1, 2))]
    roots = [r if P.node(r)["k"] in ("dataset", "cached") else P.cached(r) for r in roots]
    fam = dict_family(rng, cfg, n_dicts)
    pairs = []
    seq = []
    for o in fam:
        seq.append(o)
        if rng.random() < 0.4:
            seq.append(rng.choice(seq))         # revisit an earlier dictionary (warm)
    for o in seq:
        for r in roots:
            P.evaluate(r, o)
            P.evaluate(r, o, cache_off=True)
            pairs.append((len(P.ops) - 2, len(P.ops) - 1))
    meta["pairs"] = pairs


def reused_dict_items(rng, n) -> List[Item]:
    """the caller keeps ONE dictionary object and edits it in place between calls (`o["A"] = 2; ds(o)`): every
    evaluation — of a `cached(...)` node, a dataset, a node under a wrapper — still equals the one with caching off"""
    items = []
    for i in range(n):
        P = Prog()
        a, k = P.option("A"), P.option("S.X", dflt=P.value(0))
        inner = rng.choice([lambda: P.collection("list", [a, k]),
                            lambda: P.apply(a, P.fnvalue(P.free(f"g{i}"))),
                            lambda: P.switch(P.option("K", bare=True), [("x", a)], k),
                            lambda: P.template("{A}-{S.X}")])()
        shape = i % 4
        if shape == 0:
            root = P.cached(inner)
        elif shape == 1:
            root = P.dataset([("v", inner)])
        elif shape == 2:
            root = P.with_options(P.cached(inner), {"Z": 1})
        else:
            root = P.collection("list", [P.cached(inner), P.dataset([("v", P.cached(a))])])
        seq = [{"A": 1, "S": {"X": 1}}, {"A": 2, "S": {"X": 1}}, {"A": 2, "S": {"X": 2}, "K": "x"}, {"A": 1, "S": {"X": 1}},
               {"A": 3, "S": {"X": 1, "Y": 0}}, {"A": 3, "S": {"X": 5, "Y": 0}}]
        rng.shuffle(seq)
        pairs = []
        for o in seq:
            P.evaluate(root, o, reuse_o=True)
            P.evaluate(root, o, cache_off=True, reuse_o=True)
            pairs.append((len(P.ops) - 2, len(P.ops) - 1))
        items.append((P.to_json(), {"pairs": pairs}))
    return items


def section_inner_items(rng, n) -> List[Item]:
    """a cached dataset that reads a whole section AND a key inside it (`Option("S")` with `Option("S.X")`, at several
    depths), alone and specialised by pre-set / default options that supply part of the section; the history varies
    OTHER keys of the section: every evaluation equals its cache-off twin"""
    items = []
    for i in range(n):
        P = Prog()
        sec, inner_key = rng.choice([("S", "S.X"), ("S", "S.U.V"), ("S.U", "S.U.V"), ("T", "T.X")])
        params = [("sec", P.option(sec)), ("leaf", P.option(inner_key))]
        if rng.random() < 0.5:
            params.reverse()
        if rng.random() < 0.3:
            params.append(("b", P.option("B", dflt=P.value(0))))
        kw: Dict[str, Any] = {}
        leaf_val = rng.choice(["prod", 1])
        preset: Dict[str, Any] = {}
        _put(preset, inner_key, leaf_val)
        style = i % 4
        if style == 1:
            kw["options"] = preset
        elif style == 2:
            kw["default_options"] = preset
        d = P.dataset(params, **kw)
        root = d
        if style == 3:
            root = P.derive(d, preset, default=rng.random() < 0.5)
        pairs = []
        other = {"S.X": "Y", "S.U.V": "W", "T.X": "Z"}[inner_key]
        other_key = inner_key.rsplit(".", 1)[0] + "." + other
        for hv in ["h1", "h2", "h1", "h3"]:
            o: Dict[str, Any] = {}
            _put(o, inner_key, leaf_val)
            _put(o, other_key, hv)
            if sec != inner_key.rsplit(".", 1)[0]:
                _put(o, sec + ".Q", hv + "q")
            P.evaluate(root, sort_json(o))
            P.evaluate(root, sort_json(o), cache_off=True)
            pairs.append((len(P.ops) - 2, len(P.ops) - 1))
        items.append((P.to_json(), {"pairs": pairs, "overlay": [(a, b, "a dataset reading a section and a key inside it") for a, b in pairs]}))
    return items


def cached_namespace_items(rng, n) -> List[Item]:
    """a whole namespace used as an evaluatable under a cache (`cached(NS)`, a dataset argument `ns=NS`) whose members
    fall back to defaults that read OTHER options (a template, a chained Option, a dataset): dictionaries that differ
    only in such an option give different values; members set in the section, unset, partly set"""
    items = []
    for i in range(n):
        P = Prog()
        dkind = i % 3
        if dkind == 0:
            dflt = P.template("{BASE}/pkg")
        elif dkind == 1:
            dflt = P.option("BASE", dflt=P.value("b0"))
        else:
            dflt = P.dataset([("b", P.option("BASE"))], cache=P.new_cache("nocache"))
        members = [("A", P.option("NS.A", dflt=dflt, nsmember=1, style="option")),
                   ("C", P.option("NS.C", dflt=P.value(0), nsmember=1, style="option")),
                   # (an `Option.auto(...)` member: a placeholder until the namespace names it)
                   ("D", P.option("NS.D", dflt=P.value(3), nsmember=1, style="auto"))]
        if rng.random() < 0.4:
            sub = P.namespace("NS.SUB", [("D", P.option("NS.SUB.D", dflt=P.option("DEEP", dflt=P.value(1)), nsmember=1, style="option"))],
                              via="decorator")
            P.node(sub)["explicit"] = True
            P.node(sub)["nsmember"] = 1
            members.append(("SUB", sub))
        ns = P.namespace("NS", members, via="decorator")
        root = [lambda: P.cached(ns), lambda: P.dataset([("ns", ns)]), lambda: P.cached(P.collection("list", [ns, P.option("Z", dflt=P.value(0))]))][i % 3]()
        seq = [{"BASE": 1}, {"BASE": 2}, {"NS": {"A": 5}, "BASE": 1}, {"NS": {"C": 1}, "BASE": 3, "DEEP": 2}, {"BASE": 1},
               {"NS": {"C": 1}, "BASE": 4, "DEEP": 3}, {"NS": {"A": 5}, "BASE": 9}, {"NS": {"D": 7}, "BASE": 1}, {"NS": {"D": 8}, "BASE": 1}]
        pairs, ke = [], []
        for o in seq:
            P.op("keys", root, o)
            P.evaluate(root, o)
            P.evaluate(root, o, cache_off=True)
            pairs.append((len(P.ops) - 2, len(P.ops) - 1))
            ke.append((len(P.ops) - 3, len(P.ops) - 2))
        items.append((P.to_json(), {"pairs": pairs, "ke": ke, "root": root}))
    return items


def function_slot_items(rng, n) -> List[Item]:
    """the FUNCTION of an application is itself an expression that reads options (`FunctionApplication(switch(Option(
    "ALGO"), {...}), x=Option("X"))`, a partial application, an Option default factory chosen by a switch): what the
    function slot reads is part of keys() — and of the fingerprint — like what the arguments read"""
    items = []
    for i in range(n):
        P = Prog()
        fa, fb, fd = P.fnvalue(P.free(f"fast{i}")), P.fnvalue(P.free(f"exact{i}")), P.fnvalue(P.free(f"dflt{i}"))
        shape = i % 4
        if shape == 0:
            fexpr = P.switch(P.option("ALGO", bare=True), [("fast", fa), ("exact", fb)], fd if rng.random() < 0.5 else None)
        elif shape == 1:
            fexpr = P.case(P.option("ALGO"), [(P.fnvalue("eq", "fast"), fa)], fb)
        elif shape == 2:
            fexpr = P.coalesce([P.switch(P.option("ALGO", bare=True), [("fast", fa)]), fb])
        else:
            fexpr = P.with_options(P.switch(P.option("ALGO", bare=True), [("fast", fa), ("exact", fb)]), {"ALGO": "exact"}, force=False)
        kind = (i // 4) % 3
        if kind == 0:
            app = P.funapp(fexpr, kw=[("x", P.option("X"))])
        elif kind == 1:
            app = P.funapp(fexpr, args=[P.option("X")])
        else:
            app = P.apply(P.option("X"), P.partial(fexpr, kw=[("y", P.option("Y", dflt=P.value(0)))]))
        root = [lambda: app, lambda: P.cached(app), lambda: P.dataset([("r", app)])][i % 3]()
        seq = [{"ALGO": "fast", "X": 2}, {"ALGO": "exact", "X": 2}, {"ALGO": "fast", "X": 2}, {"X": 2}, {"ALGO": "exact", "X": 3, "Y": 1},
               {"ALGO": "fast", "X": 3, "Y": 1}]
        pairs, ke = [], []
        for o in seq:
            P.op("keys", root, o)
            P.evaluate(root, o)
            P.evaluate(root, o, cache_off=True)
            pairs.append((len(P.ops) - 2, len(P.ops) - 1))
            ke.append((len(P.ops) - 3, len(P.ops) - 2))
        items.append((P.to_json(), {"pairs": pairs, "ke": ke, "root": root}))
    return items


def cached_dataset_class_items(rng, n) -> List[Item]:
    """dataset classes (plain, derived, with underscore-named and upper-case members) under a cache — `cached(cls)`, a
    cached dataset taking the class as an argument: dictionaries that differ in the key of ANY member give the value of
    their own dictionary"""
    items = []
    for i in range(n):
        P = Prog()
        keys: List[str] = []
        base = dataset_class(P, rng, "Base", 3, keys=keys, override=["_rate"] if i % 2 else [], kinds=("option", "dataset"))
        cls = base if i % 3 else dataset_class(P, rng, "Sub", 2, bases=[base], keys=keys, override=["_h"], kinds=("option",))
        root = P.cached(cls) if i % 2 else P.dataset([("rec", cls)])
        full: Dict[str, Any] = {}
        for k in keys:
            _put(full, k, 1)
        seq = [copy.deepcopy(full)]
        for k in keys:
            o = copy.deepcopy(full)
            _put(o, k, 2)
            seq.append(o)
        seq.append(copy.deepcopy(full))
        pairs, ke = [], []
        for o in seq:
            P.op("keys", root, sort_json(o))
            P.evaluate(root, sort_json(o))
            P.evaluate(root, sort_json(o), cache_off=True)
            pairs.append((len(P.ops) - 2, len(P.ops) - 1))
            ke.append((len(P.ops) - 3, len(P.ops) - 2))
        items.append((P.to_json(), {"pairs": pairs, "ke": ke, "root": root}))
    return items


def equal_but_different_dict_items(rng, n) -> List[Item]:
    """dictionaries that compare EQUAL as Python dicts but are different dictionaries (`1` / `True`, `0` / `False` under
    some key) select different branches — hence different key sets — of a long-lived graph: each evaluation returns
    the value of its own dictionary, whatever equal-looking dictionary was seen just before"""
    items = []
    for i in range(n):
        P = Prog()
        a, b = ((True, 1), (1, True), (0, False), (False, 0))[i % 4]
        br = P.bind(P.option("A"), [(a, P.option("X")), (b, P.option("Y"))], P.value("other"))
        inner = P.dataset([("v", br)]) if i % 2 else P.cached(br)
        root = P.dataset([("d", inner), ("z", P.option("Z", dflt=P.value(0)))])
        seq = [{"A": a, "X": "x1", "Y": "y1"}, {"A": b, "X": "x1", "Y": "y1"}, {"A": a, "X": "x1", "Y": "y2"}, {"A": b, "X": "x1", "Y": "y2"},
               {"A": b, "X": "x2", "Y": "y2"}, {"A": a, "X": "x2", "Y": "y2"}]
        pairs, ke = [], []
        for o in seq:
            P.op("keys", root, o)
            P.evaluate(root, o)
            P.evaluate(root, o, cache_off=True)
            pairs.append((len(P.ops) - 2, len(P.ops) - 1))
            ke.append((len(P.ops) - 3, len(P.ops) - 2))
        items.append((P.to_json(), {"pairs": pairs, "ke": ke, "root": root}))
    return items


def mapping_order_items(rng, n) -> List[Item]:
    """option values that are mappings with the SAME entries in a different order (equal as Python dicts, different when
    iterated or printed) reaching a cached dataset whose body depends on the order: each evaluation returns the value of
    its own dictionary.  (Oracle only — cache-off twins: the model's dictionaries carry no order of their own.)"""
    items = []
    for i in range(n):
        P = Prog()
        src = P.option("S") if i % 2 == 0 else P.option("T.CFG")
        body = P.apply(src, P.fnvalue("tostr"))
        root = [lambda: P.dataset([("s", body)]), lambda: P.cached(body),
                lambda: P.apply(P.map(P.dataset([("s", body)]), [("N", P.value([1, 2]))]), P.fnvalue("py:list"))][(i // 2) % 3]()
        a = {"alpha": 1, "beta": [2], "gamma": {"x": 1, "y": 2}}
        b = {"gamma": {"y": 2, "x": 1}, "beta": [2], "alpha": 1}
        c = {"beta": [2], "alpha": 1, "gamma": {"x": 1, "y": 2}}
        pairs = []
        for m in (a, b, a, c, b):
            o = {"S": m, "Z": 1} if i % 2 == 0 else {"T": {"CFG": m}, "Z": 1}
            P.raw_op(op="evaluate", n=root, o=copy.deepcopy(o), unsorted=True)
            P.raw_op(op="evaluate", n=root, o=copy.deepcopy(o), unsorted=True, cache_off=True)
            pairs.append((len(P.ops) - 2, len(P.ops) - 1))
        items.append((P.to_json(), {"pairs": pairs, "no_model": True}))
    return items


def c01_programs(rng, tier) -> List[Item]:
    items = corpus_items("C01")
    cfg = Cfg(raising=False)
    items += gen_items(rng, cfg, sizes(tier, 250, 4000), hist_cached_vs_uncached)
    items += reused_dict_items(rng, sizes(tier, 24, 120))
    items += section_inner_items(rng, sizes(tier, 24, 120))
    items += cached_namespace_items(rng, sizes(tier, 18, 90))
    items += function_slot_items(rng, sizes(tier, 24, 96))
    items += cached_dataset_class_items(rng, sizes(tier, 18, 90))
    items += equal_but_different_dict_items(rng, sizes(tier, 16, 48))
    items += mapping_order_items(rng, sizes(tier, 12, 36))
    return items


def _construction_ops(prog):
    """the construction steps of a program (derivations, registrations, added effects …): a follow-up program on the
    same graph starts with them"""
    return [copy.deepcopy(op) for op in prog.get("ops", [])
            if op.get("op") in ("with_options", "register", "add_effect", "set_dispatch", "set_cache", "effects_disabled")]


def c01_phase2(items, impl, model, rng, tier) -> List[Item]:
    """model-guided adversarial pairs: change exactly one key some sub-evaluation read"""
    out: List[Item] = []
    budget = sizes(tier, 250, 3000)
    order = list(range(len(items)))
    rng.shuffle(order)
    for idx in order:
        if len(out) >= budget:
            break
        prog, meta = items[idx]
        mo = model[idx]
        if meta.get("corpus") or not isinstance(mo, list):
            continue
        cands = []
        for i, (op, b) in enumerate(zip(prog["ops"], mo)):
            if op["op"] == "evaluate" and not op.get("cache_off") and isinstance(b, dict) and b.get("reads"):
                cands.append((i, b["reads"]))
        if not cands:
            continue
        i, reads = rng.choice(cands)
        reads = [k for k in reads if k != "*" and not k.startswith("LABREA")]
        if not reads:
            continue
        o = prog["ops"][i]["o"]
        n = prog["ops"][i]["n"]
        p2 = copy.deepcopy(prog)
        p2["ops"] = _construction_ops(prog)
        pairs = []
        variants = []
        for k in rng.sample(reads, min(3, len(reads))):
            variants.append(_set_key(o, k, rng))
            variants.append(_del_key(o, k))
        p2["ops"].append({"op": "evaluate", "n": n, "o": o})
        for v in variants:
            if v is None:
                continue
            v = sort_json(v)
            p2["ops"].append({"op": "evaluate", "n": n, "o": v})
            p2["ops"].append({"op": "evaluate", "n": n, "o": v, "cache_off": True})
            pairs.append((len(p2["ops"]) - 2, len(p2["ops"]) - 1))
            p2["ops"].append({"op": "evaluate", "n": n, "o": o})
            p2["ops"].append({"op": "evaluate", "n": n, "o": o, "cache_off": True})
            pairs.append((len(p2["ops"]) - 2, len(p2["ops"]) - 1))
        out.append((p2, dict({"pairs": pairs, "phase": 2}, **({"no_model": True} if meta.get("no_model") else {}))))
    return out


def _set_key(o, key, rng):
    o = copy.deepcopy(o)
    segs = key.split(".")
    cur = o
    for s in segs[:-1]:
        if s.isdigit():
            return None
        if not isinstance(cur.get(s), dict):
            if s in cur and not isinstance(cur[s], dict):
                return None
            cur[s] = {}
        cur = cur[s]
    if segs[-1].isdigit():
        return None
    old = cur.get(segs[-1], "__absent__")
    tmpl = {"A": ["{B}", "x{C}"], "B": ["{C}"], "P": ["{A}", "{B}{A}"], "Q": ["{P}", "q{A}"], "R": ["{Q}", "{P}"],
            "X": ["{A}", "{B}"], "Y": ["{C}"]}.get(segs[-1], [])
    choices = [v for v in SCALARS + tmpl if v != old or type(v) != type(old)]
    cur[segs[-1]] = rng.choice(choices)
    return o


def _del_key(o, key):
    o = copy.deepcopy(o)
    segs = key.split(".")
    cur = o
    for s in segs[:-1]:
        if not isinstance(cur, dict) or s not in cur:
            return None
        cur = cur[s]
    if isinstance(cur, dict) and segs[-1] in cur:
        del cur[segs[-1]]
        return o
    return None


def same_outcome(a, b) -> bool:
    if not (isinstance(a, dict) and isinstance(b, dict) and "r" in a and "r" in b):
        return True
    if a["r"][0] == "fuel" or b["r"][0] == "fuel":
        return True
    return dumps(a["r"]) == dumps(b["r"])


def same_value_or_both_fail(a, b) -> bool:
    """equal values, or both fail (a graph with several faults may report a different one first when
    the cache key is computed before the evaluation)"""
    if not (isinstance(a, dict) and isinstance(b, dict) and "r" in a and "r" in b):
        return True
    if a["r"][0] == "fuel" or b["r"][0] == "fuel":
        return True
    if a["r"][0] != b["r"][0]:
        return False
    return a["r"][0] != "ok" or dumps(a["r"][1]) == dumps(b["r"][1])


def c01_oracle(prog, meta, impl, model):
    out = []
    for i, j in meta.get("pairs", []):
        if i < len(impl) and j < len(impl) and not same_value_or_both_fail(impl[i], impl[j]):
            out.append(("a cached evaluation differs from the same evaluation with caching switched off", i,
                        {"options": prog["ops"][i]["o"], "cached": impl[i].get("r"), "uncached": impl[j].get("r")}))
    return out


def catch_unsafe_program(prog) -> Optional[str]:
    """syntactic trigger of F18 / F19: a catch position whose content can fail after a present read"""
    nodes = {n["id"]: n for n in prog.get("nodes", [])}

    def bare(nid):
        n = nodes.get(nid, {})
        return n.get("k") == "option" and n.get("dflt") is None and n.get("dom") is None

    for n in prog.get("nodes", []):
        if n["k"] == "coalesce" and any(not bare(m) for m in n["ms"][:-1]):
            return "F18"
        if n["k"] == "switch" and n.get("dflt") is not None and not bare(n["d"]):
            d = nodes.get(n["d"], {})
            if not (d.get("k") in ("value",) or (d.get("k") == "option" and d.get("dom") is None and
                                                   nodes.get(d.get("dflt"), {}).get("k") in ("value", None))):
                return "F19"
    for o in prog.get("ovs", []):
        d = nodes.get(o["dispatch"], {})
        if o.get("dflt") is not None and d.get("k") not in ("value", "option"):
            return "F19"
    return None


def c01_classify(prog, meta, what):
    return [x for x in (catch_unsafe_program(prog), brace_resubstitution_program(prog)) if x]


def nontrivial_cache(prog, impl):
    hits = sum(1 for o in impl if isinstance(o, dict) for c in o.get("cache", []) if c[3] == "hit")
    miss = sum(1 for o in impl if isinstance(o, dict) for c in o.get("cache", []) if c[1] == "set")
    return hits > 0 and miss > 1


C01 = CoreProp("C01", ("eval", "keys", "cache", "reads"), c01_programs, c01_oracle, phase2=c01_phase2, classify=c01_classify,
               nontrivial=nontrivial_cache,
               rule="histories of 5-8 dictionaries (single-key perturbations, revisits) on one long-lived graph, each "
                    "evaluation paired with the same evaluation under labrea.cache.disabled(); phase 2: for keys the model "
                    "saw read, set/delete exactly that key after warming the cache; non-trivial = history with >=1 cache "
                    "hit and >=2 stores; directed families: ONE dictionary object edited in place between calls, datasets "
                    "reading a section and a key inside it")


# ================================================================== C02

def hist_memo(rng, cfg, g: G, meta, n_dicts=4):
    P = g.P
    root = g.dataset(rng.randint(1, cfg.max_depth))
    fam = dict_family(rng, cfg, n_dicts)
    repeats = []
    for o in fam:
        P.evaluate(root, o)
        first = len(P.ops) - 1
        kind = rng.choice(["exact", "extra", "perm", "switch_default"])
        o2 = copy.deepcopy(o)
        if kind == "extra":
            o2["ZZ9"] = rng.choice(SCALARS)
            o2["ZY"] = {"W": 1}
        elif kind == "switch_default":
            # a library switch spelled out with the value it has anyway: nothing the results depend on changed
            if "LABREA" in o2:
                kind = "exact"
            else:
                o2["LABREA"] = rng.choice([{"EFFECTS": {"DISABLED": False}}, {"CACHE": {"DISABLED": False}},
                                           {"LOGGING": {"DISABLED": False}}, {"CACHE": {"DISABLE": False}, "EFFECTS": {"DISABLED": False}}])
        P.ops.append({"op": "evaluate", "n": root, "o": sort_json(o2) if kind != "perm" else _permute(o2, rng),
                      "unsorted": kind == "perm"})
        repeats.append((first, len(P.ops) - 1, kind))
    meta["repeats"] = repeats
    meta["bodies"] = _dataset_bodies(P)


def _permute(o, rng):
    ks = list(o.keys())
    rng.shuffle(ks)
    return {k: o[k] for k in ks}


def _dataset_bodies(P: Prog):
    """body function name / cache kind / effects of every dataset of the program"""
    nodes = {n["id"]: n for n in P.nodes}
    out = {}
    for d in P.dss:
        ov = P.ovs[d["ov"] - 1]
        body = None
        if ov.get("dflt") is not None:
            fa = nodes[ov["dflt"]]
            body = nodes[fa["f"]]["v"]["f"]
        effs = [nodes[e]["v"]["f"] for e in d["effects"] if nodes[e]["k"] == "value"]
        has_dispatch = nodes[ov["dispatch"]].get("v") != {"$": "missing"}
        out[str(d["id"])] = {"body": body, "cache": P.caches.get(d["cache"], "memory"), "cid": d["cache"], "effects": effs,
                             "effects_disabled": d["effects_disabled"], "dispatch": has_dispatch}
    return out


def effect_family_items(rng, n) -> List[Item]:
    """a dataset, datasets derived from it with with_options / with_default_options, effects added to members of
    the family after deriving: an effect belongs to the dataset it was added to (and to those derived from it
    afterwards), runs once per body execution, after the callback, on the dataset's value"""
    items = []
    for _ in range(n):
        P = Prog()
        neff = [0]

        def eff():
            neff[0] += 1
            return P.fnvalue(P.free(f"eff{neff[0]}"))
        first = [eff() for _ in range(rng.randint(0, 2))]
        kw = {}
        if rng.random() < 0.5:
            kw["callback"] = P.fnvalue(rng.choice(["pair", "tostr", "not"]), *([7] if rng.random() < 0 else []))
            if P.node(kw["callback"])["v"]["f"] == "pair":
                kw["callback"] = P.fnvalue("pair", 7)
        if rng.random() < 0.3:
            kw["cache"] = P.new_cache("nocache")
        root = P.dataset([("a", P.option("A")), ("b", P.option("B", dflt=P.value(0)))], effects=first, **kw)
        members = [(root, [P.node(e)["v"]["f"] for e in first])]
        for _ in range(rng.randint(2, 5)):
            src, effs = rng.choice(members)
            if rng.random() < 0.5:
                p = rng.choice([{"B": rng.choice([1, 2])}, {"A": rng.choice([5, 6])}, {"C": 1}])
                new = P.derive(src, p, default=rng.random() < 0.4)
                members.append((new, list(effs)))
            else:
                e = eff()
                P.raw_op(op="add_effect", ds=P.ds_of(src), n=e)
                effs.append(P.node(e)["v"]["f"])
        recs = []
        for o in [{"A": 1}, {"A": 1, "B": 3}, {"A": 2}]:
            for node, effs in members:
                P.raw_op(op="reset")
                P.evaluate(node, o)
                recs.append({"op": len(P.ops) - 1, "effects": list(effs)})
        items.append((P.to_json(), {"family": recs, "bodies": {}, "repeats": []}))
    return items


STORED_VALUES = [None, 0, False, "", [], {}, (), 1, "v", [None], {"k": None}]


def minimal_backend_items(rng, n) -> List[Item]:
    """the documented minimal backend (a `Cache` subclass with `get` and `set` only; `exists` is the base class's) and
    MemoryCache holding every kind of value — None and the other falsy ones included — in a diamond
    top -> (left, right) -> shared: the shared dependency runs once per evaluation, never on an exact repeat or a
    repeat with an unrelated key added, and its effect runs once per body execution"""
    items = []
    for i in range(n):
        P = Prog()
        kind = "getonly" if i % 3 != 2 else "memory"
        v = copy.deepcopy(STORED_VALUES[i % len(STORED_VALUES)])
        P.const_fn("shared_body", v)
        eff = P.fnvalue(P.free("eff1"))
        mk = lambda: P.new_cache(kind)      # noqa: E731  (one backend object per dataset)
        if rng.random() < 0.7:
            shared = P.dataset([("a", P.option("A"))], fn_name="shared_body", cache=mk(), effects=[eff])
        else:
            # the falsy value is what the callback returns
            shared = P.dataset([("a", P.option("A"))], cache=mk(), callback=P.fnvalue("shared_body"), effects=[eff])
        left = P.dataset([("s", shared), ("l", P.option("L", dflt=P.value(0)))], cache=mk())
        right = P.dataset([("s", shared)], cache=mk())
        top = P.dataset([("x", left), ("y", right)], cache=mk())
        root = top if rng.random() < 0.7 else P.collection("list", [left, right, shared])
        repeats = []
        o1: Dict[str, Any] = {"A": rng.choice([1, "a", None])}
        o2 = dict(o1, A=2)
        P.evaluate(root, o1)
        first = len(P.ops) - 1
        for kind2, o in (("exact", o1), ("extra", dict(o1, ZZ9=1, ZY={"W": 1})), ("exact", o1)):
            P.evaluate(root, sort_json(o))
            repeats.append((first, len(P.ops) - 1, kind2))
        P.evaluate(shared, o1)
        repeats.append((first, len(P.ops) - 1, "member"))
        P.evaluate(root, o2)
        second = len(P.ops) - 1
        P.evaluate(root, o2)
        repeats.append((second, len(P.ops) - 1, "exact"))
        items.append((P.to_json(), {"repeats": [r for r in repeats if r[2] != "member"], "member_repeats": [r for r in repeats if r[2] == "member"],
                                    "bodies": _dataset_bodies(P), "family": []}))
    return items


def interface_items(rng, n) -> List[Item]:
    """interfaces in the program language: members declared by annotation, with a function default, with a plain
    CONSTANT default, with an evaluatable default; implementations given as functions (registered by the library as bare
    applications: the member dataset's cache is their only memoisation), evaluatables or constants, under one or several
    aliases; consumers in a diamond.  Each member is a cached dataset: repeats are served from its cache whatever the
    kind of its default, an implementation's body runs once per distinct assignment"""
    items = []
    for i in range(n):
        P = Prog()
        disp = P.option("IMPL", bare=True) if i % 3 else P.option("IMPL", dflt=P.value("base"))
        # (a member whose default chooses a branch by a dataset that needs no option: defining the interface runs nothing)
        P.const_fn(f"level{i}", "x")
        lvl = P.dataset([("m", P.option("M", dflt=P.value(0)))], fn_name=f"level{i}", cache=P.new_cache("nocache"))
        mem = P.interface(disp, [("table", "const", rng.choice(["t0", 0, None, [1]])),
                                 ("rows", "fn", [("a", P.option("A"))]),
                                 ("limit", "eval", P.option("LIMIT", dflt=P.value(10))),
                                 ("mode", "eval", P.switch(lvl, [("x", P.value("mode-x"))], P.value("mode-d"))),
                                 ("pick", "fn", [("p", P.case(lvl, [(P.fnvalue("eq", "x"), P.value(1))], P.value(2)))]),
                                 ("extra", "ann", None)])
        impl = P.implement(mem, ["fast"] if i % 2 else ["fast", "quick"],
                           [("table", "fn", [("b", P.option("B", dflt=P.value(0)))]),
                            ("rows", "node", P.dataset([("a", P.option("A"))])),
                            ("extra", "fn", []),
                            # (implementation members that choose by a dataset needing no option: defining the
                            # implementation class runs nothing either)
                            ("mode", "node", P.switch(lvl, [("x", P.value("impl-mode-x"))], P.value("impl-mode-d"))),
                            ("pick", "fn", [("p", P.bind(lvl, [("x", P.value(10))], P.value(20)))])]
                           + ([("limit", "const", 5)] if i % 4 == 0 else []))
        left = P.dataset([("t", mem["table"]), ("r", mem["rows"])])
        right = P.dataset([("t", mem["table"]), ("l", mem["limit"])])
        top = P.dataset([("x", left), ("y", right)])
        root = [top, mem["table"], P.collection("list", [mem["table"], mem["extra"], mem["table"], mem["mode"], mem["pick"]])][i % 3]
        repeats = []
        for o in [{"IMPL": "fast", "A": 1}, {"A": 1}, {"IMPL": "quick", "A": 2, "B": 1}, {"IMPL": "other", "A": 1}]:
            P.evaluate(root, o)
            first = len(P.ops) - 1
            for kind2, o2 in (("exact", o), ("extra", dict(o, ZZ9=1))):
                P.evaluate(root, sort_json(o2))
                repeats.append((first, len(P.ops) - 1, kind2))
        bodies = _dataset_bodies(P)
        nodes = {nd["id"]: nd for nd in P.nodes}
        extra = [nodes[nodes[nid]["f"]]["v"]["f"] for nid in impl.values() if nodes[nid]["k"] == "funapp"]
        items.append((P.to_json(), {"repeats": repeats, "bodies": bodies, "family": [], "extra_cached_bodies": extra}))
    return items


def switched_off_repeat_items(rng, n) -> List[Item]:
    """repeats of an evaluation with the library's switches spelled out in ways that leave them OFF — literal falsy
    values, references resolving to falsy values, both spellings of the cache switch with the documented one falsy — are
    served from the cache like any repeat"""
    items = []
    OFF = [{"CACHE": {"DISABLED": False, "DISABLE": True}}, {"CACHE": {"DISABLED": 0, "DISABLE": 1}}, {"CACHE": {"DISABLED": None, "DISABLE": "yes"}},
           {"CACHE": {"DISABLED": "{DEBUG}"}}, {"CACHE": {"DISABLE": "{DEBUG}"}}, {"CACHE": {"DISABLED": "", "DISABLE": "{ON}"}},
           {"EFFECTS": {"DISABLED": "{DEBUG}"}, "LOGGING": {"DISABLED": 0}}]
    for i in range(n):
        P = Prog()
        shared = P.dataset([("a", P.option("A"))], effects=[P.fnvalue(P.free("eff1"))])
        left = P.dataset([("s", shared), ("l", P.option("L", dflt=P.value(0)))])
        right = P.dataset([("s", shared)])
        root = P.dataset([("x", left), ("y", right)]) if i % 2 else shared
        o = {"A": i % 3, "DEBUG": [False, 0, "", None][i % 4], "ON": True}
        P.evaluate(root, o)
        first = len(P.ops) - 1
        repeats = []
        for lab in OFF:
            P.evaluate(root, sort_json(dict(o, LABREA=lab)))
            repeats.append((first, len(P.ops) - 1, "switch_default"))
        items.append((P.to_json(), {"repeats": repeats, "bodies": _dataset_bodies(P), "family": []}))
    return items


def c02_programs(rng, tier) -> List[Item]:
    items = corpus_items("C02")
    cfg = Cfg(raising=False, all_options=False)
    items += gen_items(rng, cfg, sizes(tier, 300, 4000), hist_memo)
    items += effect_family_items(rng, sizes(tier, 60, 600))
    items += minimal_backend_items(rng, sizes(tier, 44, 330))
    items += interface_items(rng, sizes(tier, 24, 120))
    items += switched_off_repeat_items(rng, sizes(tier, 12, 48))
    return items


def c02_oracle(prog, meta, impl, model):
    out = []
    bodies = meta.get("bodies", {})
    STORES = ("memory", "getonly")      # (a get/set-only backend occurs with an all-behave script only in C02 programs)
    cached_bodies = {b["body"] for b in bodies.values() if b["body"] and b["cache"] in STORES} | set(meta.get("extra_cached_bodies", []))
    effect_names = {e for b in bodies.values() if b["cache"] in STORES for e in b["effects"]}
    for first, second, kind in list(meta.get("repeats", [])) + list(meta.get("member_repeats", [])):
        if first >= len(impl) or second >= len(impl):
            continue
        a, b = impl[first], impl[second]
        if not (is_ok(a) and is_ok(b)):
            continue
        if kind != "member" and dumps(a["r"]) != dumps(b["r"]):
            out.append((f"repeated evaluation ({kind}) returned a different value", second, {"first": a["r"], "second": b["r"]}))
        ran = [c[0] for c in b.get("calls", []) if c[0] in cached_bodies]
        if ran:
            out.append((f"body of a cached dataset ran again on a repeated evaluation ({kind})", second,
                        {"bodies": ran, "options": prog["ops"][second]["o"]}))
        eff = [c[0] for c in b.get("calls", []) if c[0] in effect_names]
        if eff:
            out.append((f"an effect ran on a cache hit ({kind})", second, {"effects": eff}))
    for rec in meta.get("family", []):
        a = impl[rec["op"]] if rec["op"] < len(impl) else None
        if not is_ok(a):
            continue
        got = [c for c in a.get("calls", []) if c[0].startswith("eff")]
        if [c[0] for c in got] != rec["effects"]:
            out.append(("a cold evaluation did not run exactly the dataset's own effects, once each, in order", rec["op"],
                        {"expected": rec["effects"], "ran": [c[0] for c in got]}))
        for c in got:
            if not c[1] or dumps(c[1][0]) != dumps(a["r"][1]):
                out.append(("an effect received something other than the dataset's value", rec["op"],
                            {"effect": c[0], "received": c[1], "value": a["r"][1]}))
                break
    # within one evaluation: one body run per stored fingerprint, effects once per body run after it
    for i, o in enumerate(impl):
        if not is_ok(o) or prog["ops"][i].get("cache_off"):
            continue
        calls = o.get("calls", [])
        for ds, info in bodies.items():
            if info["cache"] not in STORES:
                continue
            stored = [dumps(c[2]) for c in o.get("cache", []) if c[0] == info["cid"] and c[1] == "set"]
            if len(stored) != len(set(stored)):
                out.append(("a shared dependency was computed more than once within one evaluation", i,
                            {"dataset": ds, "stores": len(stored), "distinct_fingerprints": len(set(stored))}))
            nbody = sum(1 for c in calls if info["body"] and c[0] == info["body"])
            if info["body"] and not info.get("dispatch") and nbody > len(set(stored)):
                out.append(("a dataset body ran more often than results were stored", i,
                            {"dataset": ds, "body_runs": nbody, "stored_fingerprints": len(set(stored))}))
            if info["effects"] and not info["effects_disabled"] and not _effects_off_anywhere(prog["ops"][i]["o"], prog):
                for e in info["effects"]:
                    ne = sum(1 for c in calls if c[0] == e)
                    if ne != len(stored):
                        out.append(("effects do not run exactly once per evaluation that is not served from cache", i,
                                    {"dataset": ds, "effect": e, "effect_runs": ne, "computed": len(stored)}))
                if info["body"] and not info.get("dispatch"):
                    seen_body = False
                    for c in calls:
                        if c[0] == info["body"]:
                            seen_body = True
                        if c[0] in info["effects"] and not seen_body:
                            out.append(("an effect ran before its dataset's body", i, {"dataset": ds}))
                            break
    return out


def _effects_off_anywhere(o, prog):
    """effects may be disabled by the caller's option or by a pre-set / default option of some wrapper"""
    if _effects_off(o):
        return True
    blobs = [n.get("p") for n in prog["nodes"] if n["k"] == "with"] + \
            [d.get("options") for d in prog.get("dss", [])] + [d.get("default_options") for d in prog.get("dss", [])]
    return any(isinstance(b, dict) and "LABREA" in b for b in blobs)


def _effects_off(o):
    r = ref_get("LABREA.EFFECTS.DISABLED", o)
    return r[0] == "found" and bool(r[1])


C02 = CoreProp("C02", ("trace", "cache", "keys", "eval"), c02_programs, c02_oracle, nontrivial=nontrivial_cache,
               rule="dataset DAGs (sharing, overloads, pre-set options, nocache nodes) evaluated on dictionary families with "
                    "exact repeats, repeats with never-mentioned keys added, and top-level key permutations; body/effect "
                    "execution counters per dataset; non-trivial = >=1 hit and >=2 stores; directed families: effects across derived "
                    "datasets, a get/set-only backend and MemoryCache holding None and every falsy value in a diamond")


# ================================================================== C03

def hist_keys_eval(rng, cfg, g: G, meta, n_dicts=4):
    P = g.P
    root = g.expr("any", rng.randint(1, cfg.max_depth))
    fam = dict_family(rng, cfg, n_dicts)
    if fam and rng.random() < 0.5:
        # the library's own section is part of the dictionary like any other (AllOptions reports it; the switches,
        # spelled out with their default values, change nothing else)
        extra = copy.deepcopy(fam[0])
        extra["LABREA"] = rng.choice([{"LOGGING": {"DISABLED": False}}, {"EFFECTS": {"DISABLED": False}},
                                      {"CACHE": {"DISABLED": False, "DISABLE": False}}])
        fam = fam + [sort_json(extra)]
    triples = []
    for o in fam:
        P.raw_op(op="reset")
        P.op("keys", root, o)
        P.op("evaluate", root, o)
        triples.append((len(P.ops) - 2, len(P.ops) - 1))
    meta["ke"] = triples
    meta["root"] = root


MAP_KEY_PAIRS = [("S", "S.X"), ("S.X", "S"), ("S.X", "S.X"), ("A", "A"), ("S.U", "S.U.V"), ("S.U.V", "S.U"), ("S.X", "S.Y"),
                 ("S.X", "S.XY"), ("AB", "A"), ("A", "AB"), ("S", "S.U.V"), ("T", "S.X")]


def map_prefix_items(rng, n) -> List[Item]:
    """a Map whose iterated key and the key its body reads are equal, unrelated, string prefixes of one another, or a
    section and a key inside it (either way round; sections iterate dict-valued items), over dictionaries that contain
    the section, part of it, or neither: keys() lists what is present and needed, no more and no less"""
    items = []
    for i in range(n):
        P = Prog()
        k_iter, k_read = MAP_KEY_PAIRS[i % len(MAP_KEY_PAIRS)]
        sect = {"S": [{"X": 1, "Y": 2}, {"X": 3, "U": {"V": 4}}], "S.U": [{"V": 1}, {"V": 2, "W": 0}], "T": [{"X": 1}, {"Z": 2}]}
        vals = sect.get(k_iter, [1, "v"])
        body = rng.choice([lambda: P.option(k_read),
                           lambda: P.collection("list", [P.option(k_read), P.option("B", dflt=P.value(0))]),
                           lambda: P.option(k_read, dflt=P.value("d")),
                           lambda: P.dataset([("r", P.option(k_read))], cache=P.new_cache("nocache"))])()
        src = P.value(copy.deepcopy(vals)) if rng.random() < 0.6 else P.option("VS", dflt=P.value(copy.deepcopy(vals)))
        m = P.map(body, [(k_iter, src)])
        root = P.apply(m, P.fnvalue("py:list"))
        if rng.random() < 0.3:
            root = P.dataset([("m", root)])
        triples = []
        dicts: List[Dict[str, Any]] = [{}, {"S": {"X": 9, "Y": 8, "XY": 7, "U": {"V": 6, "W": 5}}, "A": 1, "AB": 2, "T": {"X": 0}},
                                       {"S": {"Y": 1}}, {"S": {"U": {"W": 1}}, "B": 3}, {"A": 5}, {"AB": 5, "S": {"XY": 1}}]
        for o in dicts:
            P.raw_op(op="reset")
            P.op("keys", root, o)
            P.op("evaluate", root, o)
            triples.append((len(P.ops) - 2, len(P.ops) - 1))
        items.append((P.to_json(), {"ke": triples, "root": root}))
    return items


def coalesce_domain_items(rng, n) -> List[Item]:
    """a coalesce whose earlier member is PRESENT but cannot be used (an Option with a constant `domain=` holding a value
    outside it, an Option holding a value of the wrong shape for what follows) next to members that read other keys:
    keys() are those of the member that is actually evaluated, so restricting to them changes nothing.  (Template-free
    dictionaries: the syntactic triggers of the known findings about catch positions do not apply — `classify_off`.)"""
    items = []
    for i in range(n):
        P = Prog()
        first = P.option("ENGINE", dom=P.value(["pg", "lite"]))
        second = [lambda: P.option("SITE.DEFAULT"), lambda: P.option("SITE.DEFAULT", dflt=P.value("d")),
                  lambda: P.collection("list", [P.option("SITE.DEFAULT"), P.option("B", dflt=P.value(0))])][i % 3]()
        members = [first, second] + ([P.value("last")] if i % 2 else [])
        c = P.coalesce(members)
        root = [lambda: c, lambda: P.dataset([("e", c)], cache=P.new_cache("nocache")), lambda: P.cached(c)][(i // 3) % 3]()
        ke = []
        for o in [{"ENGINE": "pg", "SITE": {"DEFAULT": "x"}}, {"ENGINE": "oracle", "SITE": {"DEFAULT": "x"}}, {"SITE": {"DEFAULT": "y"}},
                  {"ENGINE": "mysql"}, {"ENGINE": 5, "SITE": {"DEFAULT": "z"}, "B": 1}, {}]:
            P.raw_op(op="reset")
            P.op("keys", root, o)
            P.op("evaluate", root, o)
            ke.append((len(P.ops) - 2, len(P.ops) - 1))
        items.append((P.to_json(), {"ke": ke, "root": root, "classify_off": True}))
    return items


def section_inner_keys_items(rng, n) -> List[Item]:
    """a cached node / a dataset that reads a section AND keys inside it (also string-prefix pairs: `PATH` / `PATH_OUT`,
    `K1` / `K10`): keys() reports every one of them, in every process whatever its hash seed (these programs are re-run
    under the other PYTHONHASHSEEDs), and the fingerprint lists them all"""
    items = []
    groups = [["S", "S.X"], ["S", "S.X", "S.U.V"], ["S.U", "S.U.V", "S.U.W"], ["PATH", "PATH_OUT"], ["K1", "K10", "K1.A"], ["T", "T.X", "T.Z", "A"],
              ["WALK.DEPTH", "WALK.DEPTHS"]]
    for i in range(n):
        P = Prog()
        keys = groups[i % len(groups)]
        params = [(f"p{j}", P.option(k)) for j, k in enumerate(keys)]
        if i % 2:
            params.reverse()
        shape = (i // len(groups)) % 3
        if shape == 0:
            root = P.dataset(params)
        elif shape == 1:
            root = P.cached(P.collection("list", [n_ for _, n_ in params]))
        else:
            root = P.dataset([("d", P.dataset(params[:1])), ("e", P.cached(P.collection("tuple", [n_ for _, n_ in params[1:]])))])
        ke, expect = [], {}
        for v in (1, 2):
            o: Dict[str, Any] = {}
            for k in sorted(keys, key=lambda z: -len(z)):
                if ref_get(k, o)[0] != "found":
                    _put(o, k, v if "." in k or not any(x.startswith(k + ".") for x in keys) else {"OTHER": v})
            o["ZZ"] = v
            P.raw_op(op="reset")
            P.op("keys", root, sort_json(o))
            P.op("evaluate", root, sort_json(o))
            P.op("fingerprint", root, sort_json(o))
            ke.append((len(P.ops) - 3, len(P.ops) - 2))
            if all(ref_get(k, o)[0] == "found" for k in keys):
                expect[str(len(P.ops) - 3)] = sorted(keys)
        items.append((P.to_json(), {"ke": ke, "root": root, "hs": True, "expect_keys": expect}))
    return items


def c03_programs(rng, tier) -> List[Item]:
    items = corpus_items("C03")
    cfg = Cfg(raising=False, effects=True)
    items += gen_items(rng, cfg, sizes(tier, 250, 3000), hist_keys_eval)
    items += map_prefix_items(rng, sizes(tier, 48, 240))
    items += dataset_class_items(rng, sizes(tier, 30, 150))
    items += cached_namespace_items(rng, sizes(tier, 18, 90))
    items += function_slot_items(rng, sizes(tier, 24, 96))
    items += cached_dataset_class_items(rng, sizes(tier, 18, 90))
    items += coalesce_domain_items(rng, sizes(tier, 18, 72))
    items += section_inner_keys_items(rng, sizes(tier, 21, 63))
    return items


def c03_phase2(items, impl, model, rng, tier) -> List[Item]:
    out: List[Item] = []
    for (prog, meta), a in zip(items, impl):
        if not isinstance(a, list) or "ke" not in meta:
            continue
        root = meta["root"]
        p2 = copy.deepcopy(prog)
        p2["ops"] = _construction_ops(prog)
        checks = []
        for ki, ei in meta["ke"]:
            K = keyset(a[ki]) if ki < len(a) else None
            if K is None:
                continue
            o = prog["ops"][ki]["o"]
            ro = sort_json(ref_restrict(o, sorted(K)))
            base = len(p2["ops"])
            p2["ops"] += [{"op": "reset"}, {"op": "keys", "n": root, "o": o}, {"op": "evaluate", "n": root, "o": o},
                          {"op": "reset"}, {"op": "keys", "n": root, "o": ro}, {"op": "evaluate", "n": root, "o": ro},
                          {"op": "reset"}, {"op": "fingerprint", "n": root, "o": o}]
            chk = {"K": sorted(K), "o": o, "keys": base + 1, "eval": base + 2, "rkeys": base + 4, "reval": base + 5,
                   "fp": base + 7, "perturbed": [], "inside": []}
            # a change of the value under a reported key must change the fingerprint
            scal = [k for k in sorted(K) if ref_get(k, o)[0] == "found" and not isinstance(ref_get(k, o)[1], (dict, list))
                    and not any(sg.isdigit() for sg in k.split("."))]
            for k in rng.sample(scal, min(2, len(scal))):
                old_v = ref_get(k, o)[1]
                new_v = rng.choice([v for v in [0, 1, 2, 5, "x", "y", None] if not (v == old_v and type(v) == type(old_v))])
                o4 = copy.deepcopy(o)
                _put(o4, k, new_v)
                o4 = sort_json(o4)
                b4 = len(p2["ops"])
                p2["ops"] += [{"op": "reset"}, {"op": "keys", "n": root, "o": o4}, {"op": "fingerprint", "n": root, "o": o4}]
                chk["inside"].append({"keys": b4 + 1, "fp": b4 + 2, "key": k, "o": o4})
            # perturbations outside K must leave keys (hence the fingerprint) and the outcome unchanged
            outside = [k for k in o.keys() if k != "LABREA" and not any(x == k or x.startswith(k + ".") for x in K)]
            for _ in range(2):
                o3 = copy.deepcopy(o)
                mode = rng.choice(["add", "change", "delete"]) if outside else "add"
                if mode == "add":
                    fresh = next(f"NEW{i}" for i in range(100) if f"NEW{i}" not in o3)
                    o3[fresh] = rng.choice(SCALARS)
                elif mode == "change":
                    o3[rng.choice(outside)] = rng.choice(SCALARS)
                else:
                    o3.pop(rng.choice(outside), None)
                o3 = sort_json(o3)
                b3 = len(p2["ops"])
                p2["ops"] += [{"op": "reset"}, {"op": "keys", "n": root, "o": o3}, {"op": "evaluate", "n": root, "o": o3},
                              {"op": "reset"}, {"op": "fingerprint", "n": root, "o": o3}]
                chk["perturbed"].append({"keys": b3 + 1, "eval": b3 + 2, "fp": b3 + 4, "o": o3, "mode": mode})
            checks.append(chk)
        if checks:
            out.append((p2, dict({"c03": checks, "phase": 2}, **{k: True for k in ("classify_off", "no_model") if meta.get(k)})))
    return out


def c03_oracle(prog, meta, impl, model):
    out = []
    for ki, want in meta.get("expect_keys", {}).items():
        ki = int(ki)
        if ki < len(impl):
            K = keyset(impl[ki])
            if K is None or sorted(K) != want:
                out.append(("keys() is not exactly the set of present keys the node reads", ki,
                            {"expected": want, "got": impl[ki].get("r"), "options": prog["ops"][ki]["o"]}))
    # phase 1: every reported key is present
    for ki, ei in meta.get("ke", []):
        if ki >= len(impl):
            continue
        K = keyset(impl[ki])
        if K is None:
            continue
        o = prog["ops"][ki]["o"]
        for k in K:
            if ref_get(k, o)[0] != "found":
                out.append(("keys() reports a key that is not present in the options", ki, {"key": k, "options": o}))
    for chk in meta.get("c03", []):
        K = set(chk["K"])
        a_eval, r_keys, r_eval = impl[chk["eval"]], impl[chk["rkeys"]], impl[chk["reval"]]
        rk = keyset(r_keys)
        if rk is None or rk != K:
            out.append(("keys() on the options restricted to the reported keys differs", chk["rkeys"],
                        {"keys": sorted(K), "restricted_keys": r_keys.get("r")}))
        if not same_outcome_modulo_frames(a_eval, r_eval):
            out.append(("evaluating on the options restricted to keys() gives a different outcome", chk["reval"],
                        {"keys": sorted(K), "full": a_eval.get("r"), "restricted": r_eval.get("r")}))
        fp = impl[chk["fp"]] if "fp" in chk else None
        if fp is not None and is_ok(fp):
            expect = [{k: ref_get(k, chk["o"])[1]} for k in sorted(K)]
            if dumps(fp["r"][1]) != dumps(expect):
                out.append(("the fingerprint is not the sorted list of the reported keys with their values", chk["fp"],
                            {"keys": sorted(K), "fingerprint": fp["r"][1], "expected": expect}))
            for q in chk.get("inside", []):
                qk, qf = keyset(impl[q["keys"]]), impl[q["fp"]]
                if qk is not None and qk == K and is_ok(qf) and dumps(qf["r"][1]) == dumps(fp["r"][1]):
                    out.append(("the value under a reported key differs but the fingerprint is the same", q["fp"],
                                {"key": q["key"], "fingerprint": fp["r"][1], "options": q["o"]}))
        for p in chk["perturbed"]:
            pk = keyset(impl[p["keys"]])
            if pk is not None and pk == K and fp is not None and is_ok(fp) and "fp" in p and is_ok(impl[p["fp"]]) \
                    and dumps(impl[p["fp"]]["r"][1]) != dumps(fp["r"][1]):
                out.append(("dictionaries that agree on every reported key have different fingerprints", p["fp"],
                            {"keys": sorted(K), "a": fp["r"][1], "b": impl[p["fp"]]["r"][1]}))
            if pk is not None and pk == K:
                # same keys and (by construction) same values under them => same fingerprint => same outcome
                if not same_outcome_modulo_frames(a_eval, impl[p["eval"]]):
                    out.append(("options that agree on every reported key give a different outcome", p["eval"],
                                {"keys": sorted(K), "perturbation": p["mode"], "options": p["o"]}))
            elif pk is not None and p["mode"] == "add" and not any(n["k"] == "all" for n in prog["nodes"]):
                out.append(("adding a never-mentioned key changed keys()", p["keys"], {"keys": sorted(K), "now": sorted(pk)}))
    return out


def same_outcome_modulo_frames(a, b):
    if not (isinstance(a, dict) and isinstance(b, dict) and "r" in a and "r" in b):
        return True
    if a["r"][0] == "fuel" or b["r"][0] == "fuel":
        return True
    if a["r"][0] != b["r"][0]:
        return False
    if a["r"][0] == "ok":
        return dumps(a["r"][1]) == dumps(b["r"][1])
    return root_cause_key(a) == root_cause_key(b)


def effect_reads_program(prog):
    nodes = {n["id"]: n for n in prog.get("nodes", [])}
    for d in prog.get("dss", []):
        for e in d["effects"]:
            if nodes[e]["k"] != "value":
                return "F9"
    return None


def c03_classify(prog, meta, what):
    return [x for x in (effect_reads_program(prog), catch_unsafe_program(prog), brace_resubstitution_program(prog)) if x]


C03 = CoreProp("C03", ("keys", "eval", "reads"), c03_programs, c03_oracle, phase2=c03_phase2, classify=c03_classify,
               nontrivial=nontrivial_eval, hashseeds=("0", "1", "4242"),
               rule="keys()/evaluate on fresh graphs over dictionary families; phase 2 re-evaluates on the dictionary "
                    "restricted to the reported keys (independent restrict) and on add/change/delete perturbations outside "
                    "them; a quarter of the programs re-run under two further PYTHONHASHSEEDs; directed families: Maps whose "
                    "iterated key and read key are prefixes / sections of one another, dataset classes")


# ================================================================== C04

def c04_programs(rng, tier) -> List[Item]:
    items = corpus_items("C04")
    keys = ["A", "S.X", "S.U.V", "L.0", "L.1", "S", "S.U", "L", "T.X", "S.Q", "N.M", "L.5", "S.X.0"]
    values = [None, False, True, 0, 1, "", "x", [], {}, [0], {"X": 0}, "{A}", "p{B}q", "\\{A\\}", ["{A}", 1], {"X": "{B}"}]
    defaults = ["none", "const_falsy", "const", "template", "factory", "option", "dataset"]
    per = sizes(tier, 400, 4000)
    combos = [(k, v, d) for k in keys for v in values for d in defaults]
    rng.shuffle(combos)
    for chunk_start in range(0, min(len(combos), per), 8):
        P = Prog()
        meta = {"c04": []}
        for key, v, d in combos[chunk_start:chunk_start + 8]:
            dflt = None
            if d == "const_falsy":
                dflt = P.value(rng.choice([None, 0, False, [], {}]))
            elif d == "const":
                dflt = P.value(rng.choice([7, [1], {"Z": 1}, {"Z": [1], "Y": {"W": 2}}, [[1], {"a": []}]]))
            elif d == "template":
                dflt_text = rng.choice(["{B}", "d{A}", "plain", "", "\\{A\\}", "p\\{q\\}r", "\\{\\}{B}"])
                dflt = P.template(dflt_text)
            elif d == "factory":
                fv = P.fnvalue(P.const_fn(f"fac{len(P.nodes)}", rng.choice([0, "f", None])))
                dflt = P.funapp(fv, factory=True)
            elif d == "option":
                dflt = P.option("B", dflt=P.value(3) if rng.random() < 0.5 else None)
            elif d == "dataset":
                dflt = P.dataset([("b", P.option("B"))])
            dom = None
            domspec = None
            r = rng.random()
            if r < 0.15:
                domspec = [x for x in [None, False, 0, 1, "", "x", "7"] if rng.random() < 0.6]
                dom = P.value(domspec)
            elif r < 0.25:
                dom = P.fnvalue("truthy")
                domspec = "truthy"
            elif r < 0.40:
                dom = P.option("ALLOWED", dflt=P.value([None, False, 0, 1, "", "x", "a", "b", [], {}, [0], {"X": 0}]) if rng.random() < 0.6 else None)
                domspec = "ALLOWED"
            opt = P.option(key, dflt=dflt, dom=dom)
            for present in (True, False):
                o: Dict[str, Any] = {"B": rng.choice([0, "b", None, 2]), "A": rng.choice([1, "a", False])}
                if rng.random() < 0.8:
                    o["ALLOWED"] = [x for x in [None, False, 0, 1, "", "x", "a", "b"] if rng.random() < 0.7]
                if present:
                    _put(o, key, v)
                else:
                    _shape(o, key, rng)
                o = sort_json(o)
                P.evaluate(opt, o, **({"mutate_result": True} if d != "dataset" else {}))
                meta["c04"].append({"op": len(P.ops) - 1, "key": key, "dflt": d, "domain": domspec, "opt": opt,
                                    "dflt_text": dflt_text if d == "template" else None})
                if d != "dataset":
                    # what an Option yields is the caller's own: editing it in place changes nothing the Option yields later
                    P.evaluate(opt, o)
                    meta.setdefault("stable", []).append((len(P.ops) - 2, len(P.ops) - 1))
        # one long-lived Option whose domain is itself an option with a default: first without, then with ALLOWED
        allowed_default = [None, False, 0, 1, "", "x", "a", "b"]
        dom_opt = P.option("ALLOWED", dflt=P.value(allowed_default))
        seq_opt = P.option("A", dom=dom_opt)
        for v in rng.sample([None, False, 0, 1, "", "x", "a"], 3):
            o1 = sort_json({"A": v})
            narrowed = [x for x in allowed_default if not (x == v)]
            o2 = sort_json({"A": v, "ALLOWED": narrowed})
            for oo in (o1, o2, o1):
                P.evaluate(seq_opt, oo)
                meta["c04"].append({"op": len(P.ops) - 1, "key": "A", "dflt": "none", "domain": "ALLOWED", "opt": seq_opt})
        # Option.set: a new dictionary in which the Option evaluates to the value set, everything else intact,
        # the input unmodified (also when a second `set` follows on the same input)
        for key, v, _ in combos[chunk_start:chunk_start + 6]:
            if isinstance(v, dict) or any(seg.isdigit() for seg in key.split(".")):
                continue          # the statement is about non-mapping values; index segments: known finding F17
            base = {"B": rng.choice([0, "b"]), "S": {"X": 1, "Y": {"Z": 2}, "U": {"W": 3}}, "T": {"X": 9}, "N": {}, "A": 5}
            if rng.random() < 0.3:
                base = {"B": 1}
            P.raw_op(op="set_get", n=P.option(key), o=sort_json(base), v=v, v2="other")
            meta.setdefault("sets", []).append({"op": len(P.ops) - 1, "key": key, "value": v, "base": sort_json(base)})
        items.append((P.to_json(), meta))
    items += namespace_items(rng, sizes(tier, 40, 300))
    items += index_literal_items(rng, sizes(tier, 40, 160))
    items += helper_domain_items(rng, sizes(tier, 30, 90))
    return items


def helper_domain_items(rng, n) -> List[Item]:
    """`domain=F.one_of(...)` / `F.none_of(...)` (helpers of labrea.functions as domain predicates) over admissible items
    and values of every JSON kind — lists and sections, which are not hashable, included: a present in-domain value (and
    a default) is what the Option yields, an out-of-domain one is rejected as a domain violation"""
    items = []
    pools = [[1, "x", [2, 3], {"k": 1}, None], [[], {}, 0], ["a", "b"], [[1, [2]], {"a": {"b": []}}], [True, 2]]
    for i in range(n):
        P = Prog()
        allowed = copy.deepcopy(pools[i % len(pools)])
        neg = (i // len(pools)) % 2 == 1
        fnv = fn("isin", allowed)
        v = dict(fnv, lf="none_of" if neg else "one_of", lf_args=[enc_(a) for a in allowed]) if not neg else \
            {"$": "comp", "v": [fnv, fn("not")], "lf": "none_of", "lf_args": [enc_(a) for a in allowed]}
        dom = P._node("value", v=v)
        d = [None, P.value(copy.deepcopy(allowed[0])), P.value("zz")][i % 3]
        opt = P.option("A", dflt=d, dom=dom)
        root = opt if i % 2 else P.dataset([("a", opt)], cache=P.new_cache("nocache"))
        meta: Dict[str, Any] = {"c04": [], "helper_domain": []}
        for val in allowed + ["zz", [9], {"q": 1}, 7]:
            for o in ({"A": copy.deepcopy(val)}, {}):
                P.evaluate(root, sort_json(o))
                inside = any(_pyeq(val, a) for a in allowed)
                meta["helper_domain"].append({"op": len(P.ops) - 1, "present": "A" in o, "value": val, "ok": inside != neg,
                                              "dflt": None if d is None else P.node(d)["v"], "allowed": allowed, "neg": neg})
        items.append((P.to_json(), meta))
    return items


def enc_(v):
    from pylib import enc
    return enc(v)


def index_literal_items(rng, n) -> List[Item]:
    """Options whose key has segments that read as integer literals beyond plain digits (negative indices, a sign, an
    underscore, white space, a leading zero), on lists, strings and sections, present and absent, with and without a
    default: the value is what the independent lookup finds"""
    items = []
    keys = ["L.-1", "L.-2", "L.-3", "L.-4", "L.+1", "L.-0", "L.1_0", "L. 1", "L.01", "L.2.-1", "L.-1.0", "S.-1", "S.1", "X.-1", "X.0", "L.--1", "L.1_"]
    dicts = [{"L": ["a", "b", ["c", "e"]], "S": {"-1": "neg", "1": "one"}, "X": "str"}, {"L": ["only"], "S": {}, "X": ""}, {"L": []}, {}]
    for i in range(n):
        P = Prog()
        meta: Dict[str, Any] = {"c04": []}
        for key in rng.sample(keys, 4):
            d = [None, P.value("d"), P.value(None)][i % 3]
            opt = P.option(key, dflt=d)
            for o in dicts:
                P.evaluate(opt, sort_json(o))
                meta["c04"].append({"op": len(P.ops) - 1, "key": key, "dflt": "none" if d is None else "const", "domain": None, "opt": opt})
                P.op("keys", opt, sort_json(o))
                P.op("validate", opt, sort_json(o))
        items.append((P.to_json(), meta))
    return items


def _put(o, key, v):
    segs = key.split(".")
    cur = o
    for i, s in enumerate(segs[:-1]):
        nxt = segs[i + 1]
        if s.isdigit():
            return
        if nxt.isdigit():
            if not isinstance(cur.get(s), list):
                cur[s] = [None] * (int(nxt) + 1)
            cur = cur[s]
        else:
            if not isinstance(cur.get(s), dict):
                cur[s] = {}
            cur = cur[s]
    last = segs[-1]
    if isinstance(cur, list):
        if last.isdigit() and int(last) < len(cur):
            cur[int(last)] = v
    elif isinstance(cur, dict) and not last.isdigit():
        cur[last] = v


def _shape(o, key, rng):
    """make `key` absent, sometimes with a partially present path (sections only: no scalar prefixes)"""
    segs = key.split(".")
    if len(segs) > 1 and rng.random() < 0.6 and not segs[1].isdigit():
        o[segs[0]] = {"OTHER": 1}
    elif len(segs) > 1 and segs[1].isdigit() and rng.random() < 0.5:
        o[segs[0]] = []


def ref_has_template(v) -> bool:
    if isinstance(v, str):
        return "{" in v
    if isinstance(v, list):
        return any(ref_has_template(x) for x in v)
    if isinstance(v, dict):
        return any(ref_has_template(x) for x in v.values())
    return False


def c04_oracle(prog, meta, impl, model):
    out = []
    for i, j in meta.get("stable", []):
        a, b = impl[i], impl[j]
        if "r" in a and "r" in b and dumps(a["r"]) != dumps(b["r"]):
            out.append(("after the caller edited a yielded value in place, the Option yields something else for the same options", j,
                        {"options": prog["ops"][j]["o"], "first": a["r"], "then": b["r"]}))
    for c in meta.get("sets", []):
        a = impl[c["op"]] if c["op"] < len(impl) else None
        if a is None or "r" not in a:
            continue
        if ref_get(c["key"], c["base"])[0] == "type" or _scalar_on_path(c["key"], c["base"]):
            continue      # assigning below a scalar: F10 territory
        if not is_ok(a) and ref_has_template(c["value"]):
            continue      # the value set is itself a template (possibly dangling in this dictionary)
        if not is_ok(a):
            out.append(("Option.set / evaluation on its result failed", c["op"], {"key": c["key"], "value": c["value"],
                                                                               "base": c["base"], "got": a["r"]}))
            continue
        new, got, after, stable = a["r"][1]
        if ref_has_template(c["value"]):
            pass
        elif dumps(got) != dumps(c["value"]):
            out.append(("after Option.set the Option does not evaluate to the value set", c["op"],
                        {"key": c["key"], "value": c["value"], "got": got, "new": new}))
        if dumps(after) != dumps(c["base"]):
            out.append(("Option.set modified its input dictionary", c["op"], {"key": c["key"], "before": c["base"], "after": after}))
        if stable is not True:
            out.append(("a later Option.set on the same input changed an earlier result (shared sections)", c["op"],
                        {"key": c["key"]}))
        # all other keys intact
        for other in ("B", "A", "T.X", "S.Y.Z", "S.U.W", "S.X"):
            if other == c["key"] or other.startswith(c["key"] + ".") or c["key"].startswith(other + "."):
                continue
            g0, g1 = ref_get(other, c["base"]), ref_get(other, new)
            if g0[0] == "found" and (g1[0] != "found" or dumps(g0[1]) != dumps(g1[1])):
                out.append(("Option.set lost or changed another key", c["op"], {"key": c["key"], "other": other, "new": new}))
    for c in meta.get("helper_domain", []):
        a = impl[c["op"]] if c["op"] < len(impl) else None
        if not isinstance(a, dict) or "r" not in a:
            continue
        if c["present"]:
            val, ok = c["value"], c["ok"]
        elif c["dflt"] is not None:
            val = c["dflt"]
            ok = any(_pyeq(val, x) for x in c["allowed"]) != c["neg"]
        else:
            continue
        got = a["r"][1] if is_ok(a) else None
        if isinstance(got, dict) and got.get("$") == "app":
            got = dict(got.get("k", [])).get("a")
        if ok and not (is_ok(a) and dumps(got) == dumps(val)):
            out.append(("a value inside the declared domain (a labrea.functions helper) was not what the Option yields", c["op"],
                        {"value": val, "allowed": c["allowed"], "negated": c["neg"], "got": a["r"]}))
        if not ok and not (is_err(a) and a["r"][1][-1][0] == "ValueError"):
            out.append(("a value outside the declared domain was not rejected as a domain violation", c["op"],
                        {"value": val, "allowed": c["allowed"], "negated": c["neg"], "got": a["r"]}))
    for c in meta.get("c04", []):
        i = c["op"]
        if i >= len(impl) or "r" not in impl[i]:
            continue
        o = prog["ops"][i]["o"]
        g = ref_get(c["key"], o)
        a = impl[i]
        if g[0] == "type":
            continue   # F10 territory: scalar prefix (not generated in the main sweep)
        dom_ok = None
        if g[0] == "found":
            v = g[1]
            if ref_has_template(v):
                # templated strings (also inside sections and lists) are resolved against the same options
                try:
                    want = ref_resolve_value(v, o, {}, set())
                except KeyError:
                    want = _SKIP
                    if is_ok(a):
                        out.append(("a present value with a dangling reference was returned instead of a missing-key error", i,
                                    {"key": c["key"], "stored": v, "got": a["r"], "options": o}))
                except (ValueError, RecursionError, TypeError):
                    want = _SKIP
                if want is not _SKIP and c["domain"] is None:
                    if not is_ok(a) or dumps(a["r"][1]) != dumps(want):
                        out.append(("a present templated value was not resolved against the options", i,
                                    {"key": c["key"], "stored": v, "expected": want, "got": a["r"], "options": o}))
            else:
                if is_ok(a):
                    if dumps(a["r"][1]) != dumps(_enc_plain(v)):
                        out.append(("a present option value is not what the Option yields", i,
                                    {"key": c["key"], "stored": v, "got": a["r"], "options": o}))
                    elif c["domain"] is not None and _dom_rejects(c["domain"], v, o):
                        out.append(("a value outside the declared domain was returned", i, {"key": c["key"], "value": v}))
                else:
                    if c["domain"] is None or not _dom_may_reject(c["domain"], v, o):
                        out.append(("a present option (possibly falsy) did not yield its stored value", i,
                                    {"key": c["key"], "stored": v, "got": a["r"], "options": o}))
        else:
            if c["dflt"] == "none":
                k = missing_option(a)
                if not (is_err(a) and k == c["key"]):
                    out.append(("an absent option without default did not fail with a missing-key error naming it", i,
                                {"key": c["key"], "got": a.get("r")}))
            elif c["dflt"] == "template" and c.get("dflt_text") is not None and c["domain"] is None:
                # a string default is a template: resolved against the same options exactly as a stored string is
                try:
                    want = ref_subst(c["dflt_text"], o, {}, set())
                    if not isinstance(want, str):
                        want = str(want)        # a Template evaluates to text
                except KeyError:
                    want = _SKIP
                    if is_ok(a):
                        out.append(("a templated default with a dangling reference yielded a value", i, {"default": c["dflt_text"], "got": a["r"]}))
                except (ValueError, RecursionError, TypeError):
                    want = _SKIP
                if want is not _SKIP and (not is_ok(a) or dumps(a["r"][1]) != dumps(want)):
                    out.append(("an absent option did not yield its (templated) default resolved against the options", i,
                                {"key": c["key"], "default": c["dflt_text"], "expected": want, "got": a["r"], "options": o}))
    return out


def _scalar_on_path(key, o):
    segs = key.split(".")
    cur = o
    for sg in segs[:-1]:
        if not isinstance(cur, dict):
            return True
        if sg not in cur:
            return False
        cur = cur[sg]
    return not isinstance(cur, dict)


def _enc_plain(v):
    return v


def _dom_rejects(dom, v, o):
    if dom == "truthy":
        return not bool(v)
    if dom == "ALLOWED":
        al = o.get("ALLOWED", [None, False, 0, 1, "", "x", "a", "b", [], {}, [0], {"X": 0}])
        return isinstance(al, list) and not any(_pyeq(v, x) for x in al)
    if isinstance(dom, list):
        return not any(_pyeq(v, x) for x in dom)
    return False


def _dom_may_reject(dom, v, o):
    if dom == "ALLOWED" and "ALLOWED" not in o:
        return True      # the domain option may have no default
    return _dom_rejects(dom, v, o)


def _pyeq(a, b):
    try:
        return a == b
    except Exception:
        return False


def namespace_items(rng, n) -> List[Item]:
    """a namespace (declared through Option.namespace: annotations, plain defaults, explicit Options,
    implicit and explicitly named sub-namespaces, up to 3 levels) behaves like the fully-qualified Options"""
    items = []
    for _ in range(n):
        P = Prog()
        plain: List[Tuple[str, int]] = []      # (dotted key, fully-qualified twin option)

        def build_ns(key, depth):
            members = []
            for nm in rng.sample(["A", "B", "C", "D", "_H"], rng.randint(1, 3)):
                dflt_v = rng.choice([None, "none", "none", 0, "t{X}", [1], 5])
                mk = lambda: (None if dflt_v == "none" else (P.template(dflt_v) if isinstance(dflt_v, str) else P.value(dflt_v)))
                with_dom = rng.random() < 0.3
                style = "annot" if dflt_v == "none" and not with_dom and rng.random() < 0.5 else \
                    ("plain" if dflt_v != "none" and not with_dom and rng.random() < 0.5 else "option")
                if nm.startswith("_") and style == "plain":
                    style = "option"      # a plain (un-annotated, non-Option) underscore attribute is private, not a member
                dom = P.value([0, 1, None, "a", [1], 5, "t1"]) if with_dom else None
                dom2 = P.value([0, 1, None, "a", [1], 5, "t1"]) if with_dom else None
                if style == "option" and rng.random() < 0.35:
                    # `NAME = Option.auto(default=…, domain=…)`: the key is inferred from the (possibly nested, possibly
                    # explicitly named) namespace; the Option is rebuilt at every access, so its node is anonymous
                    d_auto = None if dflt_v == "none" else (P._node("template", t=dflt_v, params=[], h=1) if isinstance(dflt_v, str)
                                                            else P.value(dflt_v, hidden=True))
                    dom_auto = P.value([0, 1, None, "a", [1], 5, "t1"], hidden=True) if with_dom else None
                    members.append((nm, P.option(f"{key}.{nm}", dflt=d_auto, dom=dom_auto, nsmember=1, style="auto", h=1)))
                    plain.append((f"{key}.{nm}", P.option(f"{key}.{nm}", dflt=mk(), dom=dom2)))
                    continue
                members.append((nm, P.option(f"{key}.{nm}", dflt=mk(), dom=dom, nsmember=1, style=style)))
                plain.append((f"{key}.{nm}", P.option(f"{key}.{nm}", dflt=mk(), dom=dom2)))
            # Option.namespace collects annotated members first, then the class attributes in order
            members.sort(key=lambda m: 0 if P.node(m[1]).get("style") == "annot" else 1)
            if depth < 3 and rng.random() < 0.6:
                sub_name = rng.choice(["SUB", "DB", "X1"])
                sub = build_ns(f"{key}.{sub_name}", depth + 1)
                P.node(sub)["explicit"] = rng.random() < 0.5
                P.node(sub)["nsmember"] = 1
                members.append((sub_name, sub))
            return P.namespace(key, members, via="decorator")

        ns = build_ns("NS", 1)
        meta = {"ns": []}
        for _ in range(4):
            o: Dict[str, Any] = {"X": rng.choice([1, "x"])}
            for key, _n in plain:
                if rng.random() < 0.65:
                    _put(o, key, rng.choice([0, 1, None, "a", "", [1], "{X}", 5]))
            o = sort_json(o)
            P.evaluate(ns, o)
            rec = {"ns": len(P.ops) - 1, "members": []}
            for key, pn in plain:
                P.evaluate(pn, o)
                rec["members"].append((key, len(P.ops) - 1))
            meta["ns"].append(rec)
        items.append((P.to_json(), meta))
    return items


def c04_ns_oracle(prog, meta, impl, model):
    out = []
    for rec in meta.get("ns", []):
        a = impl[rec["ns"]]
        mem = [(nm, impl[i]) for nm, i in rec["members"]]
        if all(is_ok(m) for _, m in mem):
            exp: Dict[str, Any] = {}
            for key, m in mem:
                cur = exp
                segs = key.split(".")[1:]
                for sgm in segs[:-1]:
                    cur = cur.setdefault(sgm, {})
                cur[segs[-1]] = m["r"][1]
            if not is_ok(a) or dumps(a["r"][1]) != dumps(exp):
                out.append(("a namespace does not evaluate like its fully-qualified Options", rec["ns"],
                            {"namespace": a.get("r"), "members": exp}))
        elif is_ok(a):
            out.append(("a namespace evaluated although one of its fully-qualified Options fails", rec["ns"],
                        {"namespace": a.get("r")}))
    return out


def c04_full_oracle(prog, meta, impl, model):
    return c04_oracle(prog, meta, impl, model) + c04_ns_oracle(prog, meta, impl, model)


C04 = CoreProp("C04", ("eval", "mut", "reads"), c04_programs, c04_full_oracle, nontrivial=lambda p, i: True,
               layer0=('getDotted', 'setDotted', 'pyStr', 'pyEq'), rule="key universe (flat, dotted, list-indexed, prefixes of one another) x value universe (every falsy "
                    "value, containers, templated strings) x default forms x domains, each with the key present and "
                    "absent; independent dotted lookup as oracle; namespaces against fully-qualified Options")


# ================================================================== C06

def c06_namespace_items(rng, n) -> List[Item]:
    """declaring a namespace (class statement + decorator, documentation included) runs no dataset body, also when a
    member's default is a dataset that could be evaluated without any option; the default's body runs only when the
    member's key is absent and the namespace is evaluated"""
    items = []
    for _ in range(n):
        P = Prog()
        d1 = P.dataset([("b", P.option("B", dflt=P.value(1)))] if rng.random() < 0.7 else [])
        members = [("A", P.option("NS.A", dflt=d1, nsmember=1, style="option")),
                   ("C", P.option("NS.C", dflt=P.value(0), nsmember=1, style="option"))]
        if rng.random() < 0.5:
            d2 = P.dataset([])
            sub = P.namespace("NS.SUB", [("D", P.option("NS.SUB.D", dflt=d2, nsmember=1, style="option"))], via="decorator")
            P.node(sub)["explicit"] = rng.random() < 0.5
            P.node(sub)["nsmember"] = 1
            members.append(("SUB", sub))
        ns = P.namespace("NS", members, via="decorator")
        for o in [{"NS": {"A": 5, "SUB": {"D": 6}}}, {}, {"NS": {"C": 2}}, {"NS": {"A": None}}]:
            P.evaluate(ns, o)
        items.append((P.to_json(), {}))
    return items


def c06_derive_items(rng, n) -> List[Item]:
    """`with_options` / `with_default_options` / `register` / `add_effects` are construction steps: none of them runs
    a dataset body, also when the dataset's dispatch, default or an overload is itself a dataset that the pre-set
    options would suffice to evaluate"""
    items = []
    for _ in range(n):
        P = Prog()
        P.const_fn("sel", "x")
        disp = P.dataset([("m", P.option("M", dflt=P.value("x")))], fn_name="sel")
        impl = P.dataset([("b", P.option("B", dflt=P.value(2)))])
        root = P.dataset([("a", P.option("A", dflt=P.value(1)))], dispatch=disp, table=[("x", impl)])
        members = [root]
        for _ in range(rng.randint(1, 3)):
            members.append(P.derive(rng.choice(members), rng.choice([{"M": "x"}, {"A": 3, "B": 4}, {"M": "y", "A": 0}]),
                                    default=rng.random() < 0.4))
        for m in members:
            P.evaluate(m, {})
            P.evaluate(m, {"M": "y"})
        items.append((P.to_json(), {}))
    return items


DSC_NAMES = ["a", "b", "_rate", "_h", "Z", "c", "B", "_", "a1"]


def dataset_class(P: Prog, rng, name: str, n_members: int, bases=(), override=(), keys=None, kinds=("option", "dataset", "value")):
    """one dataset class: members over DSC_NAMES (single-underscore and upper-case names included) that are options on
    distinct keys, datasets, constants (annotated), possibly redefining members of its bases"""
    keys = keys if keys is not None else []
    names = list(override) + [x for x in rng.sample(DSC_NAMES, len(DSC_NAMES)) if x not in override][:n_members]
    members, annotated = [], []
    for nm in names:
        kind = rng.choice(kinds)
        key = f"{name.upper()}.{nm.strip('_').upper() or 'U'}{len(keys)}"
        if kind == "option":
            keys.append(key)
            members.append((nm, P.option(key, dflt=P.value(0) if rng.random() < 0.25 else None)))
        elif kind == "dataset":
            keys.append(key)
            members.append((nm, P.dataset([("v", P.option(key))], cache=P.new_cache(rng.choice(["memory", "nocache"])))))
        else:
            members.append((nm, P.value(rng.choice([1, "c", None, [1]]))))
            annotated.append(nm)
    return P.dsclass(name, members, bases=bases, annotated=annotated)


def dataset_class_items(rng, n) -> List[Item]:
    """dataset classes — plain, derived from another dataset class (adding members, REDEFINING members, both), nested as
    a member of another dataset class, as an argument of a dataset: instantiation evaluates exactly the members that
    are in effect (a redefined member's base definition is not selected and does not run), once each, in `dir()` order;
    explain / keys / validate cover exactly those members, underscore-named ones included"""
    items = []
    for i in range(n):
        P = Prog()
        keys: List[str] = []
        base = dataset_class(P, rng, "Base", rng.randint(2, 3), keys=keys)
        shape = i % 5
        if shape == 0:
            root = base
        elif shape in (1, 2):
            bnames = [m[0] for m in P.node(base)["dsclass"]["members"]]
            over = rng.sample(bnames, rng.randint(1, len(bnames))) if shape == 1 else []
            root = dataset_class(P, rng, "Sub", rng.randint(0 if over else 1, 2), bases=[base], override=over, keys=keys,
                                 kinds=("option", "dataset"))
            if rng.random() < 0.3:
                bn = [m[0] for m in P.node(root)["dsclass"]["effective"]]
                root = dataset_class(P, rng, "SubSub", 1, bases=[root], override=rng.sample(bn, 1), keys=keys, kinds=("option", "dataset"))
        elif shape == 3:
            outer_members = [("inner", base), ("q", P.option("OUTER.Q"))]
            keys.append("OUTER.Q")
            root = P.dsclass("Outer", outer_members)
        else:
            root = P.dataset([("rec", base), ("w", P.option("W", dflt=P.value(1)))])
        full: Dict[str, Any] = {}
        for k in keys:
            _put(full, k, rng.choice([1, 2, "v"]))
        order = list(keys)
        rng.shuffle(order)
        subs: List[Dict[str, Any]] = [{}]
        cur: Dict[str, Any] = {}
        for k in order:
            _put(cur, k, ref_get(k, full)[1])
            subs.append(copy.deepcopy(cur))
        recs, agree, ke = [], [], []
        for o in [subs[-1]] + subs[:5] + [subs[-1]]:
            P.raw_op(op="reset")
            b = len(P.ops)
            for op in ("validate", "keys", "explain", "evaluate", "validate", "keys", "evaluate"):
                P.op(op, root, sort_json(o))
            recs.append({"x": b + 2, "k": b + 1, "v": b})
            agree.append({"v": b, "k": b + 1, "x": b + 2, "e": b + 3, "wv": b + 4, "wk": b + 5, "we": b + 6})
            ke.append((b + 1, b + 3))
        items.append((P.to_json(), {"explain": recs, "agree": agree, "ke": ke, "root": root}))
    return items


def dispatch_domain_items(rng, n) -> List[Item]:
    """a dispatch Option that declares a `domain=` which is itself a dataset (or an expression over datasets) that could
    be evaluated without any option: building the dataset, registering implementations (`register`, overload tables),
    deriving it and adding effects run no body; the domain's body runs when the dispatch is evaluated"""
    items = []
    for i in range(n):
        P = Prog()
        P.const_fn(f"allowed{i}", ["x", "y", 1])
        dom = P.dataset([("m", P.option("M", dflt=P.value(0)))] if i % 2 else [], fn_name=f"allowed{i}",
                        cache=P.new_cache(rng.choice(["memory", "nocache"])))
        if i % 3 == 2:
            dom = P.apply(dom, P.fnvalue("ident"))
        disp = P.option("K", dom=dom, dflt=P.value("x") if i % 4 == 1 else None)
        impls = [P.dataset([("a", P.option("A", dflt=P.value(j)))]) for j in range(3)]
        root = P.dataset([("a", P.option("A", dflt=P.value(9)))], dispatch=disp, table=[("x", impls[0])], abstract=(i % 5 == 4))
        P.register(root, "y", impls[1])
        P.register(root, "zz", impls[2])            # (a key outside the domain: legal, just never selected)
        members = [root]
        if rng.random() < 0.5:
            members.append(P.derive(root, {"A": 3}, default=rng.random() < 0.5))
        P.raw_op(op="add_effect", ds=P.ds_of(root), n=P.fnvalue(P.free(f"eff{i}")))
        for m in members:
            for o in [{"K": "x"}, {"K": "y", "A": 1}, {"K": "zz"}, {}, {"K": 1}]:
                P.evaluate(m, o)
        items.append((P.to_json(), {}))
    return items


def lazy_map_items(rng, n) -> List[Item]:
    """a `Map` (also `.values`-style consumers) produces its pairs lazily: asking for none of them, or for the first k,
    runs the mapped body exactly that many times, in order — never the bodies of pairs nobody asked for.  (Oracle only:
    the model's Map is the full list.)"""
    items = []
    for i in range(n):
        P = Prog()
        d = P.dataset([("a", P.option("A")), ("b", P.option("B", dflt=P.value(0)))], cache=P.new_cache("nocache"))
        body = P.node(P.node(P.ovs[-1]["dflt"])["f"])["v"]["f"]
        its = [("A", P.value([1, 2, 3, 4]))] if i % 2 == 0 else [("A", P.value([1, 2])), ("B", P.option("BS", dflt=P.value([5, 6])))]
        m = P.map(d, its)
        recs = []
        for take in (0, 1, 2, 3):
            P.evaluate(m, {"Z": take}, take=take)
            recs.append({"op": len(P.ops) - 1, "body": body, "runs": take})
        items.append((P.to_json(), {"lazy": recs, "no_model": True}))
    return items


def c06_programs(rng, tier) -> List[Item]:
    items = corpus_items("C06")
    items += c06_namespace_items(rng, sizes(tier, 15, 100))
    items += c06_derive_items(rng, sizes(tier, 15, 100))
    cfg = Cfg(raising=False, catch_unsafe=True)
    items += gen_items(rng, cfg, sizes(tier, 300, 4000), hist_all_ops, ops=("evaluate",))
    items += dataset_class_items(rng, sizes(tier, 40, 200))
    items += dispatch_domain_items(rng, sizes(tier, 20, 100))
    items += interface_items(rng, sizes(tier, 12, 60))
    items += lazy_map_items(rng, sizes(tier, 8, 24))
    return items


def c06_oracle(prog, meta, impl, model):
    out = []
    for rec in meta.get("lazy", []):
        a = impl[rec["op"]] if rec["op"] < len(impl) else None
        if is_ok(a):
            runs = sum(1 for c in a.get("calls", []) if c[0] == rec["body"])
            if runs != rec["runs"]:
                out.append(("a Map ran the bodies of pairs nobody asked for (or not those asked for)", rec["op"],
                            {"asked_for": rec["runs"], "body_runs": runs}))
    if meta.get("no_model"):
        return out
    for i, (op, a) in enumerate(zip(prog["ops"], impl)):
        if isinstance(a, dict) and "r" not in a and a.get("calls"):
            out.append((f"the construction step `{op['op']}` ran user code", i, {"calls": a["calls"][:5]}))
    if impl and isinstance(impl[0], dict) and impl[0].get("construction_calls"):
        out.append(("building the graph ran user code", 0, {"calls": impl[0]["construction_calls"][:5]}))
    if not isinstance(model, list):
        return out
    from pylib import canon_model_value
    for i, (op, a, b) in enumerate(zip(prog["ops"], impl, model)):
        if op["op"] != "evaluate" or "calls" not in a or not isinstance(b, dict) or "calls" not in b:
            continue
        if a["r"][0] == "fuel" or b["r"][0] == "fuel":
            continue
        ca = [dumps(c) for c in a["calls"]]
        cb = [dumps([c[0], canon_model_value(c[1]), canon_model_value(c[2])]) for c in b["calls"] if not c[0].startswith("lib:")]
        if ca != cb:
            extra = [c for c in ca if c not in cb]
            what = ("a body that is not on the selected path ran" if extra else
                    "user code ran in a different order / number than the lazy reference semantics prescribes")
            out.append((what, i, {"impl_calls": a["calls"][:12], "reference_calls": b["calls"][:12]}))
    return out


C06 = CoreProp("C06", ("trace", "construct"), c06_programs, c06_oracle, nontrivial=nontrivial_eval,
               rule="random graphs whose every user callable logs its execution; construction log must be empty, "
                    "evaluation log must equal the reference semantics' ordered trace; directed families: namespaces with dataset "
                    "defaults, construction steps, dataset classes that redefine inherited members")


# ================================================================== C08

def hist_overlay(rng, cfg, g: G, meta, n_dicts=4):
    P = g.P
    checks = []
    inner = g.expr("any", rng.randint(1, 3))
    depth = rng.randint(1, 3)
    layers = []
    node = inner
    for _ in range(depth):
        p = g.preset()
        force = rng.random() < 0.6
        node = P.with_options(node, p, force=force)
        layers.append((p, force))
    # dataset form: same body with and without options / default_options
    params = [(n, g.expr("scalar", 1)) for n in rng.sample(["a", "b", "c"], rng.randint(1, 2))]
    popt, pdef = g.preset(), g.preset()
    name = g.fresh_fn("f")
    kw = {}
    if rng.random() < 0.4:
        kw["callback"] = g.fn_node()
    d_plain = P.dataset(params, fn_name=name, cache=P.new_cache("nocache"), **kw)
    d_opts = P.dataset(params, fn_name=name, options=popt, default_options=pdef, **kw)
    fam = dict_family(rng, cfg, n_dicts)
    fam2 = []
    for o in fam:
        fam2.append(o)
        tw = _bool_int_twin(o, rng)
        if tw is not None:
            fam2.append(tw)     # `==`-equal to the previous dictionary, yet a different one (True vs 1)
    fam = fam2
    for o in fam:
        mixed = o
        for p, force in reversed(layers):
            mixed = ref_mix(mixed, p) if force else ref_mix(p, mixed)
        for op in ("evaluate", "validate"):
            P.op(op, node, o)
            P.op(op, inner, sort_json(mixed))
            checks.append((len(P.ops) - 2, len(P.ops) - 1, "wrapper"))
        m2 = ref_mix(ref_mix(pdef, o), popt)
        P.evaluate(d_opts, o)
        P.evaluate(d_plain, sort_json(m2))
        checks.append((len(P.ops) - 2, len(P.ops) - 1, "dataset options/default_options"))
    # with_options / with_default_options methods
    extra = g.preset()
    new_ds = len(P.dss) + 1
    new_node = P._node("dataset", ds=new_ds)
    dflt = rng.random() < 0.5
    P.ops.insert(0, {"op": "with_options", "ds": P.ds_of(d_opts), "new": new_ds, "p": sort_json(extra), "default": dflt,
                     "node": new_node, "msg": "<derived>"})
    P.dss.append(dict(copy.deepcopy(P.dss[P.ds_of(d_opts) - 1]), id=new_ds, lazy=True))
    P.nodes[-1]["lazy"] = True
    checks = [(i + 1, j + 1, k) for i, j, k in checks]
    for o in fam[:3]:
        m3 = ref_mix(ref_mix(ref_mix(pdef, extra) if dflt else pdef, o), ref_mix(popt, extra) if not dflt else popt)
        P.evaluate(new_node, o)
        P.evaluate(d_plain, sort_json(m3))
        checks.append((len(P.ops) - 2, len(P.ops) - 1, "with_default_options method" if dflt else "with_options method"))
    meta["overlay"] = checks


def _bool_int_twin(o, rng):
    """a dictionary that compares equal to `o` under Python == but differs in a bool/int value"""
    o2 = copy.deepcopy(o)
    swap = {True: 1, 1: True, False: 0, 0: False}
    cands = [k for k, v in o2.items() if isinstance(v, (bool, int)) and v in (0, 1)]
    if not cands:
        return None
    k = rng.choice(cands)
    v = o2[k]
    o2[k] = (1 if v is True else 0 if v is False else True if v == 1 else False)
    return sort_json(o2)


def derived_family_items(rng, n) -> List[Item]:
    """chains and siblings of `with_options` / `with_default_options` on a dataset that already has pre-set and default
    options, all touching the same sections with different keys; every member is compared, on the same caller
    dictionaries and in one history (shared caches), with the plain dataset under the independently computed overlay"""
    items = []
    SECT = ["S.X", "S.Y", "S.U.V", "T.X", "A", "B"]
    for _ in range(n):
        P = Prog()
        keys = rng.sample(SECT, rng.randint(2, 4))
        params = [(f"p{i}", P.option(k, dflt=P.value(0) if rng.random() < 0.5 else None)) for i, k in enumerate(keys)]

        def small():
            d: Dict[str, Any] = {}
            for k in rng.sample(SECT, rng.randint(1, 2)):
                _put(d, k, rng.choice([1, 2, 3, "v"]))
            return d
        popt, pdef = (small() if rng.random() < 0.7 else {}), (small() if rng.random() < 0.7 else {})
        name = f"fam{rng.randint(0, 10**6)}"
        d_plain = P.dataset(params, fn_name=name, cache=P.new_cache("nocache"))
        base = P.dataset(params, fn_name=name, options=popt, default_options=pdef)
        members = [(base, popt, pdef)]
        for _ in range(rng.randint(2, 4)):
            src, po, pd = rng.choice(members)
            extra = small()
            if rng.random() < 0.5:
                members.append((P.derive(src, extra, default=True), po, ref_mix(pd, extra)))
            else:
                members.append((P.derive(src, extra, default=False), ref_mix(po, extra), pd))
        checks = []
        for _ in range(3):
            o = small() if rng.random() < 0.8 else {}
            for node, po, pd in members:
                P.evaluate(node, sort_json(o))
                P.evaluate(d_plain, sort_json(ref_mix(ref_mix(pd, o), po)))
                checks.append((len(P.ops) - 2, len(P.ops) - 1, "derived dataset (with_options / with_default_options chain)"))
        items.append((P.to_json(), {"overlay": checks}))
    return items


def mutating_body_items(rng, n) -> List[Item]:
    """bodies that edit their arguments in place: what an Option hands out — from the caller's dictionary, from
    pre-set or from default options, containers nested in containers included — is the body's own copy, so neither
    the caller's dictionary nor the pre-set / default dictionaries change, and a second evaluation sees what the
    first one saw"""
    items = []
    VALS = [[[1, 2], [3, 4]], [{"lo": 0}], {"a": [1], "b": {"c": [2]}}, [1, [2, [3]]], {"k": {"m": {}}}, [[], [[]]]]
    for _ in range(n):
        P = Prog()
        keys = rng.sample(["A", "S.X", "T.X", "B"], rng.randint(1, 3))
        params = [(f"p{i}", P.option(k)) for i, k in enumerate(keys)]
        fname = P.free(f"mut{rng.randint(0, 10**6)}", mutates=True)
        preset: Dict[str, Any] = {}
        dflt: Dict[str, Any] = {}
        o: Dict[str, Any] = {}
        for k in keys:
            _put(rng.choice([preset, dflt, o, o]), k, copy.deepcopy(rng.choice(VALS)))
        for k in keys:          # every key is available from somewhere
            if all(ref_get(k, d)[0] != "found" for d in (preset, dflt, o)):
                _put(o, k, copy.deepcopy(rng.choice(VALS)))
        kw: Dict[str, Any] = {"cache": P.new_cache("nocache")}
        if preset:
            kw["options"] = preset
        if dflt:
            kw["default_options"] = dflt
        d = P.dataset(params, fn_name=fname, **kw)
        root = d if rng.random() < 0.6 else P.with_options(P.apply(P.option(keys[0]), P.fnvalue(fname)), preset or {"Z": 1})
        checks = []
        P.evaluate(root, sort_json(o))
        P.evaluate(root, sort_json(o))
        checks.append((len(P.ops) - 2, len(P.ops) - 1, "second evaluation after a body edited its arguments in place"))
        items.append((P.to_json(), {"overlay": checks}))
    return items


def all_options_mutation_items(rng, n) -> List[Item]:
    """`AllOptions` consumed by code that edits what it receives (a body, `AllOptions >> f`, the caller editing the
    result) — directly, under pre-set / default options of a wrapper or a dataset, through `with_options`: what it hands
    out is never the caller's dictionary, nor part of a pre-set / default dictionary (dicts inside lists included), with
    and without templated strings among the values"""
    items = []
    VALS = [{"L": [{"a": 1}, {"b": [2]}], "S": {"X": [1]}}, {"L": [[{"deep": 1}]], "A": 1}, {"S": {"U": {"V": [1, {"w": 2}]}}},
            {"L": [{"a": 1}], "T": "{A}", "A": 5}]
    for i in range(n):
        P = Prog()
        fname = P.free(f"tidy{i}", mutates=True)
        o = copy.deepcopy(VALS[i % len(VALS)])
        preset = copy.deepcopy(rng.choice([{"P": [{"k": 1}]}, {"S": {"Y": [{"z": 1}]}}, {"L": [{"p": 0}]}]))
        shape = (i // len(VALS)) % 5
        allo = P.all_options()
        if shape == 0:
            root = P.apply(allo, P.fnvalue(fname))
        elif shape == 1:
            root = P.dataset([("o", allo)], fn_name=fname, cache=P.new_cache("nocache"))
        elif shape == 2:
            root = P.with_options(P.apply(allo, P.fnvalue(fname)), preset, force=rng.random() < 0.5)
        elif shape == 3:
            root = P.dataset([("o", allo)], fn_name=fname, cache=P.new_cache("nocache"),
                             **({"options": preset} if rng.random() < 0.5 else {"default_options": preset}))
        else:
            d = P.dataset([("o", allo)], fn_name=fname, cache=P.new_cache("nocache"))
            root = P.derive(d, preset, default=rng.random() < 0.5)
        checks = []
        P.evaluate(root, sort_json(o))
        P.evaluate(root, sort_json(o))
        checks.append((len(P.ops) - 2, len(P.ops) - 1, "second evaluation after a consumer of AllOptions edited what it received"))
        P.evaluate(root if shape else allo, sort_json(o), mutate_result=True)
        P.evaluate(root if shape else allo, sort_json(o))
        items.append((P.to_json(), {"overlay": checks}))
    return items


def c08_programs(rng, tier) -> List[Item]:
    items = corpus_items("C08")
    items += mutating_body_items(rng, sizes(tier, 40, 300))
    cfg = Cfg(raising=False, all_options=True)
    items += gen_items(rng, cfg, sizes(tier, 250, 3000), hist_overlay)
    items += derived_family_items(rng, sizes(tier, 60, 600))
    items += section_inner_items(rng, sizes(tier, 32, 160))
    items += all_options_mutation_items(rng, sizes(tier, 20, 100))
    items += reused_dict_wrapper_items(rng, sizes(tier, 32, 96))
    return items


def c08_oracle(prog, meta, impl, model):
    out = fresh_pairs_oracle(prog, meta, impl)
    for i, j, what in meta.get("overlay", []):
        if i >= len(impl) or j >= len(impl):
            continue
        if not same_value_or_both_fail(impl[i], impl[j]):
            out.append((f"{what}: evaluating under o differs from evaluating the inner expression under the overlaid options", i,
                        {"options": prog["ops"][i]["o"], "wrapped": impl[i].get("r"), "overlaid_options": prog["ops"][j]["o"],
                         "inner": impl[j].get("r")}))
    for i, o in enumerate(impl):
        if isinstance(o, dict) and o.get("mut"):
            out.append(("an input dictionary was modified", i, {"which": o["mut"]}))
    return out


C08 = CoreProp("C08", ("eval", "validate", "keys", "mut", "reads"), c08_programs, c08_oracle, nontrivial=nontrivial_eval,
               layer0=('mix',), rule="wrapper nestings of depth 1-3 (forced / default) and datasets with options/default_options and "
                    "with_options/with_default_options derivatives, P, D, o overlapping inside the same sections; each compared "
                    "with the inner expression evaluated under an independently computed overlay; deep snapshots of every input; "
                    "directed families: derived-dataset chains, bodies editing arguments in place, section + inner key readers")


# ================================================================== C09

TEMPLATE_ATOMS = ["lit", "{A}", "{S.X}", "{:p:}", "\\{", "\\}", "{P}", "{L.0}", " ", "{Q}", "{:q:}"]


def c09_programs(rng, tier) -> List[Item]:
    items = corpus_items("C09")
    n = sizes(tier, 300, 4000)
    for _ in range(n):
        P = Prog()
        k = rng.randint(1, 4)
        atoms = [rng.choice(TEMPLATE_ATOMS) for _ in range(k)]
        t = "".join(atoms)
        params = []
        if "{:p:}" in t:
            params.append(("p", rng.choice([P.option("B"), P.value(rng.choice([1, None, "v", True])),
                                            P.option("C", dflt=P.value(0)), P.template("{A}!")])))
        if "{:q:}" in t:
            params.append(("q", P.dataset([("b", P.option("B"))], fn_name=P.const_fn("kq", "Q"))))
        tn = P.template(t, params)
        on = P.option("W", dflt=P.template(t) if not params else None)
        meta = {"c09": [], "t": t}
        for _ in range(4):
            o: Dict[str, Any] = {}
            for key, vals in (("A", [1, "a", "{B}", "x{C}", None]), ("B", [2, "b", "{C}"]), ("C", [3, "c"]),
                              ("P", ["{A}", "{B}-{A}", "p"]), ("Q", ["q{P}", "{S.X}"]),
                              ("L", [["{A}", 1], ["l"], [{"path": "{B}/{C}"}], [["{A}"]]]),
                              ("S", [{"X": "{B}"}, {"X": 5}, {"Y": 1}]),
                              ("W", [t if "{:" not in t else "{A}", "{A}{B}", ["{C}"], {"K": "{A}"}, [{"p": "{B}"}, ["{C}"]], {"K": [{"q": "{A}"}]}])):
                if rng.random() < 0.75:
                    o[key] = rng.choice(vals)
            o = sort_json(o)
            for node in (tn, on):
                for op in ("evaluate", "keys", "explain"):
                    P.op(op, node, o)
                meta["c09"].append({"e": len(P.ops) - 3, "k": len(P.ops) - 2, "x": len(P.ops) - 1, "node": node})
        items.append((P.to_json(), meta))
    items += param_name_items(rng, sizes(tier, 44, 220))
    items += reused_dict_wrapper_items(rng, sizes(tier, 32, 96))
    items += index_segment_items(rng, sizes(tier, 30, 90))
    items += sibling_wrapper_items(rng, sizes(tier, 36, 72))
    return items


PARAM_NAMES = ["Name", "X", "P0", "_x", "my_Param", "pX9", "Z_", "__", "a", "NAME_1", "_"]
NOT_PARAMS = [":9x:", ":a-b:", "::", ":a b:", ":a.b:", "a:", ":a", ":é:"]     # read as option keys, not parameters


def param_name_items(rng, n) -> List[Item]:
    """`{:name:}` parameters over the whole identifier alphabet (upper-case initials, underscores, digits after the
    first character) and `{...}` entries that look like parameters but are not (read as option keys): parameters are
    substituted and never reported as keys; the look-alikes are keys like any other"""
    items = []
    for i in range(n):
        P = Prog()
        names = [PARAM_NAMES[i % len(PARAM_NAMES)]] + rng.sample(PARAM_NAMES, rng.randint(0, 1))
        names = list(dict.fromkeys(names))
        fake = NOT_PARAMS[i % len(NOT_PARAMS)] if i % 3 == 0 else None
        atoms = ["{A}", "lit"] + ["{:%s:}" % nm for nm in names] + (["{%s}" % fake] if fake else [])
        rng.shuffle(atoms)
        t = ", ".join(atoms)
        params = [(nm, rng.choice([P.value(rng.choice([1, None, "v", True])), P.option("B"), P.option("C", dflt=P.value(0))]))
                  for nm in names]
        tn = P.template(t, params)
        root = tn if rng.random() < 0.6 else P.dataset([("t", tn)])
        meta = {"c09": [], "t": t}
        for o in [{"A": 1, "B": 2}, {"B": "b"}, {"A": "x{B}", "B": 3, "C": 4}, {"A": "a"}]:
            if fake:
                o = dict(o)
                if rng.random() < 0.8:
                    _put_flat(o, fake, "f")
            for op in ("evaluate", "keys", "explain"):
                P.op(op, root, o)
            if root == tn:
                meta["c09"].append({"e": len(P.ops) - 3, "k": len(P.ops) - 2, "x": len(P.ops) - 1, "node": tn})
            P.op("validate", root, o)
        items.append((P.to_json(), meta))
    return items


def _put_flat(o, key, v):
    """a key containing no usable dots is a top-level entry"""
    o[key] = v


def reused_dict_wrapper_items(rng, n) -> List[Item]:
    """a user-built `WithOptions` / `WithDefaultOptions` object that is kept and used again and again with ONE
    dictionary object the caller edits in place between calls (keys added, changed, deleted): every operation sees the
    dictionary as it is now — templates and templated options under the wrapper included"""
    items = []
    for i in range(n):
        P = Prog()
        inner = [lambda: P.template("{A}-{P}"), lambda: P.option("Q"), lambda: P.collection("list", [P.option("A"), P.template("{S.X}!")]),
                 lambda: P.template("{:p:}/{A}", [("p", P.option("B", dflt=P.value("b")))])][i % 4]()
        preset = [{"Z": 1}, {"P": "{B}"}, {"S": {"X": "sx"}}, {"A": "pa"}][(i // 4) % 4]
        root = P.with_options(inner, preset, force=(i % 2 == 0))
        seq = [{"A": 1, "P": "p", "Q": "{A}", "S": {"X": 1}, "B": 2}, {"A": 2, "P": "{A}", "Q": "{P}", "S": {"X": 1}, "B": 2},
               {"A": 2, "P": "{B}", "Q": "q", "S": {"X": "{B}"}}, {"A": 3, "Q": "{S.X}", "S": {"X": 4}, "P": 0, "B": 1}, {"P": 1, "Q": 1}]
        meta = {"c09": [], "t": ""}
        pairs = []
        for o in seq:
            for op in ("keys", "evaluate", "explain", "validate"):
                P.op(op, root, o, reuse_o=True)
            for op in ("keys", "evaluate", "explain", "validate"):
                P.op(op, root, o)            # the same contents in a fresh dictionary object
                pairs.append((len(P.ops) - 5, len(P.ops) - 1, op))
        meta["fresh_pairs"] = pairs
        items.append((P.to_json(), meta))
    return items


def fresh_pairs_oracle(prog, meta, impl):
    out = []
    for i, j, op in meta.get("fresh_pairs", []):
        if i < len(impl) and j < len(impl) and not same_outcome(impl[i], impl[j]):
            out.append((f"{op}() on a dictionary object the caller edited in place differs from {op}() on a fresh dictionary "
                        "with the same contents", i, {"options": prog["ops"][i]["o"], "reused": impl[i].get("r"), "fresh": impl[j].get("r")}))
    return out


INDEX_SEGMENTS = ["L.-1", "L.-2", "L.+1", "L.-0", "L.1_0", "L.-9", "L.2.-1", "L.2.0", "S.-1", "L.01"]


def index_segment_items(rng, n) -> List[Item]:
    """dotted keys whose segments read as integer literals beyond plain digits — negative indices (`L.-1`), a sign, an
    underscore, a leading zero; also below a section, where an integer segment never matches — in templates, templated
    option values and Option keys: whenever the substitution succeeds, keys() / explain() succeed and cover what it
    read; a missing-key failure only when the independent lookup finds the key absent.  (The model's `parseIntLit` reads
    ASCII integer literals the way `int()` does; non-ASCII decimal digits are outside it.)"""
    items = []
    for i in range(n):
        P = Prog()
        key = INDEX_SEGMENTS[i % len(INDEX_SEGMENTS)]
        t = ["{%s}", "v={%s}!", "{%s}{A}"][(i // len(INDEX_SEGMENTS)) % 3] % key
        tn = P.template(t)
        on = P.option("W", dflt=P.template(t))
        kn = P.option(key, dflt=P.value("d") if i % 2 else None)
        meta = {"c09": [], "t": t}
        for o in [{"L": ["a", "b", ["c", "e"]], "A": 1, "S": {"-1": "neg"}}, {"L": ["only"], "A": 2}, {"L": [], "A": 3}, {"A": 4},
                  {"L": ["x", "y", ["z"]], "A": 5, "W": "{%s}" % key}]:
            for node in (tn, on, kn):
                for op in ("evaluate", "keys", "explain"):
                    P.op(op, node, o)
                if node is not kn:
                    meta["c09"].append({"e": len(P.ops) - 3, "k": len(P.ops) - 2, "x": len(P.ops) - 1, "node": node})
                else:
                    meta.setdefault("keyopt", []).append({"e": len(P.ops) - 3, "k": len(P.ops) - 2, "x": len(P.ops) - 1, "key": key})
        items.append((P.to_json(), meta))
    return items


def sibling_wrapper_items(rng, n) -> List[Item]:
    """ONE node (a template, a templated Option) reached twice within a single operation through SIBLING wrappers that
    pre-set different templated values (`Iter(WithOptions(t, {'G': '{A}'}), WithOptions(t, {'G': '{B}'}))`): keys() /
    explain() follow each route with its own effective options — the union of what both substitutions read"""
    items = []
    for i in range(n):
        P = Prog()
        t = [lambda: P.template("{G}, {:who:}!", [("who", P.option("W", dflt=P.value("w")))]), lambda: P.option("G"),
             lambda: P.template("<{G}>")][i % 3]()
        presets = [({"G": "{A}"}, {"G": "{B}"}), ({"G": "{S.X}"}, {"G": "{A}{B}"}), ({"G": "{A}"}, {"G": "plain"}), ({"G": "{B}"}, {"G": "{A}"})][(i // 3) % 4]
        w1, w2 = P.with_options(t, presets[0], force=True), P.with_options(t, presets[1], force=(i % 2 == 0))
        root = [lambda: P.collection("list", [w1, w2]), lambda: P.collection("tuple", [w2, t, w1]),
                lambda: P.dataset([("x", w1), ("y", w2)], cache=P.new_cache("nocache"))][(i // 12) % 3]()
        meta = {"c09": [], "t": "", "agree_keys": []}
        for o in [{"A": 1, "B": 2, "S": {"X": 3}, "G": "g"}, {"A": 1, "B": 2, "S": {"X": 3}}, {"A": 1, "G": "{B}"}, {"B": 2}, {}]:
            for op in ("keys", "explain", "evaluate", "validate"):
                P.op(op, root, o)
            meta["agree_keys"].append({"k": len(P.ops) - 4, "x": len(P.ops) - 3, "e": len(P.ops) - 2})
        items.append((P.to_json(), meta))
    return items


def ref_template_keys(s: str) -> List[str]:
    import re
    return list(dict.fromkeys(re.findall(r"(?<!\\){([^\\]*?)}", s)))


def ref_subst(t: str, o: Dict[str, Any], params: Dict[str, Any], reads: set, depth=0):
    """independent substitution; returns text or raises KeyError(key) / ValueError for the unmodelled"""
    if depth > 30:
        raise RecursionError
    ks = ref_template_keys(t)
    if not ks:
        return t.replace("\\{", "{").replace("\\}", "}")
    if len(ks) == 1 and t == "{" + ks[0] + "}":
        v = _ref_lookup(ks[0], o, params, reads)
        return ref_resolve_value(v, o, params, reads, depth + 1)
    for k in ks:
        v = _ref_lookup(k, o, params, reads)
        if isinstance(v, dict) and v:
            raise ValueError("F22")
        t = t.replace("{" + k + "}", str(v))
    return ref_subst(t, o, params, reads, depth + 1)


def _ref_lookup(k, o, params, reads):
    if k.startswith(":") and k.endswith(":") and k[1:-1] in params:
        return params[k[1:-1]]
    reads.add(k)
    r = ref_get(k, o)
    if r[0] == "found":
        return r[1]
    if r[0] == "type":
        raise ValueError("F10")
    raise KeyError(k)


def ref_resolve_value(v, o, params, reads, depth=0):
    if isinstance(v, str):
        return ref_subst(v, o, params, reads, depth)
    if isinstance(v, list):
        return [ref_resolve_value(x, o, params, reads, depth + 1) for x in v]
    if isinstance(v, dict):
        return {k: ref_resolve_value(x, o, params, reads, depth + 1) for k, x in v.items()}
    return v


_SKIP = object()


def _ref_param(nodes, nid, o, reads):
    """value of a simple parameter expression (constant, plain Option with constant default, parameterless
    Template) computed independently; _SKIP for anything else"""
    n = nodes[nid]
    if n["k"] == "value":
        v = n.get("v")
        return v if not isinstance(v, dict) else _SKIP
    if n["k"] == "option" and n.get("dom") is None:
        g = ref_get(n["key"], o)
        if g[0] == "found":
            reads.add(n["key"])
            try:
                return ref_resolve_value(g[1], o, {}, reads)
            except (KeyError, ValueError, RecursionError):
                return _SKIP
        if g[0] == "absent" and n.get("dflt") is not None and nodes[n["dflt"]]["k"] == "value":
            return nodes[n["dflt"]].get("v")
        return _SKIP
    if n["k"] == "template" and not n.get("params"):
        try:
            return ref_subst(n["t"], o, {}, reads)
        except (KeyError, ValueError, RecursionError):
            return _SKIP
    return _SKIP


def c09_oracle(prog, meta, impl, model):
    out = fresh_pairs_oracle(prog, meta, impl)
    for c in meta.get("agree_keys", []):
        # (the reference semantics follows every route with that route's effective options)
        if not isinstance(model, list):
            break
        for which, idx in (("keys", c["k"]), ("explain", c["x"])):
            a, b = impl[idx], model[idx] if idx < len(model) else None
            if isinstance(b, dict) and "r" in b and b["r"][0] == "ok" and (not is_ok(a) or dumps(a["r"][1]) != dumps(b["r"][1])):
                out.append((f"{which}() of a node reached through sibling wrappers is not the union over the routes", idx,
                            {"options": prog["ops"][idx]["o"], "got": a.get("r"), "reference": b["r"]}))
    for c in meta.get("keyopt", []):
        e, k, x = impl[c["e"]], impl[c["k"]], impl[c["x"]]
        o = prog["ops"][c["e"]]["o"]
        g = ref_get(c["key"], o)
        if g[0] == "found" and not ref_has_template(g[1]):
            if not is_ok(e) or dumps(e["r"][1]) != dumps(g[1]):
                out.append(("an Option whose key is present does not evaluate to the value under it", c["e"],
                            {"key": c["key"], "options": o, "expected": g[1], "got": e.get("r")}))
            for which, obs in (("keys", k), ("explain", x)):
                ks = keyset(obs)
                if ks is None or c["key"] not in ks:
                    out.append((f"{which}() of an Option whose key is present fails or omits the key", c["k"],
                                {"key": c["key"], "options": o, "got": obs.get("r")}))
    nodes = {n["id"]: n for n in prog["nodes"]}
    for c in meta.get("c09", []):
        e, k, x = impl[c["e"]], impl[c["k"]], impl[c["x"]]
        o = prog["ops"][c["e"]]["o"]
        node = nodes[c["node"]]
        if not is_ok(e):
            # a Template whose every referenced key is present (and resolves) must evaluate
            if is_err(e) and node["k"] == "template" and missing_option(e) is not None:
                try:
                    rd: set = set()
                    ps = {}
                    ok = True
                    for pname, pn in node.get("params", []):
                        pv = _ref_param(nodes, pn, o, rd)
                        if pv is _SKIP or (isinstance(pv, str) and ("{" in pv or "\\" in pv)):
                            ok = False
                            break
                        ps[pname] = pv
                    if ok:
                        ref_subst(node["t"], o, ps, rd)
                        out.append(("a Template fails with a missing-key error although every key it references is present",
                                    c["e"], {"template": node["t"], "options": o, "error": e["r"]}))
                except (KeyError, ValueError, RecursionError):
                    pass
            continue
        # reads of a successful substitution must be covered by keys() and explain()
        reads: set = set()
        try:
            if node["k"] == "template":
                params = {}
                simple = True
                for pname, pn in node.get("params", []):
                    pv = _ref_param(nodes, pn, o, reads)
                    if pv is _SKIP:
                        simple = False
                        break
                    params[pname] = pv
                if not simple:
                    continue   # other parameter expressions are checked through the correspondence
                if any(isinstance(v, str) and ("{" in v or "\\" in v) for v in params.values()):
                    continue   # F22: parameter text containing braces is re-read as a template
                txt = ref_subst(node["t"], o, params, reads)
                if isinstance(e["r"][1], str) and e["r"][1] != str(txt):
                    out.append(("a Template does not evaluate to its text with keys substituted transitively", c["e"],
                                {"template": node["t"], "options": o, "got": e["r"][1], "expected": str(txt)}))
            else:
                g = ref_get(node["key"], o)
                if g[0] == "found":
                    reads.add(node["key"])
                    ref_resolve_value(g[1], o, {}, reads)
                else:
                    ref_subst(meta["t"], o, {}, reads)
        except (KeyError, ValueError, RecursionError):
            continue
        for which, obs in (("keys", k), ("explain", x)):
            ks = keyset(obs)
            if ks is None:
                out.append((f"{which}() fails although the substitution succeeds", c["k"], {"options": o, "got": obs.get("r")}))
            elif not reads <= ks:
                out.append((f"{which}() omits an option key the substitution reads", c["k"],
                            {"options": o, "reads": sorted(reads), which: sorted(ks)}))
    return out


C09 = CoreProp("C09", ("eval", "keys", "explain", "reads"), c09_programs, c09_oracle, nontrivial=lambda p, i: True,
               classify=lambda prog, meta, what: None if what.startswith("a Template fails with a missing-key error") else
               (param_in_option_value_program(prog) or brace_resubstitution_program(prog)),
               layer0=('findKeys', 'resolve'), rule="templates over the atom alphabet {literal, {KEY}, {DOTTED.KEY}, {:param:}, escaped braces} up to 4 atoms, "
                    "parameters as constants/options/templates/datasets, options holding templated strings and containers of "
                    "templated strings to reference depth 3; independent substitution that records its reads; directed family: the whole "
                    "parameter-name alphabet and parameter look-alikes")


# ================================================================== C10 / C11

def hist_agree(rng, cfg, g: G, meta, n_dicts=5):
    P = g.P
    root = g.expr("any", rng.randint(1, cfg.max_depth))
    fam = dict_family(rng, cfg, n_dicts)
    recs = []
    extra = []
    for o in fam[:2]:
        o2 = copy.deepcopy(o)
        o2["LABREA"] = {"EFFECTS": {"DISABLED": True}, "CACHE": {rng.choice(["DISABLED", "DISABLE"]): True}}
        ks = [k for k in o2 if k != "LABREA"]
        if ks:
            o2.pop(rng.choice(ks))
        extra.append(sort_json(o2))
    for o in fam + (extra if cfg.switches else []):
        P.raw_op(op="reset")
        b = len(P.ops)
        for op in ("validate", "keys", "explain", "evaluate"):
            P.op(op, root, o)
        # warm: the same three again with whatever the evaluation stored
        for op in ("validate", "keys", "evaluate"):
            P.op(op, root, o)
        recs.append({"v": b, "k": b + 1, "x": b + 2, "e": b + 3, "wv": b + 4, "wk": b + 5, "we": b + 6})
    meta["agree"] = recs
    meta["root"] = root


def in_domain_program(prog) -> bool:
    return not any(n["k"] == "option" and n.get("dom") is not None for n in prog["nodes"])


def dataset_default_items(rng, n) -> List[Item]:
    """an Option whose default is a dataset (its body reads another option): with the key absent, validate / keys /
    explain inspect the default without running its body; with the key present the default is not looked at"""
    items = []
    for _ in range(n):
        P = Prog()
        dflt = P.dataset([("b", P.option("B", dflt=P.value(1) if rng.random() < 0.5 else None))])
        opt = P.option(rng.choice(["A", "S.X"]), dflt=dflt)
        shape = rng.choice(["root", "list", "branch", "apply", "arg"])
        if shape == "root":
            root = opt
        elif shape == "list":
            root = P.collection("list", [P.option("C", dflt=P.value(0)), opt])
        elif shape == "branch":
            root = P.switch(P.option("K", bare=True), [("x", opt)], P.value("d"))
        elif shape == "apply":
            root = P.apply(opt, P.fnvalue("tostr"))
        else:
            root = P.dataset([("v", opt)])
        recs = []
        for o in [{}, {"B": 2}, {"A": 5, "S": {"X": 6}}, {"K": "x"}, {"K": "x", "B": 3}, {"K": "x", "A": 0, "S": {"X": None}, "B": 1}]:
            P.raw_op(op="reset")
            b = len(P.ops)
            for op in ("validate", "keys", "explain", "evaluate", "validate", "keys", "evaluate"):
                P.op(op, root, o)
            recs.append({"v": b, "k": b + 1, "x": b + 2, "e": b + 3, "wv": b + 4, "wk": b + 5, "we": b + 6})
        items.append((P.to_json(), {"agree": recs, "root": root}))
    return items


def container_reference_items(rng, n) -> List[Item]:
    """templates (and string Option defaults) that reference a key whose value is a LIST or a section holding templated
    strings of its own (`{"FILES": ["{ROOT}/a.csv"]}`), the inner reference present or missing: validate, keys and
    evaluate agree about the missing key at every depth"""
    items = []
    for i in range(n):
        P = Prog()
        t = ["{L}", "{S.F}", "{L.0}", "{W}"][i % 4]
        kind = (i // 4) % 4
        if kind == 0:
            root = P.template(t)
        elif kind == 1:
            root = P.option("OUT", dflt=P.template(t))
        elif kind == 2:
            root = P.dataset([("p", P.template(t))], cache=P.new_cache("nocache"))
        else:
            root = P.collection("list", [P.template(t), P.option("B", dflt=P.value(0))])
        inner = rng.choice(["{ROOT}/a.csv", "x{ROOT}", "{ROOT}"])
        dicts = []
        for has_root in (False, True):
            base: Dict[str, Any] = {"L": [inner, "plain"], "S": {"F": [[inner]]}, "W": [{"path": inner}]}
            if has_root:
                base["ROOT"] = "/data"
            dicts.append(base)
        dicts.append({"L": ["plain"], "S": {"F": []}, "W": [1]})
        dicts.append({})
        agree = []
        for o in dicts:
            P.raw_op(op="reset")
            b = len(P.ops)
            for op in ("validate", "keys", "explain", "evaluate", "validate", "keys", "evaluate"):
                P.op(op, root, sort_json(o))
            agree.append({"v": b, "k": b + 1, "x": b + 2, "e": b + 3, "wv": b + 4, "wk": b + 5, "we": b + 6})
        items.append((P.to_json(), {"agree": agree, "root": root}))
    return items


def agreement_shapes_items(rng, n) -> List[Item]:
    """shapes whose four operations are implemented side by side in the library and must stay in step: namespaces with
    required members under underscore names (hidden from the generated documentation, not from validation), nested;
    applications and partial applications whose FUNCTION is an expression reading options; an Option default factory
    chosen by a switch — validate / keys / explain / evaluate on increasing sub-dictionaries"""
    items = []
    for i in range(n):
        P = Prog()
        keys: List[str] = []
        shape = i % 4
        if shape == 0:
            members = []
            for nm in rng.sample(["A", "_TOKEN", "_H", "B", "_x"], 3):
                keys.append(f"NS.{nm}")
                members.append((nm, P.option(f"NS.{nm}", dflt=None, nsmember=1, style="annot" if not nm.startswith("_x") else "option")))
            members.sort(key=lambda m: 0 if P.node(m[1]).get("style") == "annot" else 1)
            ns = P.namespace("NS", members, via="decorator")
            root = ns if i % 8 == 0 else P.dataset([("ns", ns)], cache=P.new_cache("nocache"))
        else:
            fa, fb = P.fnvalue(P.free(f"fast{i}")), P.fnvalue(P.free(f"exact{i}"))
            fexpr = P.switch(P.option("ALGO", bare=True), [("fast", fa), ("exact", fb)]) if i % 3 else \
                P.case(P.option("ALGO"), [(P.fnvalue("eq", "fast"), fa)], fb)
            keys += ["ALGO", "X"]
            if shape == 1:
                root = P.funapp(fexpr, kw=[("x", P.option("X"))])
            elif shape == 2:
                root = P.apply(P.option("X"), P.partial(fexpr, kw=[("y", P.option("Y", dflt=P.value(0)))]))
            else:
                root = P.dataset([("r", P.apply(P.option("X"), P.partial(fexpr)))], cache=P.new_cache("nocache"))
        full: Dict[str, Any] = {}
        for k in keys:
            _put(full, k, "fast" if k == "ALGO" else 1)
        order = list(keys)
        rng.shuffle(order)
        subs: List[Dict[str, Any]] = [{}]
        cur: Dict[str, Any] = {}
        for k in order:
            _put(cur, k, ref_get(k, full)[1])
            subs.append(copy.deepcopy(cur))
        recs, agree = [], []
        for o in subs:
            P.raw_op(op="reset")
            b = len(P.ops)
            for op in ("validate", "keys", "explain", "evaluate", "validate", "keys", "evaluate"):
                P.op(op, root, sort_json(o))
            recs.append({"x": b + 2, "k": b + 1, "v": b})
            agree.append({"v": b, "k": b + 1, "x": b + 2, "e": b + 3, "wv": b + 4, "wk": b + 5, "we": b + 6})
        items.append((P.to_json(), {"explain": recs, "agree": agree, "root": root}))
    return items


def shared_upstream_items(rng, n) -> List[Item]:
    """ONE upstream dataset reached several times below one root under DIFFERENT effective options (two `with_options`
    derivatives, wrapper nodes, a Map over its dispatch key), its overloads reading different keys: explain / keys /
    validate of the root follow every one of the routes"""
    items = []
    for i in range(n):
        P = Prog()
        csv = P.dataset([("p", P.option("CSV.PATH"))])
        db = P.dataset([("u", P.option("DB.URL"))])
        up = P.dataset([("a", P.option("A", dflt=P.value(0)))], dispatch=P.option("SRC", bare=True), table=[("csv", csv), ("db", db)],
                       abstract=(i % 3 == 0))
        shape = i % 4
        if shape == 0:
            v1, v2 = P.derive(up, {"SRC": "csv"}), P.derive(up, {"SRC": "db"})
            root = P.dataset([("x", v1), ("y", v2)])
            P.after_ops(root)       # (defined after the derivations it depends on)
        elif shape == 1:
            root = P.dataset([("x", P.with_options(up, {"SRC": "csv"})), ("y", P.with_options(up, {"SRC": "db"})), ("z", up)])
        elif shape == 2:
            root = P.dataset([("m", P.apply(P.map(up, [("SRC", P.value(["csv", "db"]))]), P.fnvalue("py:list")))])
        else:
            mid = P.dataset([("u", up)])
            root = P.dataset([("x", P.with_options(mid, {"SRC": "db"}, force=False)), ("y", P.with_options(mid, {"SRC": "csv"}))])
        full = {"CSV": {"PATH": "p"}, "DB": {"URL": "u"}, "SRC": "csv", "A": 1}
        subs: List[Dict[str, Any]] = [{}, {"CSV": {"PATH": "p"}}, {"DB": {"URL": "u"}}, {"CSV": {"PATH": "p"}, "DB": {"URL": "u"}}, {"SRC": "db"},
                                      {"SRC": "db", "DB": {"URL": "u"}}, full]
        recs, agree = [], []
        for o in subs:
            P.raw_op(op="reset")
            b = len(P.ops)
            for op in ("validate", "keys", "explain", "evaluate", "validate", "keys", "evaluate"):
                P.op(op, root, sort_json(o))
            recs.append({"x": b + 2, "k": b + 1, "v": b})
            agree.append({"v": b, "k": b + 1, "x": b + 2, "e": b + 3, "wv": b + 4, "wk": b + 5, "we": b + 6})
        items.append((P.to_json(), {"explain": recs, "agree": agree, "root": root}))
    return items


def plain_return_bind_items(rng, n) -> List[Item]:
    """a `bind` continuation that returns a plain value (not an evaluatable) on one branch — a mistake in user code:
    whatever the library makes of it, validate / keys / evaluate make the SAME of it (all fail, or all succeed), alone
    and as a coalesce member.  (Oracle only: the model's continuations return expressions.)"""
    items = []
    for i in range(n):
        P = Prog()
        good, plain = P.option("X"), P.value(rng.choice([0, "p", None, [1]]))
        b = P.bind(P.option("A"), [(1, good), (2, plain)], good if i % 2 else None)
        P.binds[-1]["raw"] = [plain]
        root = [lambda: b, lambda: P.coalesce([b, P.value("fallback")]), lambda: P.dataset([("v", b)], cache=P.new_cache("nocache"))][i % 3]()
        agree = []
        for o in [{"A": 1, "X": 5}, {"A": 2, "X": 5}, {"A": 2}, {"A": 1}, {"A": 3, "X": 1}]:
            P.raw_op(op="reset")
            b0 = len(P.ops)
            for op in ("validate", "keys", "explain", "evaluate", "validate", "keys", "evaluate"):
                P.op(op, root, sort_json(o))
            agree.append({"v": b0, "k": b0 + 1, "x": b0 + 2, "e": b0 + 3, "wv": b0 + 4, "wk": b0 + 5, "we": b0 + 6})
        items.append((P.to_json(), {"agree": agree, "root": root, "no_model": True, "classify_off": True, "same_status": True}))
    return items


def c10_programs(rng, tier) -> List[Item]:
    items = corpus_items("C10")
    items += dataset_default_items(rng, sizes(tier, 30, 200))
    cfg = Cfg(raising=False, domains=False, all_options=False, total_fns=True, switches=True)
    items += gen_items(rng, cfg, sizes(tier, 300, 4000), hist_agree)
    cfg2 = Cfg(raising=True, domains=False, all_options=False)
    its = gen_items(rng, cfg2, sizes(tier, 120, 1500), hist_agree)
    for p, m in its:
        m["partial_bodies"] = True
    items += its
    items += dataset_class_items(rng, sizes(tier, 30, 150))
    items += container_reference_items(rng, sizes(tier, 32, 96))
    items += agreement_shapes_items(rng, sizes(tier, 32, 128))
    items += shared_upstream_items(rng, sizes(tier, 16, 64))
    items += plain_return_bind_items(rng, sizes(tier, 12, 36))
    return items


def c10_oracle(prog, meta, impl, model):
    out = []
    selectors = _selector_fns(prog)
    bodies = {b["body"] for b in _bodies_of(prog).values() if b["body"]}
    for rec in meta.get("agree", []):
        for tag, (v, k, e) in (("cold", (rec["v"], rec["k"], rec["e"])), ("warm", (rec["wv"], rec["wk"], rec["we"]))):
            V, K, E = impl[v], impl[k], impl[e]
            if any("r" not in x or x["r"][0] == "fuel" for x in (V, K, E)):
                continue
            o = prog["ops"][v]["o"]
            if is_ok(V) and is_err(E) and missing_option(E) is not None:
                out.append((f"validate() passes but evaluate() fails for a missing option ({tag})", e,
                            {"options": o, "evaluate": E["r"]}))
            if not meta.get("partial_bodies"):
                oks = (is_ok(V), is_ok(K), is_ok(E))
                if len(set(oks)) != 1:
                    out.append((f"validate/keys/evaluate disagree about whether the options suffice ({tag})", v,
                                {"options": o, "validate": V["r"][0], "keys": K["r"][0], "evaluate": E["r"][0],
                                 "detail": [x["r"] for x in (V, K, E) if is_err(x)][:1]}))
        # validation / key inspection run no body that is not needed to choose a branch
        for which in ("v", "k", "x"):
            obs = impl[rec[which]]
            ran = [c[0] for c in obs.get("calls", []) if c[0] in bodies and c[0] not in selectors]
            if ran:
                out.append(("validate/keys/explain ran a dataset body that does not select a branch", rec[which],
                            {"bodies": ran}))
    return out


def _bodies_of(prog):
    nodes = {n["id"]: n for n in prog["nodes"]}
    out = {}
    for d in prog.get("dss", []):
        ov = next(o for o in prog["ovs"] if o["id"] == d["ov"])
        body = None
        if ov.get("dflt") is not None:
            body = nodes[nodes[ov["dflt"]]["f"]]["v"]["f"]
        out[d["id"]] = {"body": body}
    return out


def _selector_fns(prog) -> set:
    """names of user callables reachable from a selector position (dispatch, bind/case source, Map iterable,
    case condition, domain): these may run during validate/keys/explain"""
    nodes = {n["id"]: n for n in prog["nodes"]}
    ovs = {o["id"]: o for o in prog.get("ovs", [])}
    dss = {d["id"]: d for d in prog.get("dss", [])}
    names: set = set()
    seen: set = set()

    def walk(nid):
        if nid is None or nid in seen:
            return
        seen.add(nid)
        n = nodes.get(nid)
        if n is None:
            return
        if n["k"] == "value":
            v = n.get("v")
            if isinstance(v, dict) and v.get("$") == "fn":
                names.add(v["f"])
            return
        for k, v in n.items():
            if k in ("id", "k", "ov", "ds", "cache", "b"):
                continue
            if isinstance(v, int) and not isinstance(v, bool):
                walk(v)
            elif isinstance(v, list):
                for x in v:
                    if isinstance(x, int) and not isinstance(x, bool):
                        walk(x)
                    elif isinstance(x, list):
                        for y in x:
                            if isinstance(y, int) and not isinstance(y, bool):
                                walk(y)
        if n["k"] == "dataset":
            d = dss[n["ds"]]
            o = ovs[d["ov"]]
            walk(o["dispatch"]); walk(o.get("dflt")); walk(d["callback"])
            for _, i in o.get("table", []):
                walk(i)
            for e in d["effects"]:
                walk(e)
        if n["k"] == "bind":
            b = next(x for x in prog["binds"] if x["id"] == n["b"])
            for _, i in b.get("table", []):
                walk(i)
            walk(b.get("dflt"))

    for n in prog["nodes"]:
        if n["k"] == "switch":
            walk(n["d"])
        elif n["k"] == "case":
            walk(n["d"])
            for c, _ in n["cases"]:
                walk(c)
        elif n["k"] == "bind":
            walk(n["e"])
        elif n["k"] == "map":
            for _, i in n["its"]:
                walk(i)
        elif n["k"] == "option" and n.get("dom") is not None:
            walk(n["dom"])
    for o in prog.get("ovs", []):
        walk(o["dispatch"])
    # registered implementations added later through `register` can be dispatch datasets too: be generous
    return names


def param_in_option_value_program(prog) -> Optional[str]:
    """trigger of F26: an option value refers to a template parameter"""
    blob = json.dumps([op.get("o") for op in prog.get("ops", [])] + [n.get("p") for n in prog["nodes"] if n["k"] == "with"]
                      + [d.get("options") for d in prog.get("dss", [])] + [d.get("default_options") for d in prog.get("dss", [])])
    return "F26" if "{:" in blob else None


def brace_resubstitution_program(prog) -> Optional[str]:
    """trigger of F22: a template parameter (or embedded key) may receive text containing braces"""
    has_param_template = any(n["k"] == "template" and n.get("params") for n in prog["nodes"])
    blob = json.dumps([op.get("o") for op in prog.get("ops", [])] + [n.get("p") for n in prog["nodes"] if n["k"] == "with"]
                      + [n.get("t") for n in prog["nodes"] if n["k"] == "template"])
    if has_param_template and "\\\\{" in blob:
        return "F22"
    return None


def scalar_prefix_program(prog) -> Optional[str]:
    """trigger of F10: a Map assigns scalars to a key while the mapped expression reads a key below it"""
    keys = [n["key"] for n in prog["nodes"] if n["k"] == "option"]
    # (a template reads the keys it references just as an Option does)
    keys += [k for n in prog["nodes"] if n["k"] == "template" for k in ref_template_keys(n.get("t", ""))]
    for n in prog["nodes"]:
        if n["k"] == "map":
            for k, _ in n["its"]:
                if any(x.startswith(k + ".") for x in keys):
                    return "F10"
    return None


def map_element_dispatch_program(prog) -> Optional[str]:
    """trigger of F27: the mapped expression chooses a branch by a key the Map assigns, so its elements
    have different key sets; when one element's explain() fails, Map.explain falls back to a static
    approximation that follows the caller's (not the elements') branch"""
    by = {n["id"]: n for n in prog["nodes"]}
    for n in prog["nodes"]:
        if n["k"] != "map":
            continue
        mapped = {k for k, _ in n["its"]}
        e = by.get(n["e"])
        if e and e["k"] == "switch":
            d = by.get(e["d"])
            if d and d["k"] == "option" and d["key"] in mapped:
                return "F27"
    return None


def c11_classify(prog, meta, what):
    # (an effect that reads an option is no excuse here: explain() does list the effect's keys)
    return [x for x in (brace_resubstitution_program(prog), param_in_option_value_program(prog), scalar_prefix_program(prog),
                        map_element_dispatch_program(prog)) if x]


def c10_classify(prog, meta, what):
    return [x for x in (effect_reads_program(prog), brace_resubstitution_program(prog), param_in_option_value_program(prog),
                        scalar_prefix_program(prog)) if x]


C10 = CoreProp("C10", ("validate", "keys", "eval", "trace", "reads"), c10_programs, c10_oracle, classify=c10_classify,
               nontrivial=nontrivial_eval,
               rule="random graphs (bodies total; a second stream with bodies raising on declared inputs) x dictionary families; "
                    "validate/keys/explain/evaluate on a cold graph, then validate/keys/evaluate again warm; directed families: "
                    "dataset defaults, dataset classes")


def hist_explain(rng, cfg, g: G, meta, n_dicts=3):
    P = g.P
    root = g.expr("any", rng.randint(1, cfg.max_depth))
    recs = []
    fam = dict_family(rng, cfg, n_dicts)
    for full in fam:
        # sub-dictionaries of a sufficient one: options are added key by key
        keys = list(full.keys())
        rng.shuffle(keys)
        subs = [{}]
        cur: Dict[str, Any] = {}
        for k in keys:
            cur = dict(cur)
            cur[k] = full[k]
            if rng.random() < 0.5:
                subs.append(sort_json(cur))
        subs.append(full)
        for o in subs[:6]:
            P.raw_op(op="reset")
            b = len(P.ops)
            P.op("explain", root, o)
            P.op("keys", root, o)
            P.op("validate", root, o)
            recs.append({"x": b, "k": b + 1, "v": b + 2})
    meta["explain"] = recs


def c11_programs(rng, tier) -> List[Item]:
    items = corpus_items("C11")
    cfg = Cfg(raising=False, domains=False, all_options=False, templates=True, total_fns=True)
    items += gen_items(rng, cfg, sizes(tier, 200, 2500), hist_explain)
    cfgm = Cfg(raising=False, domains=False, all_options=False, templates=True, total_fns=True, map_weight=4.0, self_map=0.7)
    items += gen_items(rng, cfgm, sizes(tier, 60, 600), hist_explain)
    # effects whose callback reads an option of its own: explain() lists it, validate() requires it
    cfge = Cfg(raising=False, domains=False, all_options=False, templates=True, total_fns=True, effect_reads_options=True, maps=False)
    items += gen_items(rng, cfge, sizes(tier, 60, 600), hist_explain)
    items += pinned_dispatch_items(rng, sizes(tier, 40, 400))
    items += namespace_explain_items(rng, sizes(tier, 20, 150))
    items += dataset_class_items(rng, sizes(tier, 40, 200))
    items += agreement_shapes_items(rng, sizes(tier, 32, 128))
    items += shared_upstream_items(rng, sizes(tier, 16, 64))
    return items


def namespace_explain_items(rng, n) -> List[Item]:
    """namespaces (members with and without defaults, names with a leading underscore included, nested): explain lists
    what validate requires"""
    items = []
    for _ in range(n):
        P = Prog()

        def build_ns(key, depth):
            members = []
            for nm in rng.sample(["A", "B", "_H", "_T", "C"], rng.randint(2, 4)):
                dv = rng.choice(["none", "none", 0, "t{X}"])
                dflt = None if dv == "none" else (P.template(dv) if isinstance(dv, str) else P.value(dv))
                style = "annot" if dv == "none" and rng.random() < 0.5 else "option"
                members.append((nm, P.option(f"{key}.{nm}", dflt=dflt, nsmember=1, style=style)))
            members.sort(key=lambda m: 0 if P.node(m[1]).get("style") == "annot" else 1)
            if depth < 2 and rng.random() < 0.4:
                sub_name = rng.choice(["SUB", "_PRIV"])
                sub = build_ns(f"{key}.{sub_name}", depth + 1)
                # (a nested plain class whose name starts with an underscore is private; a decorated one is a member)
                P.node(sub)["explicit"] = True if sub_name.startswith("_") else rng.random() < 0.5
                P.node(sub)["nsmember"] = 1
                members.append((sub_name, sub))
            return P.namespace(key, members, via="decorator")

        ns = build_ns("NS", 1)
        root = ns if rng.random() < 0.6 else P.collection("list", [ns, P.option("Q", dflt=P.value(1))])
        full: Dict[str, Any] = {"X": 1}
        for nd in P.nodes:
            if nd["k"] == "option" and nd.get("nsmember"):
                _put(full, nd["key"], rng.choice([0, 1, "a"]))
        keys = list(_leaf_paths(full))
        rng.shuffle(keys)
        recs = []
        subs = [{}]
        cur: Dict[str, Any] = {}
        for k in keys:
            _put(cur, k, ref_get(k, full)[1])
            subs.append(copy.deepcopy(cur))
        for o in subs[:7]:
            b = len(P.ops)
            P.op("explain", root, sort_json(o))
            P.op("keys", root, sort_json(o))
            P.op("validate", root, sort_json(o))
            recs.append({"x": b, "k": b + 1, "v": b + 2})
        items.append((P.to_json(), {"explain": recs}))
    return items


def _leaf_paths(d, prefix=""):
    for k, v in d.items():
        p = f"{prefix}.{k}" if prefix else k
        if isinstance(v, dict) and v:
            yield from _leaf_paths(v, p)
        else:
            yield p


def pinned_dispatch_items(rng, n) -> List[Item]:
    """a branch chosen by a key that a wrapper pins (pre-set, forced or default) while the caller supplies another
    value for it: explain/keys/validate must follow the wrapper's rule, and the branches need different options"""
    items = []
    for _ in range(n):
        P = Prog()
        vals = rng.sample(["x", "y", "z"], 3)
        leaves = [P.option(k) for k in rng.sample(["A", "B", "C", "D", "S.X"], 3)]
        style = rng.choice(["with", "dataset", "with_method"])
        pin = {"K": vals[0]}
        force = rng.random() < 0.6
        if style == "with":
            sw = P.switch(P.option("K", bare=True), [(vals[0], leaves[0]), (vals[1], leaves[1])], leaves[2] if rng.random() < 0.5 else None)
            root = P.with_options(sw, pin, force=force)
        else:
            table = [(vals[0], P.dataset([("a", leaves[0])])), (vals[1], P.dataset([("a", leaves[1])]))]
            kw = {"options": pin} if force else {"default_options": pin}
            if style == "with_method":
                kw = {}
            root = P.dataset([("a", leaves[2])], dispatch=P.option("K", bare=True), table=table, abstract=rng.random() < 0.3, **kw)
            if style == "with_method":
                root = P.derive(root, pin, default=not force)
        recs = []
        base = {"A": 1, "B": 2, "C": 3, "D": 4, "S": {"X": 5}}
        for kv in [None] + vals + ["q"]:
            full = dict(base) if kv is None else dict(base, K=kv)
            for drop in [[], rng.sample(["A", "B", "C", "D", "S"], 2), ["A", "B", "C", "D", "S"]]:
                o = sort_json({k: v for k, v in full.items() if k not in drop})
                b = len(P.ops)
                P.op("explain", root, o)
                P.op("keys", root, o)
                P.op("validate", root, o)
                recs.append({"x": b, "k": b + 1, "v": b + 2})
        items.append((P.to_json(), {"explain": recs}))
    return items


def c11_oracle(prog, meta, impl, model):
    out = []
    bodies = {b["body"] for b in _bodies_of(prog).values() if b["body"]}
    selectors = _selector_fns(prog)
    for rec in meta.get("explain", []):
        X, K, V = impl[rec["x"]], impl[rec["k"]], impl[rec["v"]]
        if any("r" not in t or t["r"][0] == "fuel" for t in (X, K, V)):
            continue
        o = prog["ops"][rec["x"]]["o"]
        if is_err(X):
            outer = X["r"][1][0][0]
            if outer != "InsufficientInformationError":
                out.append(("explain() failed with something other than an insufficient-information error", rec["x"],
                            {"options": o, "error": X["r"]}))
            continue
        E = keyset(X)
        if E is None:
            continue
        Ks = keyset(K)
        if Ks is not None and not Ks <= E:
            out.append(("explain() does not contain every key keys() reports", rec["x"],
                        {"options": o, "keys": sorted(Ks), "explain": sorted(E)}))
        absent = sorted(k for k in E if ref_get(k, o)[0] != "found")
        mk = missing_option(V)
        if not absent and is_err(V) and mk is not None:
            out.append(("nothing explain() lists is absent, yet validate() fails for a missing option", rec["v"],
                        {"options": o, "explain": sorted(E), "missing": mk}))
        if absent and is_ok(V):
            out.append(("explain() lists an absent key but validate() passes", rec["v"],
                        {"options": o, "absent": absent}))
        if is_err(V) and mk is not None and mk not in E:
            out.append(("validate() reports a missing key that explain() does not list", rec["v"],
                        {"options": o, "missing": mk, "explain": sorted(E)}))
        ran = [c[0] for c in X.get("calls", []) if c[0] in bodies and c[0] not in selectors]
        if ran:
            out.append(("explain() ran a dataset body that does not select a branch", rec["x"], {"bodies": ran}))
    return out


C11 = CoreProp("C11", ("explain", "keys", "validate", "reads"), c11_programs, c11_oracle, classify=c11_classify,
               nontrivial=nontrivial_eval,
               rule="random graphs x (empty dictionary, increasing sub-dictionaries of a sufficient one, the full one): "
                    "explain/keys/validate on fresh graphs; directed families: pinned dispatch, namespaces and dataset classes with "
                    "underscore-named members")


# ================================================================== C12

def hist_failures(rng, cfg, g: G, meta, n_dicts=5):
    P = g.P
    root = g.expr("any", rng.randint(1, cfg.max_depth))
    if P.node(root)["k"] not in ("dataset", "cached") and rng.random() < 0.5:
        root = P.cached(root)
    fam = dict_family(rng, cfg, n_dicts)
    recs = []
    seq = []
    for o in fam:
        seq.append(o)
        if rng.random() < 0.5:
            seq.append(rng.choice(seq))
    for o in seq:
        P.evaluate(root, o)
        P.evaluate(root, o, cache_off=True)
        recs.append((len(P.ops) - 2, len(P.ops) - 1))
    meta["fail"] = recs
    meta["root"] = root
    meta["root_cid"] = (P.dss[P.ds_of(root) - 1]["cache"] if P.node(root)["k"] == "dataset" else
                        (P.node(root)["cache"] if P.node(root)["k"] == "cached" else None))
    meta["raising"] = {n: s["raise"]["cls"] for n, s in P.fns.items() if "raise" in s}


def c12_domain_items(rng, n) -> List[Item]:
    """user code inside Option.evaluate (a domain predicate) raising arbitrary exception classes, KeyError
    and its relatives included, on supplied values — with and without a default"""
    items = []
    for i in range(n):
        P = Prog()
        cls = rng.choice(["KeyError", "LookupError", "IndexError", "ValueError", "RuntimeError", "CustomError"])
        bad = rng.sample([0, 1, "x", "y", None, False], 2)
        P.const_fn("pred", True, **{"raise": {"cls": cls, "on": bad}})
        dflt = P.value(rng.choice([7, "d", None])) if rng.random() < 0.5 else None
        opt = P.option("A", dflt=dflt if not isinstance(P.node(dflt)["v"] if dflt else 0, str) else P.template("d"), dom=P.fnvalue("pred"))
        root = rng.choice([opt, P.cached(opt), P.dataset([("a", opt)])])
        seq = [{"A": v} for v in bad + [2, "ok"]] + [{}]
        rng.shuffle(seq)
        recs = []
        for o in seq:
            P.evaluate(root, sort_json(o))
            P.evaluate(root, sort_json(o), cache_off=True)
            recs.append((len(P.ops) - 2, len(P.ops) - 1))
        items.append((P.to_json(), {"fail": recs, "root": root, "root_cid": None, "raising": {"pred": cls},
                                    "pred_raises_on": bad, "pred_cls": cls}))
    return items


MIXED_KEYS = [["x", 1], [None, "x"], [1, None, "y"], [("t", 1), "x"], ["x", ("a",)], [True, "y"], [0, "z", None], ["x", "y"], [2, 1],
              [("a", 1), ("a", "b")], [None, 0]]


def unmatched_switch_items(rng, n) -> List[Item]:
    """switches, case expressions, abstract datasets and overloads WITHOUT a default whose lookup keys are of mixed,
    mutually unorderable types (None, str, int, tuple, bool), evaluated with dispatch values that match none of them
    (and with ones that match, before and after): the failure is the unmatched-switch EvaluationError, nothing is
    stored, a later matching evaluation succeeds"""
    items = []
    for i in range(n):
        P = Prog()
        keys = MIXED_KEYS[i % len(MIXED_KEYS)]
        shape = (i // len(MIXED_KEYS)) % 4
        branches = [(k, P.option("A") if j == 0 else P.value(f"b{j}")) for j, k in enumerate(keys)]
        if shape == 0:
            root = P.switch(P.option("K", bare=True), branches)
        elif shape == 1:
            root = P.switch(P.apply(P.option("K"), P.fnvalue("ident")), branches)
        elif shape == 2:
            root = P.dataset([], dispatch=P.option("K", bare=True), table=[(k, P.dataset([("v", b)])) for k, b in branches], abstract=True)
        else:
            root = P.cached(P.collection("list", [P.switch(P.option("K", bare=True), branches), P.option("B", dflt=P.value(0))]))
        unmatched = [v for v in ["q", 7, None, ("zz",), False] if not any(v == k for k in keys)][:3]
        seq = [({"K": keys[0], "A": 1}, False)] + [({"K": v, "A": 1}, True) for v in unmatched] + \
              [({"A": 1}, False), ({"K": keys[-1], "A": 2}, False), ({"K": unmatched[0]}, True)]
        recs, exp = [], []
        for o, is_unmatched in seq:
            o = {k: (list(v) if isinstance(v, tuple) else v) for k, v in o.items()}      # option values are JSON
            P.evaluate(root, o)
            P.evaluate(root, o, cache_off=True)
            recs.append((len(P.ops) - 2, len(P.ops) - 1))
            if is_unmatched and not isinstance(o["K"], list):
                exp.append(len(P.ops) - 2)
        items.append((P.to_json(), {"fail": recs, "root": root, "root_cid": None, "raising": {}, "expect_switch_error": exp}))
    return items


EXC_POSITIONS = ["body", "callback", "effect", "predicate", "step", "apply", "dispatch", "bind", "coalesce_last", "funapp_arg"]


def exception_class_items(rng, n) -> List[Item]:
    """every exception class user code can raise (all built-in `Exception` subclasses constructible from a message —
    RecursionError, MemoryError, StopIteration, OSError and relatives, the warnings — plus user classes with and without
    a built-in base or a constructor of their own) at every position where the library calls user code: the failure
    is an EvaluationError on the object evaluated whose chain ends in that exception; nothing is stored; the same graph
    succeeds on the dictionaries the code accepts"""
    import pylib
    classes = sorted(pylib.EXC)
    items = []
    for i in range(n):
        P = Prog()
        cls = classes[i % len(classes)]
        pos = EXC_POSITIONS[(i // len(classes) + i) % len(EXC_POSITIONS)]
        bad = rng.choice([0, "x", None])
        rs = {"raise": {"cls": cls, "on": [bad]}}
        # (a callback / an effect receives the body's value: the harness body `b<i>` applied to a=bad)
        rs_app = {"raise": {"cls": cls, "on": [{"$": "app", "f": f"b{i}", "a": [], "k": [["a", bad]]}]}}
        a = P.option("A")
        name = f"r{i}"
        if pos == "body":
            P.free(name, **rs)
            root = P.dataset([("a", a)], fn_name=name)
        elif pos == "callback":
            P.free(name, **rs_app)
            root = P.dataset([("a", a)], fn_name=P.free(f"b{i}"), callback=P.fnvalue(name))
        elif pos == "effect":
            P.free(name, **rs_app)
            root = P.dataset([("a", a)], fn_name=P.free(f"b{i}"), effects=[P.fnvalue(name)])
        elif pos == "predicate":
            P.const_fn(name, True, **rs)
            root = P.cached(P.case(a, [(P.fnvalue(name), P.value("yes"))], P.value("no")))
        elif pos == "step":
            P.free(name, **rs)
            root = P.cached(P.apply(a, P.fnvalue(name), via="rshift"))
        elif pos == "apply":
            P.free(name, **rs)
            root = P.cached(P.apply(a, P.fnvalue(name)))
        elif pos == "dispatch":
            P.const_fn(name, "x", **rs)
            disp = P.dataset([("a", a)], fn_name=name, cache=P.new_cache("nocache"))
            root = P.dataset([], dispatch=disp, table=[("x", P.value("impl-x"))], abstract=True)
        elif pos == "bind":
            root = P.cached(P.bind(a, [(1, P.value("one")), (2, P.value("two"))], None, cls=cls))
            bad = 5
        elif pos == "coalesce_last":
            P.free(name, **rs)
            root = P.cached(P.coalesce([P.option("Q"), P.apply(a, P.fnvalue(name))]))
        else:
            P.free(name, **rs)
            P.free("outer")
            root = P.dataset([("v", P.funapp(P.fnvalue(name), [a]))], fn_name="outer")
        good = 1 if bad != 1 else 2
        seq = [({"A": good}, False), ({"A": bad}, True), ({"A": good}, False), ({"A": bad, "ZZ": 1}, True), ({"A": 2}, False)]
        recs, exp = [], []
        for o, fails in seq:
            P.evaluate(root, o)
            P.evaluate(root, o, cache_off=True)
            recs.append((len(P.ops) - 2, len(P.ops) - 1))
            if fails:
                exp.append(len(P.ops) - 2)
        items.append((P.to_json(), {"fail": recs, "root": root, "root_cid": None, "raising": {name: cls},
                                    "expect_cause": {"ops": exp, "cls": cls, "position": pos}}))
    return items


def custom_node_items(rng, n) -> List[Item]:
    """user-defined Evaluatable subclasses (operations defined in the class body, inherited from a plain mixin, inherited
    from a user-defined base) around failing and succeeding expressions, alone and as the dispatch of a switch with a
    default, a coalesce member, a dataset argument: a failure below such a node is an EvaluationError whose source is
    the object evaluate() was called on and whose chain passes through the node; catch positions still catch"""
    items = []
    shapes = ["direct", "mixin", "sub", "sub_mixin"]
    for i in range(n):
        P = Prog()
        shape = shapes[i % 4]
        name = f"r{i}"
        P.free(name, **{"raise": {"cls": rng.choice(["KeyError", "ValueError", "CustomError", "RecursionError"]), "on": [0]}})
        inner = [lambda: P.option("A"), lambda: P.apply(P.option("A"), P.fnvalue(name)),
                 lambda: P.switch(P.option("A", bare=True), [(1, P.value("one"))])][(i // 4) % 3]()
        node = P.custom(inner, shape)
        pos = (i // 12) % 5
        if pos == 0:
            root = node
        elif pos == 1:
            root = P.switch(node, [(1, P.value("sel"))], P.value("dflt"))
        elif pos == 2:
            root = P.coalesce([node, P.value("fallback")])
        elif pos == 3:
            root = P.dataset([("v", node)])
        else:
            root = P.cached(P.custom(node, shapes[(i + 1) % 4]))
        recs = []
        for o in [{"A": 1}, {}, {"A": 0}, {"A": 1}, {"A": 2}, {}]:
            P.evaluate(root, o)
            P.evaluate(root, o, cache_off=True)
            recs.append((len(P.ops) - 2, len(P.ops) - 1))
        items.append((P.to_json(), {"fail": recs, "root": root, "root_cid": None, "raising": {}}))
    return items


def raising_member_items(rng, n) -> List[Item]:
    """a coalesce / a switch default standing behind a member whose USER code raises on the value it is given (a case
    predicate, a bind continuation, an applied function): the member is present and fails for a reason of its own, so the
    failure surfaces — an EvaluationError whose chain ends in that exception — and is not taken for "this member lacks an
    option" (which is what lets a coalesce fall through); with the option absent the fall-through applies"""
    items = []
    for i in range(n):
        P = Prog()
        cls = ["ValueError", "CustomError", "KeyError", "LookupError", "RuntimeError", "TypeError"][i % 6]
        name = f"thr{i}"
        # (a member that merely APPLIES a raising function validates and then fails in evaluate — an EvaluationError, which
        # a coalesce takes as "try the next member": that is its documented behaviour, not part of this family)
        kind = (i // 6) % 2
        if kind == 0:
            P.const_fn(name, True, **{"raise": {"cls": cls, "on": ["bad"]}})
            member = P.case(P.option("LEVEL"), [(P.fnvalue(name), P.value("high"))], P.value("low"))
        else:
            member = P.bind(P.option("LEVEL"), [("ok", P.value("fine"))], None, cls=cls)
        c = P.coalesce([member, P.value("unknown")])
        root = [lambda: c, lambda: P.dataset([("v", c)]), lambda: P.cached(c)][(i // 12) % 3]()
        recs, exp = [], []
        for o, fails in [({"LEVEL": "ok"}, False), ({"LEVEL": "bad"}, True), ({}, False), ({"LEVEL": "bad", "Z": 1}, True), ({"LEVEL": "ok"}, False)]:
            P.evaluate(root, o)
            P.evaluate(root, o, cache_off=True)
            recs.append((len(P.ops) - 2, len(P.ops) - 1))
            if fails:
                exp.append(len(P.ops) - 2)
        items.append((P.to_json(), {"fail": recs, "root": root, "root_cid": None, "raising": {name: cls},
                                    "expect_cause": {"ops": exp, "cls": cls, "position": "coalesce member"}, "classify_off": True}))
    return items


def reentered_context_items(rng, n) -> List[Item]:
    """ONE context object of the library kept in a constant (`NO_CACHE = labrea.cache.disabled()`) and entered twice,
    nested, around failing and succeeding evaluations: a failure leaves both blocks as the EvaluationError it is"""
    items = []
    for i in range(n):
        P = Prog()
        cls = ["ValueError", "KeyError", "CustomError"][i % 3]
        name = P.free(f"rr{i}", **{"raise": {"cls": cls, "on": [0]}})
        root = [lambda: P.dataset([("a", P.option("A"))], fn_name=name), lambda: P.apply(P.option("A"), P.fnvalue(name)),
                lambda: P.cached(P.apply(P.option("A"), P.fnvalue(name)))][(i // 3) % 3]()
        which = "cache" if i % 2 == 0 else "log"
        recs, exp = [], []
        for o, fails in [({"A": 1}, False), ({"A": 0}, True), ({}, False), ({"A": 0, "Z": 1}, True), ({"A": 2}, False)]:
            P.evaluate(root, o, reenter=which, **({"cache_off": True} if which == "cache" else {"log_off": True}))
            P.evaluate(root, o, cache_off=True)
            recs.append((len(P.ops) - 2, len(P.ops) - 1))
            if fails:
                exp.append(len(P.ops) - 2)
        items.append((P.to_json(), {"fail": recs, "root": root, "root_cid": None, "raising": {name: cls},
                                    "expect_cause": {"ops": exp, "cls": cls, "position": "inside a re-entered library context"}}))
    return items


def c12_programs(rng, tier) -> List[Item]:
    items = corpus_items("C12")
    items += c12_domain_items(rng, sizes(tier, 40, 300))
    cfg = Cfg(raising=True)
    items += gen_items(rng, cfg, sizes(tier, 350, 4000), hist_failures)
    # (directed families added later come after the random stream, which therefore stays what it was)
    items += unmatched_switch_items(rng, sizes(tier, 44, 220))
    import pylib as _pylib
    items += exception_class_items(rng, len(_pylib.EXC) * len(EXC_POSITIONS))     # the full cross product, in both tiers
    items += custom_node_items(rng, sizes(tier, 60, 240))
    items += raising_member_items(rng, sizes(tier, 36, 72))
    items += reentered_context_items(rng, sizes(tier, 18, 54))
    return items


def c12_oracle(prog, meta, impl, model):
    out = []
    for i in meta.get("expect_switch_error", []):
        a = impl[i] if i < len(impl) else None
        if isinstance(a, dict) and "r" in a and not (is_err(a) and a["r"][1][-1][0] == "SwitchError"):
            out.append(("an unmatched switch did not surface as an EvaluationError whose cause chain ends in the "
                        "unmatched-switch error", i, {"options": prog["ops"][i]["o"], "got": a["r"]}))
    ec = meta.get("expect_cause")
    for i in (ec or {}).get("ops", []):
        a = impl[i] if i < len(impl) else None
        if isinstance(a, dict) and "r" in a and a["r"][0] != "fuel" and \
                not (is_err(a) and a["r"][1][0][0] in EVAL_ERRS and a["r"][1][-1][0] == ec["cls"]):
            out.append((f"an exception raised by user code ({ec['position']}) did not surface as an EvaluationError whose "
                        "cause chain ends in that exception", i, {"raised": ec["cls"], "options": prog["ops"][i]["o"], "got": a["r"]}))
    for i, j in meta.get("fail", []):
        a = impl[i]
        if "r" not in a or a["r"][0] == "fuel":
            continue
        if is_err(a):
            fr = a["r"][1]
            if fr[0][0] not in EVAL_ERRS:
                out.append(("a failure of evaluate() is not an EvaluationError", i, {"error": fr}))
            elif fr[0][1] != prog["ops"][i]["n"]:
                out.append(("the EvaluationError's source is not the object evaluate() was called on", i,
                            {"source": fr[0][1], "called_on": prog["ops"][i]["n"], "error": fr}))
            if len(fr) >= 1 and fr[-1][0] in ("EvaluationError",):
                out.append(("the cause chain does not reach the original exception", i, {"error": fr}))
            if fr[-1][0] == "KeyNotFoundError" or (len(fr) > 1 and fr[-1][0] == "KeyError" and fr[-2][0] == "KeyNotFoundError"):
                k = missing_option(a)
                o = prog["ops"][i]["o"]
                if k and ref_get(k, o)[0] == "found" and not _under_wrapper(prog):
                    out.append(("a missing-option failure names a key that is present", i, {"key": k, "options": o}))
                # the key named is one the graph or the options refer to (an Option's key, a template reference)
                if k and not k.startswith(":") and k not in json.dumps([prog["nodes"], o, prog.get("dss", [])]):
                    out.append(("a missing-option failure names a key that neither the graph nor the options mention", i,
                                {"key": k, "options": o, "error": fr}))
        if is_err(a) and meta.get("root_cid") is not None:
            st = [c for c in a.get("cache", []) if c[0] == meta["root_cid"] and c[1] == "set"]
            if st:
                out.append(("a failed evaluation stored a value in the cache of the object that failed", i,
                            {"options": prog["ops"][i]["o"], "stored_under": st[0][2], "error": a["r"]}))
        if "pred_raises_on" in meta:
            o = prog["ops"][i]["o"]
            if "A" in o and any(o["A"] == b and type(o["A"]) == type(b) for b in meta["pred_raises_on"]):
                if not is_err(a) or a["r"][1][-1][0] != meta["pred_cls"]:
                    out.append(("an exception raised by user code (a domain predicate) did not surface with its cause", i,
                                {"options": o, "raised": meta["pred_cls"], "got": a.get("r")}))
        # a failed evaluation stores nothing: every later evaluation equals its cache-off twin.  (The twin comparison is
        # stronger than C12's claim — it also sees values that a SUCCESSFUL evaluation stored under too small a key,
        # which is C01's subject: programs with the syntactic trigger of one of C01's known findings (F18 F19 F22) are
        # judged by the direct no-store oracle above only.)
        if c01_classify(prog, meta, ""):
            continue
        if not same_value_or_both_fail(impl[i], impl[j]):
            out.append(("after earlier evaluations (some failed) an evaluation differs from the same one with caching off", i,
                        {"options": prog["ops"][i]["o"], "cached": impl[i].get("r"), "uncached": impl[j].get("r")}))
    return out


def _under_wrapper(prog) -> bool:
    return any(n["k"] in ("with", "map") for n in prog["nodes"]) or any(d["options"] or d["default_options"] for d in prog.get("dss", []))


C12 = CoreProp("C12", ("eval",), c12_programs, c12_oracle, classify=c01_classify, nontrivial=nontrivial_eval,
               rule="graphs in which ~25% of the user callables raise one of six exception classes (always or on chosen "
                    "inputs), histories mixing failing and succeeding evaluations with revisits on one long-lived graph, each "
                    "paired with its cache-off twin; directed families: raising domain predicates, unmatched switches over unorderable "
                    "keys, every built-in Exception subclass x every position where user code runs")


# ================================================================== C16

SWITCH_CACHE = ["on", "DISABLED", "DISABLE", "ctx"]
SWITCH_EFFECTS = ["on", "opt", "dataset"]
SWITCH_LOG = ["on", "opt", "ctx"]


def hist_switches(rng, cfg, g: G, meta, n_dicts=3):
    P = g.P
    root = g.dataset(rng.randint(1, 3))
    fam = dict_family(rng, cfg, n_dicts)
    if cfg.effect_reads_options:
        # the option the effects read is supplied: an effect that cannot run is a failure of the evaluation, which
        # switching effects off would (legitimately) turn into a success
        fam = [sort_json(dict(o, OUT="x")) for o in fam]
    recs = []
    combos = list(itertools.product(SWITCH_CACHE, SWITCH_EFFECTS, SWITCH_LOG))
    rng.shuffle(combos)
    ds_ids = [d["id"] for d in P.dss]
    for o in fam:
        P.evaluate(root, o)
        base = len(P.ops) - 1
        for c, e, l in combos[: (len(combos) if cfg.max_depth > 90 else 8)]:
            o2 = copy.deepcopy(o)
            kw: Dict[str, Any] = {}
            lab = o2.setdefault("LABREA", {}) if (c in ("DISABLED", "DISABLE") or e == "opt" or l == "opt") else None
            if c in ("DISABLED", "DISABLE"):
                lab.setdefault("CACHE", {})[c] = rng.choice([True, 1])
            if c == "ctx":
                kw["cache_off"] = True
            if e == "opt":
                lab.setdefault("EFFECTS", {})["DISABLED"] = True
            if l == "opt":
                lab.setdefault("LOGGING", {})["DISABLED"] = True
            if l == "ctx":
                kw["log_off"] = True
            if c == "ctx" and l == "ctx":
                kw["ctx_order"] = rng.choice(["cache_first", "log_first"])
            toggled = []
            if e == "dataset":
                for d in ds_ids:
                    if not P.dss[d - 1]["effects_disabled"]:
                        P.raw_op(op="effects_disabled", ds=d, v=True)
                        toggled.append(d)
            P.evaluate(root, sort_json(o2), **kw)
            recs.append({"base": base, "op": len(P.ops) - 1, "cache": c, "effects": e, "log": l})
            for d in toggled:
                P.raw_op(op="effects_disabled", ds=d, v=False)
    meta["sw"] = recs
    meta["bodies"] = _dataset_bodies(P)


def c16_programs(rng, tier) -> List[Item]:
    items = corpus_items("C16")
    cfg = Cfg(raising=False, all_options=False, templates=False, effect_reads_options=True)
    items += gen_items(rng, cfg, sizes(tier, 120, 1500), hist_switches)
    cfgx = Cfg(raising=False, all_options=False, templates=False, max_depth=99)
    g = gen_items(rng, cfgx, sizes(tier, 15, 150), hist_switches, n_dicts=2)
    return (items + g + derived_cache_items(rng, sizes(tier, 30, 300)) + log_level_items(rng, sizes(tier, 20, 120))
            + spelled_switch_items(rng, sizes(tier, 24, 120)) + recompute_items(rng, sizes(tier, 12, 36)))


SWITCH_SPELLINGS = [(True, True), (False, False), (1, True), (0, False), ("", False), ("yes", True), (None, False),
                    ("{DEBUG}", None), ("{FLAGS.OFF}", None), ("{DEBUG2}", None)]
SWITCH_PATHS = [("cache", "CACHE.DISABLED"), ("cache", "CACHE.DISABLE"), ("effects", "EFFECTS.DISABLED"), ("log", "LOGGING.DISABLED")]


def spelled_switch_items(rng, n) -> List[Item]:
    """every switch given in every spelling an option value can have: literal truthy / falsy values and REFERENCES to
    other options (`"{DEBUG}"`, `"{FLAGS.OFF}"`, a reference to a reference) that resolve to a truthy or a falsy value:
    the switch is on exactly when the resolved value is truthy; a switch that resolves to a falsy value changes nothing
    at all (a warm evaluation is still served from the cache, without body, effect or log record)"""
    items = []
    for i in range(n):
        P = Prog()
        eff = P.fnvalue(P.free("eff1"))
        inner = P.dataset([("a", P.option("A"))], effects=[eff])
        root = inner if i % 2 == 0 else P.dataset([("x", inner), ("b", P.option("B", dflt=P.value(0)))], effects=[P.fnvalue(P.free("eff2"))])
        which, path = SWITCH_PATHS[i % len(SWITCH_PATHS)]
        recs, offs = [], []
        o = {"A": i % 3}
        P.evaluate(root, o)
        base = len(P.ops) - 1
        for spelling, truth in SWITCH_SPELLINGS:
            o2: Dict[str, Any] = copy.deepcopy(o)
            _put(o2, "LABREA." + path, spelling)
            if truth is None:
                truth = rng.random() < 0.5
                tv = rng.choice([True, 1, "on"]) if truth else rng.choice([False, 0, "", None])
                if spelling == "{DEBUG}":
                    o2["DEBUG"] = tv
                elif spelling == "{FLAGS.OFF}":
                    o2["FLAGS"] = {"OFF": tv}
                else:
                    o2["DEBUG2"] = "{DEBUG}"
                    o2["DEBUG"] = tv
            P.evaluate(root, sort_json(o2))
            rec = {"base": base, "op": len(P.ops) - 1, "cache": "on", "effects": "on", "log": "on"}
            if truth:
                rec[which] = {"cache": "DISABLED", "effects": "opt", "log": "opt"}[which]
            else:
                offs.append({"base": base, "op": len(P.ops) - 1, "spelling": spelling, "switch": path})
            recs.append(rec)
        # both spellings of the cache switch at once: the documented one (`DISABLED`) decides whenever it is present
        for v1, v2 in [(False, True), (True, False), (0, 1), (None, True), ("", "yes"), (False, "{DEBUG}")]:
            o2 = copy.deepcopy(o)
            _put(o2, "LABREA.CACHE.DISABLED", v1)
            _put(o2, "LABREA.CACHE.DISABLE", v2)
            if v2 == "{DEBUG}":
                o2["DEBUG"] = True
            P.evaluate(root, sort_json(o2))
            rec = {"base": base, "op": len(P.ops) - 1, "cache": "DISABLED" if v1 else "on", "effects": "on", "log": "on"}
            recs.append(rec)
            if not v1:
                offs.append({"base": base, "op": len(P.ops) - 1, "spelling": [v1, v2], "switch": "CACHE.DISABLED + CACHE.DISABLE"})
        items.append((P.to_json(), {"sw": recs, "bodies": _dataset_bodies(P), "sw_off": offs}))
    return items


def recompute_items(rng, n) -> List[Item]:
    """with caching disabled EVERY evaluation recomputes — also the second use of ONE dataset object bound to two
    parameters of a consumer, or reached along two routes: the body, the effects and the INFO log request occur once per
    use; with caching on, once per evaluation"""
    items = []
    for i in range(n):
        P = Prog()
        src = P.dataset([("a", P.option("A"))], effects=[P.fnvalue(P.free("eff1"))])
        body = P.node(P.node(P.ovs[-1]["dflt"])["f"])["v"]["f"]
        shape = i % 3
        if shape == 0:
            root = P.dataset([("left", src), ("right", src)])
            uses = 2
        elif shape == 1:
            root = P.funapp(P.fnvalue(P.free(f"pair{i}")), args=[src, src, src])
            uses = 3
        else:
            root = P.dataset([("l", P.dataset([("s", src)])), ("r", src)])
            uses = 2
        recs = []
        how = [("DISABLED", {"LABREA": {"CACHE": {"DISABLED": True}}}, {}), ("DISABLE", {"LABREA": {"CACHE": {"DISABLE": 1}}}, {}),
               ("ctx", {}, {"cache_off": True}), ("on", {}, {})]
        for j, (name, lab, kw) in enumerate(how):
            o = dict({"A": j}, **lab)
            P.evaluate(root, sort_json(o), **kw)
            recs.append({"op": len(P.ops) - 1, "cache": name, "body": body, "effect": "eff1", "uses": uses})
        items.append((P.to_json(), {"sw": [], "bodies": _dataset_bodies(P), "recompute": recs}))
    return items


def log_level_items(rng, n) -> List[Item]:
    """log effects of every level on datasets: with logging switched off — by the option or by the context manager —
    nothing at all is emitted, whatever the level; with logging on each runs once per body execution (oracle only:
    `LogEffect` is not part of the model)"""
    items = []
    for _ in range(n):
        P = Prog()
        levels = rng.sample([10, 20, 30, 40, 50], rng.randint(1, 3))
        effs = [P._node("logeffect", level=lv, msg=f"m{lv}") for lv in levels]
        d = P.dataset([("a", P.option("A"))], effects=effs, cache=P.new_cache(rng.choice(["memory", "nocache"])))
        root = d if rng.random() < 0.5 else P.dataset([("x", d)])
        recs = []
        for i, mode in enumerate(rng.sample(["on", "option", "context", "option", "context"], 4)):
            o: Dict[str, Any] = {"A": i}
            kw: Dict[str, Any] = {}
            if mode == "option":
                o["LABREA"] = {"LOGGING": {"DISABLED": True}}
            elif mode == "context":
                kw["log_off"] = True
            P.evaluate(root, o, **kw)
            recs.append({"op": len(P.ops) - 1, "mode": mode, "levels": sorted(lv for lv in levels if lv >= 20)})
        items.append((P.to_json(), {"sw": [], "bodies": {}, "loglevels": recs, "no_model": True}))
    return items


def derived_cache_items(rng, n) -> List[Item]:
    """`dataset.nocache` (and the other cache kinds) survive `with_options` / `with_default_options`: a derived
    dataset uses its parent's cache object, so a nocache dataset never becomes memoised by being specialised"""
    items = []
    for _ in range(n):
        P = Prog()
        kind = rng.choice(["nocache", "nocache", "memory", "scripted"])
        root = P.dataset([("a", P.option("A")), ("b", P.option("B", dflt=P.value(0)))], cache=P.new_cache(kind))
        body = P.node(P.node(P.ovs[-1]["dflt"])["f"])["v"]["f"]
        bodies = _dataset_bodies(P)      # the family shares one body and one cache
        members = [root]
        for _ in range(rng.randint(1, 3)):
            members.append(P.derive(rng.choice(members), rng.choice([{"B": 1}, {"A": 5}, {"C": 1}]), default=rng.random() < 0.4))
        recs = []
        for o in [{"A": 1}, {"A": 2, "B": 2}]:
            for m in members + members:
                P.evaluate(m, o)
                if kind == "nocache":
                    recs.append({"op": len(P.ops) - 1, "body": body})
        items.append((P.to_json(), {"sw": [], "bodies": bodies, "nocache_runs": recs}))
    return items


def c16_oracle(prog, meta, impl, model):
    out = []
    for rec in meta.get("loglevels", []):
        a = impl[rec["op"]] if rec["op"] < len(impl) else None
        if not is_ok(a):
            continue
        eff_records = [r for r in a.get("log", []) if len(r) > 2]
        if rec["mode"] != "on" and a.get("log"):
            out.append(("with logging disabled a record was emitted", rec["op"], {"how": rec["mode"], "records": a["log"][:4]}))
        if rec["mode"] == "on" and sorted(r[2] for r in eff_records) != rec["levels"]:
            out.append(("a dataset's log effects did not each emit one record for the body execution", rec["op"],
                        {"expected_levels": rec["levels"], "records": eff_records}))
    for rec in meta.get("recompute", []):
        a = impl[rec["op"]] if rec["op"] < len(impl) else None
        if not is_ok(a):
            continue
        want = rec["uses"] if rec["cache"] != "on" else 1
        nb = sum(1 for c in a.get("calls", []) if c[0] == rec["body"])
        ne = sum(1 for c in a.get("calls", []) if c[0] == rec["effect"])
        nl = sum(1 for r in a.get("log", []) if isinstance(r[0], str) and "d1" in r[0])
        if (nb, ne) != (want, want) or (rec["cache"] != "on" and nl != want):
            out.append(("with caching " + ("disabled every use recomputes" if rec["cache"] != "on" else "on a shared dataset is computed once")
                        + ": body / effect / INFO record counts differ", rec["op"],
                        {"how": rec["cache"], "expected_each": want, "body_runs": nb, "effect_runs": ne, "info_records": nl}))
    for rec in meta.get("nocache_runs", []):
        a = impl[rec["op"]] if rec["op"] < len(impl) else None
        if is_ok(a):
            if not any(c[0] == rec["body"] for c in a.get("calls", [])):
                out.append(("a dataset whose caching is switched off (nocache) was served without running its body", rec["op"],
                            {"options": prog["ops"][rec["op"]]["o"]}))
            if a.get("cache"):
                out.append(("a nocache dataset read or wrote a stored entry", rec["op"], {"backend_calls": a["cache"][:4]}))
    bodies = meta.get("bodies", {})
    eff_names = {e for b in bodies.values() for e in b["effects"]}
    n_ds = len(bodies)
    for rec in meta.get("sw_off", []):
        a, b = impl[rec["base"]], impl[rec["op"]]
        if not (is_ok(a) and is_ok(b)):
            continue
        if b.get("calls") or b.get("log") or any(c[1] == "set" for c in b.get("cache", [])):
            out.append(("a switch whose value resolves to a falsy one changed the behaviour of a warm evaluation "
                        "(it was not simply served from the cache)", rec["op"],
                        {"switch": rec["switch"], "spelling": rec["spelling"], "options": prog["ops"][rec["op"]]["o"],
                         "calls": b.get("calls", [])[:4], "log": b.get("log", [])[:2]}))
    for rec in meta.get("sw", []):
        a, b = impl[rec["base"]], impl[rec["op"]]
        if "r" not in a or "r" not in b or a["r"][0] == "fuel" or b["r"][0] == "fuel":
            continue
        desc = {k: rec[k] for k in ("cache", "effects", "log")}
        if is_ok(a) != is_ok(b) or (is_ok(a) and dumps(a["r"]) != dumps(b["r"])):
            out.append(("a feature switch changed the value of an evaluation", rec["op"],
                        {"switches": desc, "baseline": a["r"], "with_switches": b["r"]}))
            continue
        if not is_ok(b):
            continue
        if rec["cache"] != "on":
            if b.get("cache"):
                out.append(("with caching disabled a stored entry was read or written", rec["op"],
                            {"switches": desc, "backend_calls": b["cache"][:4]}))
        if rec["effects"] != "on":
            ran = [c[0] for c in b.get("calls", []) if c[0] in eff_names]
            if ran:
                out.append(("with effects disabled an effect ran", rec["op"], {"switches": desc, "effects": ran}))
        if rec["log"] != "on" and b.get("log"):
            out.append(("with logging disabled a record was emitted", rec["op"], {"switches": desc, "records": b["log"][:3]}))
        if rec["log"] == "on" and rec["cache"] != "on":
            # every dataset evaluation recomputes: one INFO request and one emitted record per body-level evaluation
            nreq = sum(1 for q in b.get("req", []) if q[0] == "log")
            if len(b.get("log", [])) != nreq:
                out.append(("log requests and emitted INFO records differ", rec["op"],
                            {"switches": desc, "requests": nreq, "emitted": len(b.get("log", []))}))
    if meta.get("loglevels") is not None:
        return out          # (log effects issue log requests of their own: the count below is about datasets' INFO lines)
    # exactly one INFO log request per dataset evaluation not served from its cache
    for i, o in enumerate(impl):
        if not is_ok(o) or "cache" not in o:
            continue
        op = prog["ops"][i]
        if op.get("cache_off") or op.get("log_off") or ref_get("LABREA", op["o"])[0] == "found":
            continue
        ds_caches = {b["cid"] for b in bodies.values()}
        stores = sum(1 for c in o["cache"] if c[1] == "set" and c[0] in ds_caches)
        nocache_runs = sum(1 for c in o.get("calls", []) for b in bodies.values() if b["cache"] == "nocache" and c[0] == b["body"])
        nreq = sum(1 for q in o.get("req", []) if q[0] == "log")
        abstract_or_overload = any(b["body"] is None for b in bodies.values()) or any(x.get("table") for x in prog.get("ovs", []))
        if not abstract_or_overload and nreq != stores + nocache_runs and all(b["cache"] in ("memory", "nocache") for b in bodies.values()):
            out.append(("the number of INFO log requests is not the number of dataset evaluations not served from cache", i,
                        {"log_requests": nreq, "stores": stores, "nocache_runs": nocache_runs}))
    return out


C16 = CoreProp("C16", ("eval", "trace", "cache", "log"), c16_programs, c16_oracle, nontrivial=nontrivial_cache,
               rule="dataset graphs x dictionaries x switch settings (cache: on/DISABLED/DISABLE/context; effects: on/option/"
                    "per-dataset; logging: on/option/context): 8 random combinations per dictionary, plus the full 36-combination "
                    "cross product on a subset; nocache datasets occur in the graphs themselves; directed families: nocache through "
                    "derivation, log effects of every level, every switch in every spelling (literals and references)")


# ================================================================== C17

FAULTS = ["behave", "miss", "lieExists", "failGet", "forget"]
FAULTS_B = FAULTS + ["lieBlind"]     # a backend that answers without looking at the request


def hist_faulty(rng, cfg, g: G, meta, n_dicts=3, exhaustive=0):
    P = g.P
    root = g.dataset(rng.randint(1, 2))
    scripted = [c for c, k in P.caches.items() if k == "scripted"]
    if not scripted:
        d = P.dss[P.ds_of(root) - 1]
        cid = P.new_cache("scripted")
        d["cache"] = cid
        scripted = [cid]
    fam = dict_family(rng, cfg, n_dicts)
    recs = []
    for o in fam + fam[:2]:
        for c in scripted:
            script = [rng.choice(FAULTS_B) for _ in range(rng.randint(0, 10))]
            P.raw_op(op="script", cache=c, faults=script)
        P.evaluate(root, o)
        P.evaluate(root, o, cache_off=True, no_recording=False)
        recs.append((len(P.ops) - 2, len(P.ops) - 1))
    meta["faulty"] = recs


def c17_exhaustive(tier) -> List[Item]:
    """all fault scripts on the first N backend calls of a two-dataset graph, warm and cold"""
    N = 4 if tier != "thorough" else 6
    items = []
    for script in itertools.product(FAULTS[:4] if N > 4 else FAULTS, repeat=N):
        P = Prog()
        c = P.new_cache("scripted")
        base = P.dataset([("a", P.option("A"))], cache=P.new_cache("memory"))
        top = P.dataset([("x", base), ("b", P.option("B", dflt=P.value(0)))], cache=c)
        recs = []
        o1, o2 = {"A": 1}, {"A": 2, "B": 5}
        P.evaluate(top, o1)
        P.raw_op(op="script", cache=c, faults=list(script))
        for o in (o1, o2, o1):
            P.evaluate(top, o)
            P.evaluate(top, o, cache_off=True)
            recs.append((len(P.ops) - 2, len(P.ops) - 1))
        items.append((P.to_json(), {"faulty": recs, "script": list(script)}))
    # the same scripts on a cached dataset used as a coalesce member (validate probes the backend before evaluate
    # does): computable (the member's value), uncomputable (the fallback's value), warm and cold
    for script in itertools.product(FAULTS_B, repeat=4):
        P = Prog()
        c = P.new_cache("scripted")
        member = P.dataset([("a", P.option("A"))], cache=c)
        top = P.coalesce([member, P.option("F", dflt=P.value("fallback"))])
        recs = []
        o1, o2 = {"A": 1}, {"F": 2}
        P.evaluate(top, o1)
        P.raw_op(op="script", cache=c, faults=list(script))
        for o in (o1, o2, o1):
            P.evaluate(top, o)
            P.evaluate(top, o, cache_off=True)
            recs.append((len(P.ops) - 2, len(P.ops) - 1))
        items.append((P.to_json(), {"faulty": recs, "script": list(script)}))
    return items


def getonly_items(rng, n) -> List[Item]:
    """a backend that implements only `get` and `set` (its `exists` is the base class's) and misbehaves on reads:
    every evaluation still equals its cache-off twin (oracle only: this backend is not part of the Lean model)"""
    items = []
    for _ in range(n):
        P = Prog()
        c = P.new_cache("getonly")
        base = P.dataset([("a", P.option("A"))], cache=P.new_cache("getonly") if rng.random() < 0.5 else P.new_cache("memory"))
        top = P.dataset([("x", base), ("b", P.option("B", dflt=P.value(0)))], cache=c)
        root = top if rng.random() < 0.6 else P.coalesce([top, P.option("F", dflt=P.value("fallback"))])
        recs = []
        dicts = [{"A": 1}, {"A": 2, "B": 5}, {"A": 1}, {"F": 3}, {"A": 2, "B": 5}]
        for o in dicts:
            P.raw_op(op="script", cache=c, faults=[rng.choice(["behave", "behave", "miss", "failGet", "forget"]) for _ in range(rng.randint(0, 6))])
            P.evaluate(root, o)
            P.evaluate(root, o, cache_off=True)
            recs.append((len(P.ops) - 2, len(P.ops) - 1))
        items.append((P.to_json(), {"faulty": recs, "no_model": True}))
    return items


def front_cache_items(rng, n) -> List[Item]:
    """a fault-injecting FRONT over a real MemoryCache (it answers the faults itself — a miss, a claimed entry, a failed
    read — and passes everything else on), on long-lived `cached(x, backend)` nodes and datasets, with ONE dictionary
    object that the caller edits in place between calls: every evaluation returns the value of the dictionary as it is"""
    items = []
    for i in range(n):
        P = Prog()
        while (P._cache + 1) % 3 != 2:
            P.new_cache("memory")
        c = P.new_cache("scripted")
        a = P.option("A")
        inner = [lambda: P.apply(a, P.fnvalue(P.free(f"g{i}"))), lambda: P.collection("list", [a, P.option("B", dflt=P.value(0))]),
                 lambda: P.template("{A}!")][i % 3]()
        root = P.cached(inner, c) if i % 4 != 3 else P.dataset([("v", inner)], cache=c)
        recs = []
        seq = [{"A": 1}, {"A": 2}, {"A": 1, "B": 5}, {"A": 3}, {"A": 2}, {"A": 3, "B": 1}]
        if i % 2:
            # (values that are not JSON — a set, a tuple — under keys nothing reads: they are part of the dictionary the
            # backend is handed, and of nothing the result depends on)
            seq = [dict(o, ZSET={"$": "set", "v": [1, 2]}, ZT={"$": "tuple", "v": [1, [2]]}) for o in seq]
        for k, o in enumerate(seq):
            script = [["behave"], ["lieExists"], ["behave", "failGet"], ["lieExists", "behave"], ["miss"], ["lieExists"]][(k + i) % 6]
            P.raw_op(op="script", cache=c, faults=script)
            P.evaluate(root, o, reuse_o=True)
            P.evaluate(root, o, cache_off=True, reuse_o=True)
            recs.append((len(P.ops) - 2, len(P.ops) - 1))
        items.append((P.to_json(), {"faulty": recs}))
    return items


def faulty_dispatch_items(rng, n) -> List[Item]:
    """the dispatch of a switch / of a dataset with a default implementation is itself a dataset on the unreliable
    backend, and the options do not allow it to be evaluated: whatever the backend claims on any of its calls
    (exhaustively over the first four), the default branch is what is returned — as with caching off"""
    items = []
    scripts = [list(x) for x in itertools.product(["lieBlind", "behave", "lieExists", "failGet"], repeat=3)]
    for i in range(n):
        P = Prog()
        c = P.new_cache("scripted")
        disp = P.dataset([("k", P.option("K"))], fn_name=P.const_fn(f"sel{i}", "x"), cache=c)
        shape = i % 3
        if shape == 0:
            root = P.switch(disp, [("x", P.value("sel-x"))], P.value("the-default"))
        elif shape == 1:
            root = P.dataset([("a", P.option("A", dflt=P.value(0)))], dispatch=disp, table=[("x", P.value("impl-x"))])
        else:
            root = P.cached(P.switch(disp, [("x", P.option("B", dflt=P.value(1)))], P.option("A", dflt=P.value("d"))))
        recs = []
        for j, o in enumerate([{}, {"A": 1}, {"K": "x"}, {}, {"K": "q"}, {"A": 2}]):
            P.raw_op(op="script", cache=c, faults=scripts[(i * 7 + j * 3) % len(scripts)])
            P.evaluate(root, o)
            P.evaluate(root, o, cache_off=True)
            recs.append((len(P.ops) - 2, len(P.ops) - 1))
        items.append((P.to_json(), {"faulty": recs}))
    return items


def c17_programs(rng, tier) -> List[Item]:
    items = corpus_items("C17")
    items += getonly_items(rng, sizes(tier, 60, 400))
    items += c17_exhaustive(tier)
    cfg = Cfg(raising=False, scripted_caches=True, all_options=False)
    items += gen_items(rng, cfg, sizes(tier, 200, 3000), hist_faulty)
    items += front_cache_items(rng, sizes(tier, 24, 120))
    items += faulty_dispatch_items(rng, sizes(tier, 48, 192))
    return items


def c17_oracle(prog, meta, impl, model):
    out = []
    for i, j in meta.get("faulty", []):
        if i >= len(impl) or j >= len(impl):
            continue            # (a shrunk replay: the pair is not part of it)
        if not same_value_or_both_fail(impl[i], impl[j]):
            out.append(("with an unreliable cache backend an evaluation does not return the value of its options", i,
                        {"options": prog["ops"][i]["o"], "with_faulty_cache": impl[i].get("r"), "expected": impl[j].get("r"),
                         "script": meta.get("script")}))
    return out


C17 = CoreProp("C17", ("cache", "eval"), c17_programs, c17_oracle, classify=c01_classify, nontrivial=lambda p, i: True,
               rule="exhaustive fault scripts over {behave, miss, lie-exists, fail-get, forget} on the first 4 (thorough: 6, "
                    "4 fault kinds) backend calls of a two-dataset graph warm and cold; random scripts of up to 10 calls on "
                    "random dataset graphs; every second scripted backend raises a CacheGetFailure SUBCLASS on behalf of an inner tier; "
                    "a get/set-only backend")


# ================================================================== C18 (the part that rests on the core model)

def hist_requests(rng, cfg, g: G, meta, n_dicts=3):
    P = g.P
    root = g.expr("any", rng.randint(1, cfg.max_depth))
    fam = dict_family(rng, cfg, n_dicts)
    recs = []
    for o in fam:
        for op in ("evaluate", "validate", "keys", "explain"):
            P.raw_op(op="reset")
            P.op(op, root, o)                        # under recording pass-through handlers
            P.raw_op(op="reset")
            P.op(op, root, o, no_recording=True)     # plain
            recs.append((len(P.ops) - 3, len(P.ops) - 1))
    # the option switches are interpreted by the default handlers, not by the nodes: with logging / caching / effects
    # switched off by an option, a pass-through handler still observes every request
    logreqs = []
    for o in fam[:2]:
        o2 = copy.deepcopy(o)
        o2["LABREA"] = {"LOGGING": {"DISABLED": True}}
        if rng.random() < 0.5:
            o2["LABREA"]["CACHE"] = {"DISABLED": True}
        P.raw_op(op="reset")
        P.evaluate(root, sort_json(o2))
        logreqs.append(len(P.ops) - 1)
    meta["switched_off"] = logreqs
    meta["passthrough"] = recs
    # substitution of one dataset used as a dependency
    subs = []
    if g.datasets:
        d = rng.choice(g.datasets)
        v = rng.choice(["SUB", 7, ["s"]])
        for o in fam[:2]:
            for outer, cache_off, log_off in ((False, False, False), (True, False, False), (True, True, False), (True, False, True), (True, True, True)):
                P.raw_op(op="reset")
                kw = {"subst": [d, v]}
                if outer:
                    kw.update(subst_outer=True, no_recording=True)
                if cache_off:
                    kw["cache_off"] = True
                if log_off:
                    kw["log_off"] = True
                if cache_off and log_off:
                    kw["ctx_order"] = rng.choice(["cache_first", "log_first"])
                P.evaluate(root, o, **kw)
                subs.append(len(P.ops) - 1)
    meta["subst"] = subs


def c18_programs(rng, tier) -> List[Item]:
    cfg = Cfg(raising=False)
    return gen_items(rng, cfg, sizes(tier, 200, 2500), hist_requests)


def c18_oracle(prog, meta, impl, model):
    out = []
    for i in meta.get("switched_off", []):
        a = impl[i]
        if not is_ok(a):
            continue
        # one log request per dataset evaluation (each runs: the cache is cold or switched off), none of them emitted
        nreq = sum(1 for q in a.get("req", []) if q[0] == "log")
        nbodies = sum(1 for c in a.get("calls", []) if c[0] in {b["body"] for b in _bodies_of(prog).values() if b["body"]})
        if a.get("log"):
            out.append(("LABREA.LOGGING.DISABLED is set but a record was emitted", i, {"records": a["log"][:3]}))
        if nbodies > 0 and nreq == 0:
            out.append(("dataset bodies ran but no log request reached the handlers (the LABREA.LOGGING.DISABLED option is for "
                        "the default handler to interpret)", i, {"bodies_run": nbodies, "log_requests": nreq}))
    for i, j in meta.get("passthrough", []):
        a, b = impl[i], impl[j]
        if "r" in a and "r" in b and a["r"][0] != "fuel" and b["r"][0] != "fuel" and dumps(a["r"]) != dumps(b["r"]):
            out.append(("pass-through handlers for all request types changed the result of an operation", i,
                        {"op": prog["ops"][i]["op"], "options": prog["ops"][i]["o"], "with_handlers": a["r"], "plain": b["r"]}))
    if isinstance(model, list):
        from pylib import canon_model_value
        for i in meta.get("subst", []):
            a, b = impl[i], model[i]
            if "r" not in a or not isinstance(b, dict) or "r" not in b or a["r"][0] == "fuel" or b["r"][0] == "fuel":
                continue
            same = a["r"][0] == b["r"][0] and (a["r"][0] != "ok" or dumps(a["r"][1]) == dumps(canon_model_value(b["r"][1])))
            if not same:
                out.append(("a handler substituting the result of one dataset was not honoured where the dataset is a dependency", i,
                            {"op": prog["ops"][i], "got": a["r"], "expected": b["r"]}))
    return out


C18 = CoreProp("C18", ("req", "log", "eval", "keys", "validate", "explain"), c18_programs, c18_oracle, nontrivial=nontrivial_eval,
               rule="random graphs: each of the four operations once under recording pass-through handlers for all nine "
                    "request types (request log compared with the model's, result compared with the plain run) and a "
                    "substituting EvaluateRequest handler for one dataset, installed inside and outside the library's own "
                    "cache/logging contexts")


ALL = {p.pid: p for p in (C01, C02, C03, C04, C05, C06, C08, C09, C10, C11, C12, C16, C17, C18)}

"""Shared machinery for the /verif checks: Lean build + audit, driver invocation, decision
protocol (VIOLATION / KNOWN-FINDING), evidence files.

Every check is `./check <Cxx> [--tier quick|thorough] [--replay FILE]`, implemented by
harness/props/<Cxx>.py exposing `SPEC` (a PropSpec) and `explore(ctx)`.
"""
from __future__ import annotations

import json
import os
import re
import subprocess
import sys
import time
from dataclasses import dataclass, field
from pathlib import Path
from typing import Any, Callable, Dict, List, Optional, Sequence

VERIF = Path(__file__).resolve().parent.parent
LEAN = VERIF / "lean"
REPO = Path(os.environ.get("VERIF_REPO", "/repo"))
PY = os.environ.get("VERIF_PYTHON", "/venv/bin/python")
OUT = VERIF / "out" if str(REPO) == "/repo" else VERIF / "out" / ("scratch-" + REPO.name)
# evidence describes /repo itself; runs against a scratch copy (seeded changes) write theirs under out/
EVIDENCE = VERIF / "evidence" if str(REPO) == "/repo" else OUT / "evidence"
STD_AXIOMS = {"propext", "Classical.choice", "Quot.sound"}
FORBIDDEN = re.compile(
    r"\bsorry\b|\badmit\b|^\s*axiom\s|native_decide|bv_decide|implemented_by|\bunsafe\s|maxHeartbeats\s+0"
)


class Infra(Exception):
    """Infrastructure failure (exit 2): never a violation."""


@dataclass
class PropSpec:
    pid: str
    lean_modules: List[str]                 # e.g. ["LabreaProps.C14"]
    model_files: List[str]                  # relative to lean/, audited for forbidden tokens
    drivers: List[str] = field(default_factory=list)   # lean_exe targets needed
    technique: str = "Lean 4 proof + differential correspondence"
    trusted_base: List[str] = field(default_factory=list)
    assumptions: List[str] = field(default_factory=list)


@dataclass
class Finding:
    """One thing that went wrong.

    kind: 'failing-input'  (a concrete input on which the implementation violates the property)
          'correspondence' (model and implementation disagree on a facet the theorems consume)
          'theorem' | 'audit' | 'translator'
    """
    kind: str
    what: str
    payload: Dict[str, Any]
    known_id: Optional[str] = None   # id in known_findings.json when this is a listed finding


@dataclass
class Ctx:
    pid: str
    tier: str
    seed: int
    t0: float
    replay: Optional[str] = None
    budget_scale: float = 1.0

    def elapsed(self) -> float:
        return time.time() - self.t0


@dataclass
class Exploration:
    findings: List[Finding] = field(default_factory=list)
    coverage: Dict[str, Any] = field(default_factory=dict)


def sh(cmd: Sequence[str], cwd: Optional[Path] = None, timeout: int = 3600, inp: Optional[str] = None,
       env: Optional[Dict[str, str]] = None):
    e = dict(os.environ)
    if env:
        e.update(env)
    return subprocess.run(list(cmd), cwd=str(cwd) if cwd else None, capture_output=True, text=True,
                          timeout=timeout, input=inp, env=e)


# ----------------------------------------------------------------------------- Lean side

def strip_comments(text: str) -> str:
    text = re.sub(r"/-.*?-/", "", text, flags=re.S)
    return re.sub(r"--.*", "", text)


def lean_build(targets: Sequence[str]) -> Optional[str]:
    """lake build; returns None on success, else the error text."""
    try:
        r = sh(["lake", "build", *targets], cwd=LEAN, timeout=3000)
    except subprocess.TimeoutExpired:
        raise Infra("lake build timed out")
    if r.returncode != 0:
        return (r.stdout + r.stderr)[-6000:]
    return None


def theorem_names(module: str) -> List[str]:
    path = LEAN / (module.replace(".", "/") + ".lean")
    text = strip_comments(path.read_text())
    ns: List[str] = []
    names: List[str] = []
    for line in text.splitlines():
        m = re.match(r"\s*namespace\s+(\S+)", line)
        if m:
            ns.append(m.group(1)); continue
        m = re.match(r"\s*end\s+(\S+)", line)
        if m and ns and ns[-1] == m.group(1):
            ns.pop(); continue
        m = re.match(r"\s*(?:@\[[^\]]*\]\s*)?(?:private\s+|protected\s+)?theorem\s+(\S+)", line)
        if m:
            names.append(".".join(ns + [m.group(1)]))
    return names


def lean_audit(spec: PropSpec) -> Dict[str, Any]:
    """forbidden-token grep + #print axioms for every theorem of the property modules."""
    problems: List[str] = []
    files = list(spec.model_files) + [m.replace(".", "/") + ".lean" for m in spec.lean_modules]
    for rel in files:
        p = LEAN / rel
        if not p.exists():
            problems.append(f"missing Lean file {rel}")
            continue
        for n, line in enumerate(strip_comments(p.read_text()).splitlines(), 1):
            if FORBIDDEN.search(line):
                problems.append(f"forbidden token in {rel}:{n}: {line.strip()[:80]}")
    thms: List[str] = []
    for m in spec.lean_modules:
        thms += theorem_names(m)
    axioms: Dict[str, List[str]] = {}
    if thms:
        src = "\n".join(f"import {m}" for m in spec.lean_modules) + "\n" + \
              "\n".join(f"#print axioms {t}" for t in thms) + "\n"
        tmp = LEAN / f".audit_{spec.pid}_{os.getpid()}.lean"
        tmp.write_text(src)
        try:
            r = sh(["lake", "env", "lean", str(tmp)], cwd=LEAN, timeout=1200)
        finally:
            tmp.unlink(missing_ok=True)
        out = r.stdout + r.stderr
        if r.returncode != 0:
            problems.append("axiom audit failed to run: " + out[-1500:])
        flat = out.replace("\n", " ")
        # theorem names may contain primes (mapM'_cons): a name is a run of non-blank characters
        for m in re.finditer(r"'(\S+?)' depends on axioms: \[([^\]]*)\]", flat):
            axioms[m.group(1)] = [a.strip() for a in m.group(2).split(",") if a.strip()]
        for m in re.finditer(r"'(\S+?)' does not depend on any axioms", flat):
            axioms[m.group(1)] = []
        for t in thms:
            if t not in axioms:
                problems.append(f"no axiom report for theorem {t}")
            else:
                extra = set(axioms[t]) - STD_AXIOMS
                if extra:
                    problems.append(f"theorem {t} depends on non-standard axioms {sorted(extra)}")
    return {"theorems": thms, "axioms": axioms, "problems": problems}


def leanchecker(modules: Sequence[str]) -> Optional[str]:
    r = sh(["lake", "env", "leanchecker", *modules], cwd=LEAN, timeout=3000)
    if r.returncode != 0:
        return (r.stdout + r.stderr)[-3000:]
    return None


def driver_path(name: str) -> Path:
    return LEAN / ".lake" / "build" / "bin" / name


def run_driver(name: str, lines: Sequence[str], args: Sequence[str] = (), timeout: int = 1800) -> List[str]:
    exe = driver_path(name)
    if not exe.exists():
        err = lean_build([name])
        if err:
            raise Infra(f"cannot build driver {name}: {err[-800:]}")
    r = sh([str(exe), *args], inp="\n".join(lines) + "\n", timeout=timeout)
    if r.returncode != 0:
        raise Infra(f"driver {name} failed: {r.stderr[-1500:]}")
    return r.stdout.splitlines()


# ----------------------------------------------------------------------------- findings

def known_findings() -> Dict[str, Any]:
    p = VERIF / "known_findings.json"
    if not p.exists():
        return {"known": [], "fixed": []}
    return json.loads(p.read_text())


def write_replay(pid: str, seed: int, n: int, finding: Finding) -> Path:
    d = OUT / pid
    d.mkdir(parents=True, exist_ok=True)
    p = d / f"{seed}-{n}.json"
    p.write_text(json.dumps({"property": pid, "kind": finding.kind, "what": finding.what,
                             **finding.payload}, indent=1, default=str))
    return p


# ----------------------------------------------------------------------------- main protocol

def main_check(spec: PropSpec, explore: Callable[[Ctx], Exploration],
               failing_input_search: Optional[Callable[[Ctx, str], List[Finding]]] = None,
               replay: Optional[Callable[[Ctx, Dict[str, Any]], int]] = None) -> int:
    import argparse
    ap = argparse.ArgumentParser()
    ap.add_argument("--tier", default=os.environ.get("VERIF_TIER", "quick"))
    ap.add_argument("--replay", default=None)
    a = ap.parse_args(sys.argv[2:] if len(sys.argv) > 1 and sys.argv[1] == spec.pid else sys.argv[1:])
    tier = a.tier if a.tier in ("quick", "thorough") else "quick"
    seed = int(os.environ.get("VERIF_SEED", "0") or 0)
    ctx = Ctx(pid=spec.pid, tier=tier, seed=seed, t0=time.time(), replay=a.replay)
    try:
        if a.replay:
            if replay is None:
                print("this property has no replay handler"); return 2
            return replay(ctx, json.loads(Path(a.replay).read_text()))
        return _run(spec, ctx, explore, failing_input_search)
    except Infra as e:
        print(f"INFRA-ERROR property={spec.pid}: {e}")
        return 2
    except subprocess.TimeoutExpired as e:
        print(f"INFRA-ERROR property={spec.pid}: timeout {e}")
        return 2


def _run(spec: PropSpec, ctx: Ctx, explore, failing_input_search) -> int:
    broken: List[Finding] = []
    d = OUT / spec.pid
    if d.exists():
        for f in d.glob(f"{ctx.seed}-*.json"):
            f.unlink()
    # 1. build the property's theorems and drivers from the current tree
    err = lean_build(list(spec.lean_modules) + list(spec.drivers))
    audit: Dict[str, Any] = {"theorems": [], "axioms": {}, "problems": []}
    if err:
        broken.append(Finding("theorem", "lake build of the property theorems failed",
                              {"modules": spec.lean_modules, "lean_error": err}))
    else:
        audit = lean_audit(spec)
        for p in audit["problems"]:
            broken.append(Finding("audit", p, {"modules": spec.lean_modules}))
        if ctx.tier == "thorough" and not broken:
            e2 = leanchecker(spec.lean_modules)
            if e2:
                broken.append(Finding("audit", "leanchecker rejected the compiled theorems", {"error": e2}))
    # 2. correspondence + property oracle on the implementation
    exp = explore(ctx) if not (err and spec.drivers) else Exploration()
    findings = list(exp.findings)
    structural = broken + [f for f in findings if f.kind in ("correspondence", "translator")]
    concrete = [f for f in findings if f.kind == "failing-input"]
    if structural and not [f for f in concrete if not f.known_id] and failing_input_search is not None:
        concrete += failing_input_search(ctx, structural[0].what)
    known = [f for f in concrete if f.known_id]
    new = [f for f in concrete if not f.known_id]
    seen_known = set()
    for f in known:
        if f.known_id in seen_known:
            continue
        seen_known.add(f.known_id)
        print(f"KNOWN-FINDING: property={spec.pid} {f.known_id}: {f.what}")
    rc = 0
    n = 0
    if new:
        for f in new[:5]:
            p = write_replay(spec.pid, ctx.seed, n, f); n += 1
            print(f"VIOLATION property={spec.pid} replay={p}")
        rc = 1
    elif structural:
        f = structural[0]
        f.payload["all_broken"] = [s.what for s in structural][:20]
        p = write_replay(spec.pid, ctx.seed, n, f)
        print(f"VIOLATION property={spec.pid} replay={p} no-failing-input-found")
        rc = 1
    # 3. evidence
    cov = dict(exp.coverage)
    thms = audit["theorems"]
    cov.setdefault("obligations", max(len(thms), 1))
    cov["discharged"] = len(thms) if not err and not audit["problems"] else 0
    cov.setdefault("checker_cmd", "cd /verif/lean && lake build " + " ".join(spec.lean_modules)
                   + " && lake env lean <#print axioms of every theorem>"
                   + (" && lake env leanchecker " + " ".join(spec.lean_modules) if ctx.tier == "thorough" else ""))
    cov.setdefault("trusted_base", ["Lean 4.33.0 kernel", "axioms: propext, Classical.choice, Quot.sound only"]
                   + spec.trusted_base)
    cov["theorems"] = thms
    cov["axioms_used"] = sorted({a for v in audit["axioms"].values() for a in v})
    cov.setdefault("samples", thms[:5] or ["(no theorem built)"])
    ev = {"property_id": spec.pid, "tier": ctx.tier, "seed": ctx.seed, "level": "proof",
          "coverage": cov, "assumptions": spec.assumptions, "wall_s": round(ctx.elapsed(), 2),
          "violations": len(new) + (1 if (structural and not new) else 0),
          "known_findings_seen": sorted({f.known_id for f in known})}
    EVIDENCE.mkdir(parents=True, exist_ok=True)
    (EVIDENCE / f"{spec.pid}.json").write_text(json.dumps(ev, indent=1, default=str))
    if rc == 0:
        print(f"OK property={spec.pid} tier={ctx.tier} seed={ctx.seed} theorems={len(thms)} "
              f"wall={ctx.elapsed():.1f}s")
    return rc

"""Implementation side of the correspondence check.

Runs inside /venv/bin/python with the repository under test first on sys.path.  Reads PDL
programs (one JSON line each) on stdin, builds the REAL labrea object graph through the public
API, runs the operation history, prints one JSON observation list per program — in the same
canonical form the Lean driver prints.  Format: harness/pdl.md.
"""
from __future__ import annotations

import copy
import functools
import json
import logging
import os
import sys
import warnings

sys.path.insert(0, os.path.dirname(os.path.abspath(__file__)))
warnings.simplefilter("ignore")

import pylib
from pylib import CALL_LOG, dec, enc, dumps

import labrea
import labrea.cache as lcache
import labrea.logging as llogging
import labrea.runtime as lruntime
from labrea import (AllOptions, Coalesce, Iter, Map, Option, Switch, Template, Value, WithDefaultOptions,
                    WithOptions, cached, case)
from labrea._missing import MISSING
from labrea.application import FunctionApplication, PartialApplication
from labrea.cache import (Cache, CacheExistsRequest, CacheGetFailure, CacheGetRequest, CacheSetRequest,
                          MemoryCache, NoCache)
from labrea.computation import CallbackEffect, ChainedEffect, Computation
from labrea.dataset import Dataset, abstractdataset, dataset
from labrea.datasetclass import datasetclass
from labrea.exceptions import (EvaluationError, InsufficientInformationError, KeyNotFoundError)
from labrea.conditional import CaseWhenError, SwitchError
from labrea.logging import Logged, LogRequest
from labrea.option import Namespace
from labrea.overload import Overloaded
from labrea.pipeline import Pipeline, PipelineStep
from labrea.type_validation import TypeValidationRequest
from labrea.types import (EvaluateRequest, Evaluatable, ExplainRequest, KeysRequest, ValidateRequest)

# ------------------------------------------------------------------ deterministic template-key order
# `find_template_keys` returns a set; which of several missing keys is reported first depends on
# the hash seed.  Canonicalise the iteration order (first occurrence), as the model does.
import confectioner.templating as _ct
import labrea.template as _lt

_orig_ftk = _ct.find_template_keys


class _OSet(set):
    def __init__(self, items):
        super().__init__(items)
        self._order = list(dict.fromkeys(items))

    def __iter__(self):
        return iter(self._order)

    def pop(self):
        x = self._order.pop()
        super().discard(x)
        return x


def _ordered_ftk(o):
    return _OSet(_ct.re.findall(_ct.TEMPLATE_KEY, o))


_ct.find_template_keys = _ordered_ftk
if getattr(_lt, "find_template_keys", None) is _orig_ftk:
    _lt.find_template_keys = _ordered_ftk

# ------------------------------------------------------------------ observation state

# ------------------------------------------------------------------ option reads
# every dotted lookup the library makes (`get_dotted_key` / `dotted_key_exists`, also from inside confectioner's
# `resolve`) is recorded: the model's `read` events are compared with it (facet "reads")
READ_LOG = []
_orig_gdk = _ct.get_dotted_key
_orig_dke = _ct.dotted_key_exists


_READ_DEPTH = [0]      # confectioner walks a dotted key by calling itself on the remainder: outermost calls only


def _rec_gdk(key, o, *a, **k):
    if _READ_DEPTH[0] == 0:
        READ_LOG.append(key)
    _READ_DEPTH[0] += 1
    try:
        return _orig_gdk(key, o, *a, **k)
    finally:
        _READ_DEPTH[0] -= 1


def _rec_dke(key, o, *a, **k):
    if _READ_DEPTH[0] == 0:
        READ_LOG.append(key)
    _READ_DEPTH[0] += 1
    try:
        return _orig_dke(key, o, *a, **k)
    finally:
        _READ_DEPTH[0] -= 1


_ct.get_dotted_key = _rec_gdk
_ct.dotted_key_exists = _rec_dke
import sys as _sys
for _mn, _m in list(_sys.modules.items()):
    if _mn.startswith("labrea") and _m is not None:
        if getattr(_m, "get_dotted_key", None) is _orig_gdk:
            _m.get_dotted_key = _rec_gdk
        if getattr(_m, "dotted_key_exists", None) is _orig_dke:
            _m.dotted_key_exists = _rec_dke

CACHE_LOG = []
_EVAL_COUNT = [0]
LOG_LOG = []
REQ_LOG = []
TCHK_LOG = []
IDS = {}          # id(obj) -> declared node id
KEEP = []         # keep objects alive so id() stays unique


class GetOnlyCache(Cache):
    """A contract-following backend that implements only `get` and `set` (so `exists` is the base class's: try `get`),
    reports what it does not hold the way `MemoryCache` does (`raise CacheGetFailure(...) from KeyError`) and follows a
    fault script on reads: miss / failGet (fail the read), forget (drop the entry and fail the read).  Not part of
    the Lean model: programs using it are judged by the property's own oracle (cached = uncached) only."""

    def __init__(self, cid):
        self.cid = cid
        self.store = {}
        self.script = []

    def get(self, evaluatable, options):
        fp = evaluatable.fingerprint(options)
        f = self.script.pop(0) if self.script else "behave"
        if f == "forget":
            self.store.pop(fp, None)
        if f in ("miss", "failGet", "forget", "lieBlind"):
            CACHE_LOG.append([self.cid, "get", json.loads(fp), "fault"])
            raise CacheGetFailure(evaluatable, options, self) from KeyError(fp)
        CACHE_LOG.append([self.cid, "get", json.loads(fp), "hit" if fp in self.store else "miss"])
        try:
            return self.store[fp]
        except KeyError as e:
            raise CacheGetFailure(evaluatable, options, self) from e

    def set(self, evaluatable, options, value):
        f = self.script.pop(0) if self.script else "behave"
        fp = evaluatable.fingerprint(options)
        if f in ("miss", "forget"):
            CACHE_LOG.append([self.cid, "set", json.loads(fp), "dropped"])
            return
        CACHE_LOG.append([self.cid, "set", json.loads(fp), "stored"])
        self.store[fp] = value


class _DelegatingBehaviour:
    """a plain mixin (not an Evaluatable) that supplies the four operations by delegation"""

    def evaluate(self, options):
        return self.inner.evaluate(options)

    def validate(self, options):
        self.inner.validate(options)

    def keys(self, options):
        return self.inner.keys(options)

    def explain(self, options=None):
        return self.inner.explain(options)


class _CustomDirect(Evaluatable):
    """a user-defined Evaluatable: the four operations are defined in the class body"""

    def __init__(self, inner):
        self.inner = inner

    def evaluate(self, options):
        return self.inner.evaluate(options)

    def validate(self, options):
        self.inner.validate(options)

    def keys(self, options):
        return self.inner.keys(options)

    def explain(self, options=None):
        return self.inner.explain(options)

    def __repr__(self):
        return f"{type(self).__name__}({self.inner!r})"


class _CustomMixin(_DelegatingBehaviour, Evaluatable):
    """... inherited from a plain mixin listed before Evaluatable"""

    def __init__(self, inner):
        self.inner = inner

    def __repr__(self):
        return f"{type(self).__name__}({self.inner!r})"


class _CustomSub(_CustomDirect):
    """... a subclass of a user-defined Evaluatable that defines nothing itself"""


class _CustomSubMixin(_CustomMixin):
    pass


CUSTOM_SHAPES = {"direct": _CustomDirect, "mixin": _CustomMixin, "sub": _CustomSub, "sub_mixin": _CustomSubMixin}


class _LogHandler(logging.Handler):
    def emit(self, record):
        msg = record.getMessage()
        if msg.startswith("Labrea: Evaluating"):
            LOG_LOG.append([_canon_msg(msg), True])
        elif msg.startswith("pdl-effect:"):
            LOG_LOG.append([msg, True, record.levelno])      # a LogEffect of the program (any level)


def _canon_msg(msg):
    if " object at 0x" in msg or msg.startswith("Labrea: Evaluating Dataset("):
        return "<derived>"
    return msg


logging.getLogger().addHandler(_LogHandler())
logging.getLogger().setLevel(logging.INFO)


def nid_of(obj):
    return IDS.get(id(obj), 0)


class LogDict(dict):
    """the `_cache` dict of an observed MemoryCache: logs every backend access with its key"""

    def __init__(self, cid):
        super().__init__()
        self.cid = cid

    def _fp(self, k):
        try:
            return json.loads(k)
        except Exception:
            return repr(k)

    def __getitem__(self, k):
        hit = dict.__contains__(self, k)
        CACHE_LOG.append([self.cid, "get", self._fp(k), "hit" if hit else "miss"])
        return dict.__getitem__(self, k)

    def get(self, k, default=None):
        hit = dict.__contains__(self, k)
        CACHE_LOG.append([self.cid, "get", self._fp(k), "hit" if hit else "miss"])
        return dict.get(self, k, default)

    def __setitem__(self, k, v):
        CACHE_LOG.append([self.cid, "set", self._fp(k), "stored"])
        dict.__setitem__(self, k, v)

    def __contains__(self, k):
        hit = dict.__contains__(self, k)
        CACHE_LOG.append([self.cid, "exists", self._fp(k), "hit" if hit else "miss"])
        return hit


class _TierExpired(CacheGetFailure):
    """a backend's own failure type: a CacheGetFailure with one more constructor argument"""

    def __init__(self, evaluatable, options, cache, age):
        super().__init__(evaluatable, options, cache)
        self.age = age


class _KeyTap(dict):
    """the `_cache` dict of the MemoryCache behind a front: remembers the key of the last access"""
    last = None

    def __contains__(self, k):
        self.last = k
        return dict.__contains__(self, k)

    def __getitem__(self, k):
        self.last = k
        return dict.__getitem__(self, k)

    def __setitem__(self, k, v):
        self.last = k
        dict.__setitem__(self, k, v)


class ScriptedCache(Cache):
    """A backend that follows the Cache contract but misbehaves per script (C17).  Every third one (by its number) is a
    fault-injecting FRONT over a real `MemoryCache`: it keeps no entries of its own, answers the scripted faults itself and
    passes every other call on to the MemoryCache behind it."""

    def __init__(self, cid):
        self.cid = cid
        self.store = {}
        self.script = []
        self._tier = NoCache()
        self._mem = MemoryCache() if cid % 3 == 2 else None
        if self._mem is not None:
            self._mem._cache = _KeyTap()

    def clear(self):
        self.store.clear()
        if self._mem is not None:
            self._mem._cache.clear()

    def _drop(self, fp):
        self.store.pop(fp, None)
        if self._mem is not None:
            self._mem._cache.pop(fp, None)

    def _next(self):
        return self.script.pop(0) if self.script else "behave"

    def _log(self, op, fp, res):
        CACHE_LOG.append([self.cid, op, json.loads(fp), res])

    def _blind(self, op):
        """a backend that answers without looking at the request: no fingerprint is computed"""
        if self.script and self.script[0] == "lieBlind":
            self.script.pop(0)
            CACHE_LOG.append([self.cid, op, None, "blind"])
            return True
        return False

    def _failure(self, evaluatable, options):
        """the contract says `get` raises CacheGetFailure: every second backend raises a SUBCLASS with a constructor
        of its own, on behalf of an inner tier it delegates to (as tiered / wrapping backends do)"""
        if self.cid % 2 == 1:
            return _TierExpired(evaluatable, options, self._tier, 3)
        return CacheGetFailure(evaluatable, options, self)

    def _peek(self):
        """the next scripted answer, without consuming it"""
        return self.script[0] if self.script else "behave"

    def get(self, evaluatable, options):
        if self._blind("get"):
            raise self._failure(evaluatable, options)
        if self._mem is not None and self._peek() in ("behave", "lieExists"):
            # passed on: the MemoryCache behind computes the fingerprint (once, as one backend call does)
            self._next()
            self._mem._cache.last = None
            try:
                v = self._mem.get(evaluatable, options)
            except CacheGetFailure as e:
                if self._mem._cache.last is None and e.__cause__ is not None:
                    # the fingerprint could not even be computed (user code below raised a KeyError, which
                    # MemoryCache.get takes for a missing entry): that failure is the outcome, as for every other call
                    raise e.__cause__
                self._log("get", self._mem._cache.last, "miss")
                raise self._failure(evaluatable, options)
            self._log("get", self._mem._cache.last, "hit")
            return v
        fp = evaluatable.fingerprint(options)
        f = self._next()
        if f in ("miss", "failGet"):
            self._log("get", fp, "fault")
            raise self._failure(evaluatable, options)
        if f == "forget":
            self._drop(fp)
            self._log("get", fp, "fault")
            raise self._failure(evaluatable, options)
        if fp in self.store:
            self._log("get", fp, "hit")
            return self.store[fp]
        self._log("get", fp, "miss")
        raise self._failure(evaluatable, options)

    def exists(self, evaluatable, options):
        if self._blind("exists"):
            return True
        if self._mem is not None and self._peek() in ("behave", "failGet"):
            self._next()
            hit = self._mem.exists(evaluatable, options)
            self._log("exists", self._mem._cache.last, "hit" if hit else "miss")
            return hit
        fp = evaluatable.fingerprint(options)
        f = self._next()
        if f == "miss":
            self._log("exists", fp, "fault")
            return False
        if f == "lieExists":
            self._log("exists", fp, "fault")
            return True
        if f == "forget":
            self._drop(fp)
            self._log("exists", fp, "fault")
            return False
        hit = fp in self.store
        self._log("exists", fp, "hit" if hit else "miss")
        return hit

    def set(self, evaluatable, options, value):
        if self._mem is not None and self._peek() not in ("miss", "forget"):
            self._next()
            self._mem.set(evaluatable, options, value)
            self._log("set", self._mem._cache.last, "stored")
            return
        fp = evaluatable.fingerprint(options)
        f = self._next()
        if f in ("miss", "forget"):
            self._log("set", fp, "fault")
            return
        self.store[fp] = value
        self._log("set", fp, "stored")


REQ_TYPES = [
    (EvaluateRequest, "evaluate", "evaluatable"),
    (ValidateRequest, "validate", "validatable"),
    (KeysRequest, "keys", "cacheable"),
    (ExplainRequest, "explain", "explainable"),
    (CacheExistsRequest, "cache_exists", "evaluatable"),
    (CacheGetRequest, "cache_get", "evaluatable"),
    (CacheSetRequest, "cache_set", "evaluatable"),
    (LogRequest, "log", None),
    (TypeValidationRequest, "tchk", None),
]


def recording_runtime(subst=None):
    """pass-through handlers for every request type, derived from the current runtime"""
    base = lruntime.current_runtime()
    hs = {}
    for T, name, attr in REQ_TYPES:
        inner = base.handlers.get(T) or lruntime._DEFAULT_HANDLERS[T]

        def rec(request, _inner=inner, _name=name, _attr=attr):
            if _attr is not None:
                target = getattr(request, _attr)
                n = nid_of(target)
                if n:
                    REQ_LOG.append([_name, n])
                if _name == "evaluate" and subst is not None and target is subst[0]:
                    return subst[1]
            elif _name == "log":
                REQ_LOG.append(["log", 0])
            return _inner(request)

        hs[T] = rec
    return base.handle(hs)


# ------------------------------------------------------------------ builder

class Graph:
    def __init__(self, prog):
        self.prog = prog
        self.nodes = {n["id"]: n for n in prog.get("nodes", [])}
        self.built = {}
        self.ovs = {o["id"]: o for o in prog.get("ovs", [])}
        self.dss = {d["id"]: d for d in prog.get("dss", [])}
        self.binds = {b["id"]: b for b in prog.get("binds", [])}
        self.cache_kinds = {int(c): k for c, k in prog.get("caches", [])}
        self.caches = {}
        self.ov_objs = {}
        self.ds_objs = {}
        self.inputs = []       # dictionaries handed to labrea (mutation facet)
        pylib.FN_TABLE.clear()
        for name, spec in prog.get("fns", []):
            pylib.FN_TABLE[name] = pylib.make_fn(name, spec)
            if spec.get("node"):
                # a function that RETURNS a labrea node (the model's value for it is the node's printed name)
                obj = Option(spec["node"]["key"]) if spec["node"]["k"] == "option" else Value(dec(spec["node"].get("v")))
                KEEP.append(obj)
                pylib.FN_TABLE[name].fn = (lambda *a, _o=obj, **k: _o)

    def reg(self, obj, nid):
        if nid and not self.nodes.get(nid, {}).get("h"):
            IDS[id(obj)] = nid
        KEEP.append(obj)
        return obj

    def cache(self, cid):
        if cid not in self.caches:
            kind = self.cache_kinds.get(cid, "memory")
            if kind == "nocache":
                c = NoCache()
            elif kind == "scripted":
                c = ScriptedCache(cid)
            elif kind == "getonly":
                c = GetOnlyCache(cid)
            else:
                c = MemoryCache()
                c._cache = LogDict(cid)
            self.caches[cid] = c
        return self.caches[cid]

    def raw_or_node(self, nid):
        """children given as plain constants where the public API accepts them"""
        n = self.nodes[nid]
        if n["k"] == "value" and not n.get("wrap"):
            return ("raw", dec(n["v"]))
        return ("node", self.node(nid))

    def child(self, nid, parent_obj_getter=None):
        return self.node(nid)

    def opts(self, j):
        d = dec(j)
        self.inputs.append(d)
        return d

    def node(self, nid):
        if nid in self.built:
            return self.built[nid]
        n = self.nodes[nid]
        k = n["k"]
        obj = None
        if k == "value":
            obj = Value(dec(n["v"]))
        elif k == "option":
            kw = {}
            dn = n.get("dflt")
            if dn is not None:
                d = self.nodes[dn]
                if d["k"] == "template" and not d.get("params") and not d.get("wrap"):
                    kw["default"] = d["t"]
                elif d["k"] == "value" and not d.get("wrap") and not isinstance(dec(d["v"]), str):
                    kw["default"] = dec(d["v"])
                elif d["k"] == "funapp" and d.get("factory"):
                    kw["default_factory"] = dec(self.nodes[d["f"]]["v"])
                else:
                    kw["default"] = self.node(dn)
            mn = n.get("dom")
            if mn is not None:
                m = self.nodes[mn]
                if m["k"] == "value" and isinstance(m["v"], dict) and m["v"].get("lf"):
                    # a helper of labrea.functions as the domain (`F.one_of(...)`, `F.none_of(...)`): for the model the
                    # predicate it documents
                    import labrea.functions as _F
                    kw["domain"] = getattr(_F, m["v"]["lf"])(*[dec(x) for x in m["v"]["lf_args"]])
                elif m["k"] == "value" and not m.get("wrap"):
                    kw["domain"] = dec(m["v"])
                else:
                    kw["domain"] = self.node(mn)
            obj = Option(n["key"], **kw)
            if dn is not None and not isinstance(kw.get('default', kw.get('default_factory')), Evaluatable):
                self.built[dn] = self.reg(obj.default, dn)
                self._reg_factory(dn)
            if mn is not None and not isinstance(kw.get('domain'), Evaluatable):
                self.built[mn] = self.reg(obj.domain, mn)
        elif k == "apply" and n.get("api_collection"):
            import labrea as _l
            spec = n["api_collection"]
            f = {"list": _l.evaluatable_list, "tuple": _l.evaluatable_tuple, "set": _l.evaluatable_set}[spec["kind"]]
            alias = {"list": _l.DatasetList, "tuple": _l.DatasetTuple, "set": _l.DatasetSet}[spec["kind"]]
            members = [self.raw_or_node(m)[1] for m in spec["es"]]
            # (the functions are documented for evaluatable members; plain constants are accepted the way `Iter` accepts them)
            obj = (alias if nid % 2 else f)(*members)
        elif k == "apply" and n.get("api_dict"):
            import labrea as _l
            obj = (_l.DatasetDict if nid % 2 else _l.evaluatable_dict)({key: self.raw_or_node(m)[1] for key, m in n["api_dict"]})
        elif k == "apply" and n.get("custom"):
            obj = CUSTOM_SHAPES[n["custom"]](self.node(n["e"]))
        elif k == "apply" and n.get("dsclass"):
            spec = n["dsclass"]
            ns = {"__annotations__": {}}
            raws = []
            for name, mid in spec["members"]:
                if name in spec.get("annotated", []):
                    # an annotated member may be a plain constant (the decorator wraps it)
                    kind, v = self.raw_or_node(mid)
                    ns["__annotations__"][name] = object
                    ns[name] = v
                    if kind == "raw":
                        raws.append((name, mid))
                else:
                    ns[name] = self.node(mid)
            bases = tuple(self.node(b) for b in spec.get("bases", []))
            import types as _types
            # (the class statement `class name(*bases): ...` followed by the decorator)
            obj = datasetclass(_types.new_class(spec["name"], bases, exec_body=lambda d, _ns=ns: d.update(_ns)))
            for name, mid in raws:
                self.built[mid] = self.reg(getattr(obj, name), mid)
        elif k == "apply":
            e = self.node(n["e"])
            kind, f = self.raw_or_node(n["f"])
            obj = e.apply(f) if n.get("via", "apply") == "apply" else (e >> f)
            if kind == "raw":
                self.built[n["f"]] = self.reg(obj.func, n["f"])
        elif k == "bind":
            e = self.node(n["e"])
            obj = e.bind(self.bind_fn(n["b"]))
        elif k == "switch":
            dnode = self.nodes[n["d"]]
            if dnode["k"] == "option" and dnode.get("bare"):
                d = dnode["key"]
            else:
                d = self.node(n["d"])
            lookup = {}
            raws = []
            for key, b in n.get("lookup", []):
                kind, v = self.raw_or_node(b)
                lookup[_hashable(dec(key))] = v
                if kind == "raw":
                    raws.append((_hashable(dec(key)), b))
            if n.get("dflt") is not None:
                kind, dv = self.raw_or_node(n["dflt"])
                obj = Switch(d, lookup, dv)
                if kind == "raw":
                    self.built[n["dflt"]] = self.reg(obj.default, n["dflt"])
            else:
                obj = Switch(d, lookup)
            if isinstance(d, str):
                self.built[n["d"]] = self.reg(obj.dispatch, n["d"])
            for key, b in raws:
                self.built[b] = self.reg(obj.lookup[key], b)
        elif k == "case":
            c = case(self.node(n["d"]))
            if n.get("ofirst") and n.get("dflt") is not None:
                dk, dv = self.raw_or_node(n["dflt"])
                c = c.otherwise(dv)
                if dk == "raw":
                    self.built[n["dflt"]] = self.reg(c.default, n["dflt"])
            for cn, rn in n.get("cases", []):
                ck, cv = self.raw_or_node(cn)
                rk, rv = self.raw_or_node(rn)
                c = c.when(cv, rv)
                if ck == "raw":
                    self.built[cn] = self.reg(c.cases[-1][0], cn)
                if rk == "raw":
                    self.built[rn] = self.reg(c.cases[-1][1], rn)
            if n.get("dflt") is not None and not n.get("ofirst"):
                dk, dv = self.raw_or_node(n["dflt"])
                c = c.otherwise(dv)
                if dk == "raw":
                    self.built[n["dflt"]] = self.reg(c.default, n["dflt"])
            obj = c
        elif k == "coalesce":
            ms = [self.raw_or_node(m) for m in n["ms"]]
            obj = Coalesce(*[v for _, v in ms])
            for (kind, _), m, real in zip(ms, n["ms"], obj.members):
                if kind == "raw":
                    self.built[m] = self.reg(real, m)
        elif k == "iter":
            es = [self.raw_or_node(m) for m in n["es"]]
            obj = Iter(*[v for _, v in es])
            for (kind, _), m, real in zip(es, n["es"], obj.evaluatables):
                if kind == "raw":
                    self.built[m] = self.reg(real, m)
        elif k == "map":
            its = {}
            raws = []
            for name, i in n["its"]:
                kind, v = self.raw_or_node(i)
                its[name] = v
                if kind == "raw":
                    raws.append((name, i))
            obj = Map(self.node(n["e"]), its)
            for name, i in raws:
                self.built[i] = self.reg(obj.iterables[name], i)
        elif k == "template":
            params = {}
            raws = []
            for name, i in n.get("params", []):
                kind, v = self.raw_or_node(i)
                params[name] = v
                if kind == "raw":
                    raws.append((name, i))
            obj = Template(n["t"], **params)
            for name, i in raws:
                self.built[i] = self.reg(obj.params[name], i)
        elif k == "with":
            p = self.opts(n["p"])
            obj = WithOptions(self.node(n["e"]), p) if n.get("force", True) else WithDefaultOptions(self.node(n["e"]), p)
        elif k == "all":
            obj = AllOptions
        elif k == "cached":
            obj = cached(self.node(n["e"]), self.cache(n["cache"]))
        elif k == "logged":
            obj = Logged(self.node(n["e"]), logging.INFO, "pdl", n["msg"])
        elif k == "computation":
            effs = [CallbackEffect(self._cb(c)) for c in n["effects"]]
            obj = Computation(self.node(n["e"]), ChainedEffect(*effs))
            for eff, c in zip(effs, n["effects"]):
                if self.nodes[c]["k"] == "value" and not self.nodes[c].get("wrap"):
                    self.built[c] = self.reg(eff.callback, c)
        elif k in ("funapp", "partial"):
            cls = FunctionApplication if k == "funapp" else PartialApplication
            fk, fv = self.raw_or_node(n["f"])
            args = [self.raw_or_node(a) for a in n.get("args", [])]
            kw = [(name, self.raw_or_node(a)) for name, a in n.get("kw", [])]
            if k == "funapp" and not args and kw and fk == "raw" and (nid % 2 == 0 or n.get("lift")) and not n.get("factory"):
                # `FunctionApplication.lift(g, **overrides)`: g has named parameters with defaults of its own, every
                # one of them overridden by a keyword (plain constants — falsy ones included — or evaluatables)
                names = [name for name, _ in kw]
                src = "def _lifted({ps}):\n    return _fn({call})\n".format(
                    ps=", ".join(f"{p}='UNUSED-DEFAULT'" for p in names), call=", ".join(f"{p}={p}" for p in names))
                ns = {"_fn": fv}
                exec(src, ns)
                obj = FunctionApplication.lift(ns["_lifted"], **{name: v for name, (_, v) in kw})
            else:
                obj = cls(fv, *[v for _, v in args], **{name: v for name, (_, v) in kw})
            if fk == "raw":
                self.built[n["f"]] = self.reg(obj.func, n["f"])
            for (kind, _), a, real in zip(args, n.get("args", []), obj.arguments.args.args):
                if kind == "raw":
                    self.built[a] = self.reg(real, a)
            for name, (kind, _) in kw:
                a = dict(n.get("kw", []))[name]
                if kind == "raw":
                    self.built[a] = self.reg(obj.arguments.kwargs.kwargs[name], a)
        elif k == "step":
            obj = PipelineStep(self.node(n["step"]))
        elif k == "pipeline":
            rest = self.node(n["rest"]) if n.get("rest") is not None else None
            obj = Pipeline(self.node(n["tail"]), rest)
        elif k == "overloaded":
            obj = self.overloaded(n["ov"])
        elif k == "dataset" and n.get("iface"):
            obj = self.interface_member(nid)
        elif k == "dataset":
            obj = self.dataset(n["ds"], nid)
        elif k == "namespace":
            if n.get("via") == "decorator":
                obj = Option.namespace(self.ns_class(nid, top=True))
                self.ns_register(nid, obj)
            else:
                members = {name: self.node(m) for name, m in n["members"]}
                obj = Namespace(n["key"], members)
        elif k == "logeffect":
            from labrea.logging import LogEffect
            obj = LogEffect(int(n["level"]), "pdl", "pdl-effect:" + n["msg"])
        else:
            raise ValueError(f"unknown node kind {k}")
        self.built[nid] = self.reg(obj, nid)
        return obj

    def ns_class(self, nid, top=False):
        """the class a namespace is declared with: annotations, plain defaults, explicit Options,
        nested classes (implicit sub-namespaces) and pre-decorated sub-namespaces"""
        n = self.nodes[nid]
        local = n["key"].split(".")[-1]
        attrs = {}
        annots = {}
        for name, m in n["members"]:
            mn = self.nodes[m]
            if mn["k"] == "namespace":
                sub = self.ns_class(m)
                if mn.get("explicit"):
                    sub = Option.namespace(mn["key"].split(".")[-1])(sub)
                attrs[name] = sub
                continue
            style = mn.get("style", "option")
            if mn["k"] == "apply":
                # `NAME = Option.auto(...) >> f`: a transformed auto member (rebuilt at every access)
                inner = self.nodes[mn["e"]]
                akw = {}
                if inner.get("dflt") is not None:
                    akw["default"] = dec(self.nodes[inner["dflt"]]["v"])
                attrs[name] = Option.auto(**akw) >> dec(self.nodes[mn["f"]]["v"])
                continue
            kw = {}
            if mn.get("dflt") is not None:
                d = self.nodes[mn["dflt"]]
                kw["default"] = d["t"] if d["k"] == "template" else (dec(d["v"]) if d["k"] == "value" else self.node(mn["dflt"]))
            if mn.get("dom") is not None:
                kw["domain"] = dec(self.nodes[mn["dom"]]["v"])
            if style == "auto":
                attrs[name] = Option.auto(**kw)
            elif style == "annot" and not kw:
                annots[name] = int
            elif style == "plain" and "domain" not in kw and "default" in kw and not isinstance(kw["default"], Evaluatable):
                attrs[name] = kw["default"]
            else:
                attrs[name] = Option(name, **kw)
        if annots:
            attrs["__annotations__"] = annots
        return type(local, (), attrs)

    def ns_register(self, nid, obj):
        n = self.nodes[nid]
        for name, m in n["members"]:
            real = obj._members[name]
            if not isinstance(real, Evaluatable):
                continue      # an _Auto member: a fresh expression is built at every access
            self.built[m] = self.reg(real, m)
            if self.nodes[m]["k"] == "namespace":
                self.ns_register(m, real)
            else:
                mn = self.nodes[m]
                if mn.get("dflt") is not None and real.default is not MISSING:
                    self.built[mn["dflt"]] = self.reg(real.default, mn["dflt"])
                if mn.get("dom") is not None and real.domain is not MISSING:
                    self.built[mn["dom"]] = self.reg(real.domain, mn["dom"])

    def _reg_factory(self, dn):
        d = self.nodes[dn]
        if d["k"] == "funapp" and d.get("factory"):
            obj = self.built[dn]
            if d["f"] not in self.built:
                self.built[d["f"]] = self.reg(obj.func, d["f"])

    def _def(self, name, params, fn):
        """a real function `def name(p=<default>, ...): return fn(p=p, ...)` whose defaults are the argument nodes"""
        defaults = [self.raw_or_node(a)[1] for _, a in params]
        src = "def {n}({ps}):\n    return _fn({args})\n".format(
            n=name, ps=", ".join(f"{p}=_d[{i}]" for i, (p, _) in enumerate(params)),
            args=", ".join(f"{p}={p}" for p, _ in params))
        ns = {"_d": defaults, "_fn": fn}
        exec(src, ns)
        f = ns[name]
        f.__module__ = "pdl"
        return f

    def interface_member(self, nid):
        """`@interface(dispatch) class I<k>: ...` built once for all its members (class statement + decorator)"""
        from labrea import interface as _interface
        spec = self.nodes[nid]["iface"]
        key = ("iface", spec["id"])
        if key not in self.built:
            dn = self.nodes[spec["dispatch"]]
            disp = dn["key"] if (dn["k"] == "option" and dn.get("bare")) else self.node(spec["dispatch"])
            ns = {"__annotations__": {}}
            for name, kind, mn in spec["members"]:
                m = self.nodes[mn]
                d = self.dss[m["ds"]]
                o = self.ovs[d["ov"]]
                if kind == "ann":
                    ns["__annotations__"][name] = object
                elif kind == "fn":
                    fa = self.nodes[o["dflt"]]
                    ns[name] = self._def(name, fa.get("kw", []), dec(self.nodes[fa["f"]]["v"]))
                else:
                    fa = self.nodes[o["dflt"]]
                    ns[name] = self.raw_or_node(fa["args"][0])[1]
            import types as _types
            cls = _interface(disp)(_types.new_class(f"I{spec['id']}", (), exec_body=lambda d_, _ns=ns: d_.update(_ns)))
            self.built[key] = cls
            for name, kind, mn in spec["members"]:
                member = getattr(cls, name)
                m = self.nodes[mn]
                d = self.dss[m["ds"]]
                self.ds_objs[m["ds"]] = member
                self.ov_objs[d["ov"]] = member.overloads
                self.built[mn] = self.reg(member, mn)
                if isinstance(disp, str):
                    self.built[spec["dispatch"]] = self.reg(member.overloads.dispatch, spec["dispatch"])
                # observe the member's own cache (whatever kind the library gave it) without replacing it
                c = getattr(member, "cache", None)
                if isinstance(c, MemoryCache) and not isinstance(c._cache, LogDict):
                    c._cache = LogDict(d["cache"])
                self.caches[d["cache"]] = c
        return self.built[nid]

    def implementation(self, group):
        """`@implements(I, alias=[...]) class Impl: ...`"""
        from labrea import implements as _implements
        some = next(iter(group["iface_nodes"].values()))
        self.node(some)
        cls_i = self.built[("iface", group["iface"])]
        ns = {}
        for name, kind, inid in group["members"]:
            if kind == "fn":
                fa = self.nodes[inid]
                ns[name] = self._def(name, fa.get("kw", []), dec(self.nodes[fa["f"]]["v"]))
            elif kind == "const":
                ns[name] = dec(self.nodes[inid]["v"])
            else:
                ns[name] = self.node(inid)
        import types as _types
        aliases = [_hashable(dec(a)) for a in group["aliases"]]
        impl = _implements(cls_i, alias=aliases if len(aliases) > 1 else aliases[0])(
            _types.new_class(f"Impl{len(KEEP)}", (), exec_body=lambda d_, _ns=ns: d_.update(_ns)))
        for name, kind, inid in group["members"]:
            if kind != "node":
                self.built[inid] = self.reg(getattr(impl, name), inid)
        KEEP.append(impl)
        return impl

    def _cb(self, nid):
        if self.nodes[nid]["k"] == "logeffect":
            # `labrea.logging.LogEffect(level, name, msg)` (not modelled: programs using it are oracle-only)
            return self.node(nid)
        kind, v = self.raw_or_node(nid)
        return v

    def bind_fn(self, bid):
        b = self.binds[bid]
        table = [(dec(k), i) for k, i in b.get("table", [])]

        def cont(v):
            # the continuation is user code: it tells `1` from `True` and `0` from `False` (type-strict table)
            for k, i in table:
                if type(k) is type(v) and _eq(k, v):
                    if i in (b.get("raw") or []):
                        # a continuation that (wrongly) returns a PLAIN value on this branch instead of an evaluatable
                        return dec(self.nodes[i]["v"])
                    return self.node(i)
            if b.get("dflt") is not None:
                return self.node(b["dflt"])
            raise pylib.EXC.get(b.get("cls") or "ValueError", ValueError)("bind continuation")

        return cont

    def overloaded(self, ovid):
        if ovid in self.ov_objs:
            return self.ov_objs[ovid]
        o = self.ovs[ovid]
        lookup = {_hashable(dec(k)): self.node(i) for k, i in o.get("table", [])}
        dflt = self.node(o["dflt"]) if o.get("dflt") is not None else MISSING
        obj = Overloaded(self.node(o["dispatch"]), lookup, dflt)
        self.ov_objs[ovid] = obj
        KEEP.append(obj)
        return obj

    def dataset(self, dsid, nid):
        """through the public factory: a generated function whose defaults are the argument nodes"""
        if dsid in self.ds_objs:
            return self.ds_objs[dsid]
        d = self.dss[dsid]
        if d.get("lazy"):
            # a derived dataset exists once its `with_options` step has run: a program that uses it earlier is malformed
            raise RuntimeError(f"derived dataset {dsid} used before the step that derives it")
        o = self.ovs[d["ov"]]
        kwargs = {}
        dn = self.nodes[o["dispatch"]]
        has_dispatch = not (dn["k"] == "value" and dn.get("v") == {"$": "missing"})
        if has_dispatch:
            kwargs["dispatch"] = dn["key"] if (dn["k"] == "option" and dn.get("bare")) else self.node(o["dispatch"])
        if d.get("options"):
            kwargs["options"] = self.opts(d["options"])
        if d.get("default_options"):
            kwargs["default_options"] = self.opts(d["default_options"])
        cbn = self.nodes[d["callback"]]
        cb_fn_nid = None
        if not cbn.get("identity"):
            step = self.nodes[cbn["tail"]]
            cb_fn_nid = step["step"]
            kind, cbv = self.raw_or_node(cb_fn_nid)
            kwargs["callback"] = cbv
        kind_cache = self.cache_kinds.get(d["cache"], "memory")
        kwargs["cache"] = self.cache(d["cache"])
        if d.get("effects"):
            kwargs["effects"] = [self._cb(c) for c in d["effects"]]
        name = d.get("name") or f"d{dsid}"
        if o.get("dflt") is not None:
            fa = self.nodes[o["dflt"]]
            fn = dec(self.nodes[fa["f"]]["v"])
            params = fa.get("kw", [])
            defaults = []
            for pname, a in params:
                kind, v = self.raw_or_node(a)
                defaults.append(v)
            src = "def {n}({ps}):\n    return _fn({args})\n".format(
                n=name, ps=", ".join(f"{p}=_d[{i}]" for i, (p, _) in enumerate(params)),
                args=", ".join(f"{p}={p}" for p, _ in params))
            ns = {"_d": defaults, "_fn": fn}
            exec(src, ns)
            definition = ns[name]
            definition.__module__ = "pdl"
            definition.__qualname__ = name
            # the three public spellings, chosen by the dataset's number: `dataset(f, **kw)`, the decorator with
            # arguments `dataset(**kw)(f)`, and one long-lived factory configured with a cache *callable* and reused
            # for several datasets (the callable is asked for a cache once per dataset)
            form = dsid % 3
            if form == 1:
                obj = dataset(**kwargs)(definition)
            elif form == 2:
                if getattr(self, "_shared_factory", None) is None:
                    self._pending_cache = None
                    self._shared_factory = dataset(cache=lambda: self._pending_cache)
                self._pending_cache = kwargs.pop("cache")
                obj = self._shared_factory(definition, **kwargs)
            else:
                obj = dataset(definition, **kwargs)
            fa_obj = obj.overloads.default
            self.built[o["dflt"]] = self.reg(fa_obj, o["dflt"])
            # the lifted function: Value(definition) — the model's `f` node
            self.built[fa["f"]] = self.reg(fa_obj.func, fa["f"])
            for (pname, a), dv in zip(params, defaults):
                if not isinstance(dv, Evaluatable):
                    self.built[a] = self.reg(fa_obj.arguments.kwargs.kwargs[pname], a)
        else:
            def _abstract():
                pass
            _abstract.__name__ = name
            _abstract.__qualname__ = name
            _abstract.__module__ = "pdl"
            obj = abstractdataset(_abstract, **kwargs)
        for eff, c in zip(obj.effects, d.get("effects") or []):
            if self.nodes[c]["k"] == "value" and not self.nodes[c].get("wrap"):
                self.built[c] = self.reg(eff.callback, c)
        if d.get("effects_disabled"):
            obj.disable_effects()
        self.ds_objs[dsid] = obj
        self.ov_objs[d["ov"]] = obj.overloads
        # registrations present from the start
        for key, i in o.get("table", []):
            _register(obj, _hashable(dec(key)), self.node(i))
        if has_dispatch and not isinstance(kwargs["dispatch"], str):
            pass
        elif has_dispatch:
            self.built[o["dispatch"]] = self.reg(obj.overloads.dispatch, o["dispatch"])
        # callback objects
        if not cbn.get("h"):
            self.built[d["callback"]] = self.reg(obj.callback, d["callback"])
        if cb_fn_nid is not None:
            self.built[cbn["tail"]] = self.reg(obj.callback.tail, cbn["tail"])
            self.built[cb_fn_nid] = self.reg(obj.callback.tail.step, cb_fn_nid)
        KEEP.append(obj)
        return obj


def _register(ds, key, impl):
    """registration through the public API: the overload decorator for datasets, register otherwise"""
    if isinstance(impl, Dataset):
        ds.overload(key)(impl)
    else:
        ds.register(key, impl)


def _hashable(x):
    if isinstance(x, list):
        return tuple(_hashable(y) for y in x)
    return x


def _scribble(x):
    """edit a value in place at every depth: containers reached through a tuple (shallowly immutable) or through the
    arguments recorded in a harness function's result are edited too"""
    if isinstance(x, dict):
        for k in list(x):
            if isinstance(x[k], (dict, list, tuple, pylib.App)):
                _scribble(x[k])
            else:
                x[k] = "scribbled"
        x["scribbled-key"] = 1
    elif isinstance(x, list):
        for i in range(len(x)):
            if isinstance(x[i], (dict, list, tuple, pylib.App)):
                _scribble(x[i])
            else:
                x[i] = "scribbled"
        x.append("scribbled")
    elif isinstance(x, tuple):
        for y in x:
            _scribble(y)
    elif isinstance(x, pylib.App):
        for y in list(x.a) + list(x.k.values()):
            _scribble(y)


def _eq(a, b):
    try:
        return bool(a == b)
    except Exception:
        return False


# ------------------------------------------------------------------ canonical errors

def err_chain(e):
    frames = []
    seen = 0
    while e is not None and seen < 2000:
        seen += 1
        if isinstance(e, EvaluationError):
            cls = type(e).__name__
            if cls not in ("EvaluationError", "KeyNotFoundError", "SwitchError", "CaseWhenError",
                           "InsufficientInformationError"):
                cls = "EvaluationError"
            frames.append([cls, nid_of(e.source), getattr(e, "key", "") if isinstance(e, KeyNotFoundError) else ""])
        else:
            frames.append([type(e).__name__, 0, ""])
        e = e.__cause__
    return frames


def canon_keys(s):
    return {"$": "set", "v": sorted(enc(x) for x in s)} if all(isinstance(x, str) for x in s) else enc(set(s))


def snapshot(x):
    return dumps(enc(x))


# ------------------------------------------------------------------ operations

def run_program(prog):
    IDS.clear()
    KEEP.clear()
    g = Graph(prog)
    # build every declared node up front (construction must not run user code: C06)
    del CALL_LOG[:]
    built_err = None
    try:
        for n in prog.get("nodes", []):
            # constants are built where they are used (the public API wraps them itself)
            if n["k"] != "value" and not n.get("h") and not (n["k"] == "template" and not n.get("params")) \
                    and not (n["k"] == "funapp" and n.get("factory")) and not n.get("nsmember") and not n.get("lazy"):
                # (a lazy node is the result of a later construction step — `with_options` — and exists once that ran)
                g.node(n["id"])
    except Exception as e:  # construction failure is an observation of its own
        built_err = [type(e).__name__, str(e)[:200]]
    construction_calls = [[name, enc(list(a)), [[k, enc(v)] for k, v in sorted(kw.items())]] for name, a, kw in CALL_LOG]
    outs = []
    first = True
    for op in prog.get("ops", []):
        if built_err is not None:
            outs.append({"build_error": built_err})
            continue
        o = run_op(g, op)
        if first:
            o["construction_calls"] = construction_calls
            first = False
        outs.append(o)
    return outs


def run_op(g, op):
    name = op["op"]
    if name in ("evaluate", "validate", "keys", "explain", "transform", "fingerprint", "set_get"):
        return run_eval_op(g, op)
    del CALL_LOG[:]
    r = _run_mutator(g, op, name)
    if CALL_LOG and name not in ("reset", "script"):
        # registering, deriving, re-dispatching … are construction steps: user code they ran is reported (C06)
        r["calls"] = [[nm, enc(list(a)), [[k, enc(v)] for k, v in sorted(kw.items())]] for nm, a, kw in CALL_LOG]
    return r


def _run_mutator(g, op, name):
    try:
        if name == "register" and op.get("impl_skip"):
            return {"ok": True}
        if name == "register" and op.get("impl_group"):
            g.implementation(op["impl_group"])
            return {"ok": True}
        if name == "register":
            # (a dataset that owns this table is built first — registering on a dataset defined but not yet used)
            for nid, nd in g.nodes.items():
                if nd["k"] == "dataset" and not nd.get("lazy") and g.dss.get(nd["ds"], {}).get("ov") == op["ov"] \
                        and g.ds_objs.get(nd["ds"]) is None:
                    g.node(nid)
            ov = g.overloaded(op["ov"])
            tgt = None
            for dsid, d in g.dss.items():
                if g.ds_objs.get(dsid) is not None and g.ds_objs[dsid].overloads is ov:
                    tgt = g.ds_objs[dsid]
            if tgt is not None:
                _register(tgt, _hashable(dec(op["key"])), g.node(op["n"]))
            else:
                ov.register(_hashable(dec(op["key"])), g.node(op["n"]))
        elif name == "set_dispatch":
            ds = g.ds_objs[op["ds"]]
            dn = g.nodes[op["dispatch"]]
            ds.set_dispatch(g.node(op["dispatch"]))
            g.ov_objs[op["ov"]] = ds.overloads
            g.dss[op["ds"]] = dict(g.dss[op["ds"]], ov=op["ov"])
        elif name == "add_effect":
            ds = g.ds_objs[op["ds"]]
            ds.add_effect(g._cb(op["n"]))
            if g.nodes[op["n"]]["k"] == "value" and not g.nodes[op["n"]].get("wrap"):
                g.built[op["n"]] = g.reg(ds.effects[-1].callback, op["n"])
        elif name == "effects_disabled":
            ds = g.ds_objs[op["ds"]]
            ds.disable_effects() if op["v"] else ds.enable_effects()
        elif name == "set_cache":
            g.ds_objs[op["ds"]].set_cache(g.cache(op["cache"]))
        elif name == "with_options":
            ds = g.ds_objs[op["ds"]]
            p = g.opts(op["p"])
            new = ds.with_default_options(p) if op.get("default") else ds.with_options(p)
            g.ds_objs[op["new"]] = new
            g.dss[op["new"]] = dict(g.dss[op["ds"]])
            if op.get("node") is not None:
                g.built[op["node"]] = g.reg(new, op["node"])
        elif name == "reset":
            for c in g.caches.values():
                if isinstance(c, MemoryCache):
                    dict.clear(c._cache)
                elif isinstance(c, ScriptedCache):
                    c.clear()
                elif isinstance(c, GetOnlyCache):
                    c.store.clear()
        elif name == "script":
            g.cache(op["cache"]).script = list(op["faults"])
        else:
            return {"ok": False, "unknown": name}
        return {"ok": True}
    except Exception as e:
        return {"ok": False, "exc": type(e).__name__}


def run_eval_op(g, op):
    name = op["op"]
    obj = g.node(op["n"])
    o = dec(op["o"])
    if op.get("reuse_o") and getattr(g, "last_o", None) is not None:
        # the caller keeps ONE dictionary object and edits it in place between calls
        g.last_o.clear()
        g.last_o.update(o)
        o = g.last_o
    g.last_o = o
    before = [snapshot(d) for d in g.inputs] + [snapshot(o)]
    del CALL_LOG[:], CACHE_LOG[:], LOG_LOG[:], REQ_LOG[:], TCHK_LOG[:], READ_LOG[:]
    subst = None
    if op.get("subst"):
        subst = (g.node(op["subst"][0]), dec(op["subst"][1]))
    ctxs = []
    if op.get("cache_off"):
        ctxs.append(lcache.disabled)
    if op.get("log_off"):
        ctxs.append(llogging.disabled)
    if op.get("ctx_order") == "log_first":
        ctxs.reverse()
    import contextlib
    with contextlib.ExitStack() as st:
        if subst is not None and op.get("subst_outer"):
            # the substituting handler is installed first (single-type form), the library's own
            # contexts are entered inside it
            target, value = subst
            prev = lruntime.current_runtime().handlers.get(EvaluateRequest) or lruntime._DEFAULT_HANDLERS[EvaluateRequest]

            def substitute(request, _prev=prev):
                if request.evaluatable is target:
                    return value
                return _prev(request)

            st.enter_context(lruntime.handle(EvaluateRequest, substitute))
            subst = None
        for c in ctxs:
            st.enter_context(c())
        if not op.get("no_recording"):
            st.enter_context(recording_runtime(subst))
        try:
            if name == "evaluate" and op.get("reenter"):
                # ONE context object of the library (`NO_CACHE = labrea.cache.disabled()` kept in a constant) entered twice,
                # nested, around the evaluation: a failure crosses both block boundaries
                ctx = lcache.disabled() if op["reenter"] == "cache" else llogging.disabled()
                rv = _SWALLOWED = object()
                with ctx:
                    with ctx:
                        rv = obj.evaluate(o)
                r = ["ok", "<the exception did not leave the block>" if rv is _SWALLOWED else enc(rv)]
            elif name == "evaluate":
                # both public entry points of an evaluation: `x.evaluate(o)` and the call syntax `x(o)`
                _EVAL_COUNT[0] += 1
                # (calling a dataset class is its constructor — no request is issued for the class itself — so those
                # are always evaluated through `evaluate`)
                rv = obj(o) if (_EVAL_COUNT[0] % 3 == 0 and not isinstance(obj, type)) else obj.evaluate(o)
                if op.get("take") is not None:
                    # a consumer that asks a lazily produced sequence for its first `take` elements only (a search loop
                    # that breaks early; a result that is never iterated)
                    it = iter(rv)
                    r = ["ok", [enc(next(it)) for _ in range(op["take"])]]
                elif op.get("mutate_result") == "lazy":
                    # a consumer of a lazily produced sequence that edits each element as soon as it gets it
                    seen = []
                    for el in rv:
                        seen.append(enc(el))
                        _scribble(el)
                    r = ["ok", seen]
                else:
                    r = ["ok", enc(rv)]
                    if op.get("mutate_result"):
                        _scribble(rv)       # the caller edits what it was given, in place and at every depth
            elif name == "validate":
                obj.validate(o)
                r = ["ok", None]
            elif name == "keys":
                ks = obj.keys(o)
                r = ["ok", canon_keys(ks)]
                if isinstance(ks, set):
                    ks.add("scribbled-key")       # the caller edits the set it was given (`needed |= ...`): it is the caller's own
            elif name == "explain":
                ks = obj.explain(o)
                r = ["ok", canon_keys(ks)]
                if isinstance(ks, set):
                    ks.add("scribbled-key")
            elif name == "fingerprint":
                r = ["ok", enc(json.loads(obj.fingerprint(o)))]
            elif name == "set_get":
                new = obj.set(o, dec(op["v"]))
                got = obj.evaluate(new)
                if "v2" in op:
                    snap = enc(new)
                    obj.set(o, dec(op["v2"]))
                    r = ["ok", [snap, enc(got), enc(o), enc(new) == snap]]
                else:
                    r = ["ok", enc([new, got])]
            else:
                r = ["ok", enc(obj.transform(dec(op["x"]), o))]
        except RecursionError as e:
            # a genuine stack overflow is outside the model (its fuel ends the run); a RecursionError that user code
            # raised on purpose and that escaped evaluate() unwrapped is a failure like any other
            r = ["err", err_chain(e)] if "scripted failure of" in str(e) else ["fuel"]
        except Exception as e:
            r = ["err", err_chain(e)]
    after = [snapshot(d) for d in g.inputs] + [snapshot(o)]
    calls = [[nm, enc(list(a)), [[k, enc(v)] for k, v in sorted(kw.items())]] for nm, a, kw in CALL_LOG]
    return {"r": r, "calls": calls, "cache": list(CACHE_LOG), "log": list(LOG_LOG),
            "req": list(REQ_LOG), "mut": [i for i, (a, b) in enumerate(zip(before, after)) if a != b],
            "reads": sorted(set(READ_LOG))}


def main():
    for line in sys.stdin:
        line = line.strip()
        if not line:
            print("null")
            continue
        prog = json.loads(line)
        try:
            outs = run_program(prog)
        except Exception as e:
            import traceback
            outs = {"runner_error": type(e).__name__ + ": " + str(e)[:300], "tb": traceback.format_exc()[-1500:]}
        print(dumps(outs))
        sys.stdout.flush()


if __name__ == "__main__":
    main()

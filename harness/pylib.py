"""Python twins of the model's value encoding and of the driver's library of user callables.

Imported by the implementation runner (inside /venv/bin/python with the repository under test on
PYTHONPATH) and by the harness itself.  Nothing here imports labrea.
"""
from __future__ import annotations

import functools
import copy
import json
from typing import Any, Dict, List, Tuple

CALL_LOG: List[Tuple[str, tuple, dict]] = []


class App:
    """Result of a free (opaque) user callable: records which body saw which arguments."""

    __slots__ = ("f", "a", "k")

    def __init__(self, f, a, k):
        self.f, self.a, self.k = f, tuple(a), dict(k)

    def _key(self):
        return (self.f, self.a, tuple(sorted(self.k.items(), key=lambda p: p[0])))

    def __eq__(self, other):
        return isinstance(other, App) and enc(self) == enc(other)

    def __hash__(self):
        return hash(self.f)

    def __repr__(self):
        return f"<app {self.f}>"


class Missing:
    pass


# ------------------------------------------------------------------ primitives (twins of Driver.lean `prim`)

def _asint(x):
    if isinstance(x, bool):
        return int(x)
    if isinstance(x, int):
        return x
    return None


def _cmp(op, n, x):
    a, b = _asint(x), _asint(n)
    if a is not None and b is not None:
        return a < b if op == "lt" else a > b
    if isinstance(x, str) and isinstance(n, str):
        return x < n if op == "lt" else x > n
    raise TypeError("unorderable")


def _add(n, x):
    a, b = _asint(x), _asint(n)
    if a is not None and b is not None:
        return a + b
    for t in (str, list, tuple):
        if isinstance(x, t) and isinstance(n, t) and not isinstance(x, bool):
            return x + n
    raise TypeError("add")


def _neg(x):
    a = _asint(x)
    if a is None:
        raise TypeError("neg")
    return -a


def _isin(c, x):
    if isinstance(c, (list, tuple, set, frozenset)):
        return any(py_eq(x, y) for y in c)
    if isinstance(c, dict):
        return isinstance(x, str) and x in c
    if isinstance(c, str):
        if isinstance(x, str):
            return x in c
        raise TypeError("in str")
    raise TypeError("not a container")


def _len(x):
    if isinstance(x, (str, list, tuple, set, frozenset, dict)):
        return len(x)
    raise TypeError("len")


def py_eq(a, b) -> bool:
    """the model's pyEq (Python == on the modelled universe)"""
    return a == b


def py_str(x) -> str:
    return str(x)


PRIMS = {
    "ident": lambda x: x,
    "const": lambda v, x: v,
    "not": lambda x: not x,
    "truthy": lambda x: bool(x),
    "eq": lambda v, x: bool(x == v),
    "ne": lambda v, x: not (x == v),
    "neg": _neg,
    "lt": lambda n, x: _cmp("lt", n, x),
    "gt": lambda n, x: _cmp("gt", n, x),
    "add": _add,
    "isin": _isin,
    "len": _len,
    "pair": lambda a, x: (a, x),
    "tostr": lambda x: str(x),
}

BUILTINS = {"py:list": list, "py:tuple": tuple, "py:set": set, "py:dict": dict}


def _identity(x):
    return x


class Named:
    """A named harness callable (so results that are callables can be encoded)."""

    def __init__(self, name, fn, log=True):
        self.__name__ = name
        self.name = name
        self.fn = fn
        self.log = log

    def __call__(self, *a, **k):
        if self.log:
            # (a snapshot: the body may edit its arguments in place afterwards)
            CALL_LOG.append((self.name, copy.deepcopy(a), copy.deepcopy(k)))
        return self.fn(*a, **k)

    def __repr__(self):
        return f"<fn {self.name}>"


EXC = {c.__name__: c for c in (ValueError, TypeError, KeyError, RuntimeError, ZeroDivisionError,
                                 LookupError, IndexError, AttributeError, ArithmeticError, OSError,
                                 NotImplementedError, AssertionError)}


class CustomError(Exception):
    pass


class SubTypeError(TypeError):
    """a user exception that derives from a built-in one"""


class SubKeyError(KeyError):
    pass


EXC["CustomError"] = CustomError
EXC["SubTypeError"] = SubTypeError
EXC["SubKeyError"] = SubKeyError


class CtorError(Exception):
    """a user exception whose constructor takes more than a message"""

    def __init__(self, msg, code=7, *, detail=None):
        super().__init__(msg)
        self.code, self.detail = code, detail


EXC["CtorError"] = CtorError
# every built-in `Exception` subclass a user function can raise with a message (RecursionError, MemoryError,
# StopIteration, OSError and its subclasses, the warnings, ... — about sixty classes)
import builtins as _builtins
for _n, _c in sorted(vars(_builtins).items()):
    if isinstance(_c, type) and issubclass(_c, Exception) and _n not in EXC and _c.__name__ == _n:
        try:
            _c("x")
        except Exception:
            continue
        EXC[_n] = _c


def make_fn(name: str, spec: Dict[str, Any] | None) -> Named:
    """twin of Driver.lean `mkBeta` for one name"""
    if spec is None:
        if name in BUILTINS:
            return Named(name, BUILTINS[name], log=False)
        if name == "py:identity":
            return Named(name, _identity, log=False)
        p = PRIMS[name]
        return Named(name, p)
    kind = spec.get("t", "free")
    r = spec.get("raise")
    cls = EXC.get(r.get("cls", "ValueError"), ValueError) if r else None
    on = [dec(v) for v in r["on"]] if r and "on" in r else None

    def body(*a, **k):
        if r is not None:
            vals = list(a) + list(k.values())
            if on is None or any(_safe_eq(x, y) for x in vals for y in on):
                raise cls(f"scripted failure of {name}")
        if kind == "const":
            return dec(spec.get("v"))
        if kind == "prim":
            return PRIMS[spec["p"]](*a)
        if spec.get("mutates") == "first":
            # a body that edits ONE of its arguments in place and then looks at the others: each argument is a value
            # of its own, so the others are as they were passed (the result records the first as it arrived)
            vals = list(a) + [k[x] for x in k]
            if not vals:
                return App(name, a, k)
            snap = copy.deepcopy(vals[0])
            _scribble_in_place(vals[0])
            if a:
                return App(name, copy.deepcopy((snap,) + tuple(a[1:])), copy.deepcopy(k))
            first = next(iter(k))
            return App(name, (), copy.deepcopy(dict(k, **{first: snap})))
        if spec.get("mutates"):
            # a body that edits what it was given, in place and at every depth (sort / pop / setdefault in real code)
            res = App(name, copy.deepcopy(a), copy.deepcopy(k))
            for x in list(a) + list(k.values()):
                _scribble_in_place(x)
            return res
        return App(name, a, k)

    return Named(name, body)


def _scribble_in_place(x):
    if isinstance(x, dict):
        for kk in list(x):
            if isinstance(x[kk], (dict, list, tuple)):
                _scribble_in_place(x[kk])
            else:
                x[kk] = "scribbled"
        x["scribbled-key"] = 1
    elif isinstance(x, list):
        for i in range(len(x)):
            if isinstance(x[i], (dict, list, tuple)):
                _scribble_in_place(x[i])
            else:
                x[i] = "scribbled"
        x.append("scribbled")
    elif isinstance(x, tuple):
        # a tuple is only shallowly immutable: the containers inside it can be edited
        for y in x:
            _scribble_in_place(y)


def _safe_eq(x, y):
    try:
        return bool(x == y)
    except Exception:
        return False


# ------------------------------------------------------------------ value encoding

FN_TABLE: Dict[str, Named] = {}


def get_fn(name: str) -> Named:
    if name not in FN_TABLE:
        FN_TABLE[name] = make_fn(name, None)
    return FN_TABLE[name]


def dec(j):
    if isinstance(j, list):
        return [dec(x) for x in j]
    if isinstance(j, dict):
        t = j.get("$")
        if t is None:
            return {k: dec(v) for k, v in j.items()}
        if t == "tuple":
            return tuple(dec(x) for x in j["v"])
        if t == "set":
            return set(dec(x) for x in j["v"])
        if t == "dict":
            return {k: dec(v) for k, v in j["v"]}
        if t == "app":
            return App(j["f"], [dec(x) for x in j["a"]], {k: dec(v) for k, v in j.get("k", [])})
        if t == "fn":
            f = get_fn(j["f"])
            a = [dec(x) for x in j.get("a", [])]
            k = {n: dec(v) for n, v in j.get("k", [])}
            return functools.partial(f, *a, **k) if (a or k) else f
        if t == "missing":
            return Missing
        raise ValueError(f"cannot decode {j}")
    return j


def enc(x):
    if x is None or isinstance(x, (bool, int, str)):
        return x
    if isinstance(x, float):
        return {"$": "float", "v": repr(x)}
    if isinstance(x, list):
        return [enc(y) for y in x]
    if isinstance(x, tuple):
        return {"$": "tuple", "v": [enc(y) for y in x]}
    if isinstance(x, (set, frozenset)):
        items = [enc(y) for y in x]
        return {"$": "set", "v": sorted(items, key=lambda z: json.dumps(z, sort_keys=True, separators=(",", ":")))}
    if isinstance(x, dict):
        if all(isinstance(k, str) for k in x):
            return {k: enc(v) for k, v in x.items()}
        return {"$": "gdict", "v": [[enc(k), enc(v)] for k, v in x.items()]}
    if isinstance(x, App):
        return {"$": "app", "f": x.f, "a": [enc(y) for y in x.a],
                "k": [[n, enc(v)] for n, v in sorted(x.k.items())]}
    if x is Missing:
        return {"$": "missing"}
    if hasattr(x, "__labrea_evaluate__") and not isinstance(x, type):
        # a labrea node handed around as a VALUE (a registry of options, a function that returns an Option …)
        return "<node %s%s>" % (type(x).__name__, (" " + x.key) if type(x).__name__ == "Option" else "")
    if type(type(x)).__name__ == "_DatasetClassMeta":
        # an instance of a dataset class: the values of its members in `dir()` order (the model's view of a dataset
        # class is the tuple of its members, see pdl.Prog.dsclass)
        from labrea.types import Evaluatable as _Ev
        cls = type(x)
        return {"$": "tuple", "v": [enc(getattr(x, k)) for k in dir(cls)
                                    if not k.startswith("__") and isinstance(getattr(cls, k, None), _Ev)]}
    if hasattr(x, "__next__") or type(x).__name__ in ("generator", "map", "filter", "zip"):
        return [enc(y) for y in x]
    if callable(x):
        return "<callable>"
    return {"$": "opaque", "t": type(x).__name__}


def canon_model_value(j):
    """normalise a value printed by the Lean driver the way `enc` prints Python values"""
    if isinstance(j, list):
        return [canon_model_value(x) for x in j]
    if isinstance(j, dict):
        t = j.get("$")
        if t in ("fn", "comp"):
            return "<callable>"
        return {k: (canon_model_value(v) if k != "$" else v) for k, v in j.items()}
    return j


def dumps(j) -> str:
    return json.dumps(j, sort_keys=True, separators=(",", ":"))

"""PropSpec (Lean modules, trusted base) of the properties that rest on the core model."""
from common import PropSpec

CORE_MODEL = ["LabreaModel/Value.lean", "LabreaModel/Dotted.lean", "LabreaModel/Resolve.lean",
              "LabreaModel/Expr.lean", "LabreaModel/Eval.lean", "LabreaModel/MonadLemmas.lean",
              "LabreaModel/EvalLemmas.lean", "LabreaModel/MixLemmas.lean", "LabreaModel/ResolveLemmas.lean",
              "LabreaModel/CacheLemmas.lean", "LabreaModel/KeysLemmas.lean", "LabreaModel/CacheTransparency.lean", "LabreaModel/Uniform.lean",
              "LabreaModel/FaultyTransparency.lean", "LabreaModel/DatasetTransparency.lean"]
CORE_TB = [
    "correspondence check: harness/gen.py generators, harness/impl_runner.py (builds the real labrea graph through the "
    "public API), lean/Driver.lean (parsing/printing glue), harness/core.py canonicalisation",
    "modelled, not verified: CPython, confectioner (get/set_dotted_key, mix, resolve, tied by the same correspondence), "
    "json.dumps injectivity on float-free JSON, str()/repr() on the restricted alphabet",
    "outside the model: floats, RecursionError (fuel), object identity/mutation of results, generators as values "
    "(Iter/Map are consumed by an enclosing apply), non-str dictionary keys",
]
CORE_ASSUME = ["user callables are deterministic functions of their arguments",
               "option dictionaries are JSON without floats; keys over the generated universe"]

SPECS = {}
for pid in ("C01", "C02", "C03", "C04", "C05", "C06", "C08", "C09", "C10", "C11", "C12", "C16", "C17"):
    SPECS[pid] = PropSpec(pid=pid, lean_modules=[f"LabreaProps.{pid}"], model_files=list(CORE_MODEL),
                          drivers=["driver"], trusted_base=list(CORE_TB), assumptions=list(CORE_ASSUME))

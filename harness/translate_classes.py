"""Translator for property C18: package sources -> lean/LabreaModel/Generated/ClassTable.lean.

Parses every `REPO/labrea/*.py` with `ast` and emits, for every class that is one of the four hook
roots (defines the labrea `__init_subclass__`) or descends from one:

    id, dotted name, table parents (bases that are table classes), and for each of the four methods
    how the class body binds it (`absent` / `def` / `= X.m'` / `= module_level_function`), whether the
    body defines `__labrea_m__`, and which hook the class's own `__init_subclass__` implements.

Anything the translator does not recognise is returned as a problem (the check turns it into
`Finding("translator", …)`), never silently defaulted:

  * an `__init_subclass__` that is not textually the canonical labrea hook,
  * a default handler that does not call `request.<field>.__labrea_m__`,
  * a hooked class with decorators / metaclass keywords / unresolvable bases / nested definition,
  * one of the eight names bound by anything else than a plain `def` (optionally `@abstractmethod`),
    an assignment `m = TableClass.m'` or `m = module_level_function`,
  * one of the eight names bound inside a compound statement of the class body,
  * an assignment `Something.evaluate = …` / `setattr(x, "evaluate", …)` outside the hooks,
  * a base shape the Lean model does not cover (more than one table parent unless all are pure roots;
    an inert package base that itself defines one of the eight names or an `__init_subclass__`).

Usage from the check:  info, problems = write_class_table(REPO, LEAN_DIR)
"""
from __future__ import annotations

import ast
from pathlib import Path
from typing import Any, Dict, List, Optional, Tuple

METHS = ["evaluate", "validate", "keys", "explain"]
SLOTS = {f"__labrea_{m}__": m for m in METHS}
NAMES = set(METHS) | set(SLOTS)
MARKER = "__labrea_wrapper__"
OUT_REL = "LabreaModel/Generated/ClassTable.lean"


class _Mod:
    def __init__(self, name: str, path: Path, tree: ast.Module):
        self.name = name
        self.path = path
        self.tree = tree
        self.imports: Dict[str, Tuple[str, str]] = {}     # local name -> (kind, dotted)  kind: pkgname|pkgmod|ext
        self.classes: Dict[str, ast.ClassDef] = {}
        self.funcs: Dict[str, ast.FunctionDef] = {}


def _dotted(e: ast.expr) -> Optional[str]:
    if isinstance(e, ast.Name):
        return e.id
    if isinstance(e, ast.Attribute):
        b = _dotted(e.value)
        return None if b is None else b + "." + e.attr
    if isinstance(e, ast.Subscript):
        return _dotted(e.value)
    return None


def _load(repo: Path) -> Dict[str, _Mod]:
    mods: Dict[str, _Mod] = {}
    for p in sorted((repo / "labrea").glob("*.py")):
        name = "labrea" if p.stem == "__init__" else "labrea." + p.stem
        tree = ast.parse(p.read_text(), filename=str(p))
        m = _Mod(name, p, tree)
        for st in ast.walk(tree):
            # imports anywhere at module level or under `if` (version switches); function-local
            # imports do not matter for class bases
            pass
        for st in _module_level(tree):
            if isinstance(st, ast.ImportFrom):
                if st.level > 0:
                    base = "labrea" + ("." + st.module if st.module else "")
                    for a in st.names:
                        local = a.asname or a.name
                        if st.module is None:
                            m.imports[local] = ("pkgmod", "labrea." + a.name)
                        else:
                            m.imports[local] = ("pkgname", base + "." + a.name)
                else:
                    for a in st.names:
                        local = a.asname or a.name
                        kind = "pkgname" if (st.module or "").split(".")[0] == "labrea" else "ext"
                        m.imports[local] = (kind, (st.module or "") + "." + a.name)
            elif isinstance(st, ast.Import):
                for a in st.names:
                    local = a.asname or a.name.split(".")[0]
                    kind = "pkgmod" if a.name.split(".")[0] == "labrea" else "ext"
                    m.imports[local] = (kind, a.name if a.asname else a.name.split(".")[0])
            elif isinstance(st, ast.ClassDef):
                m.classes[st.name] = st
            elif isinstance(st, ast.FunctionDef):
                m.funcs[st.name] = st
        mods[name] = m
    return mods


def _module_level(tree: ast.Module):
    """Module-level statements, looking through `if`/`try` used for version switches."""
    out = []

    def rec(body):
        for st in body:
            out.append(st)
            if isinstance(st, ast.If):
                rec(st.body); rec(st.orelse)
            elif isinstance(st, ast.Try):
                rec(st.body); rec(st.orelse); rec(st.finalbody)
                for h in st.handlers:
                    rec(h.body)
    rec(tree.body)
    return out


def _resolve(mods: Dict[str, _Mod], mod: _Mod, dotted: str, depth: int = 0) -> Tuple[str, str]:
    """-> ('cls', 'labrea.x.Name') | ('fn', 'labrea.x.name') | ('ext', dotted) | ('unknown', dotted)"""
    if depth > 8:
        return ("unknown", dotted)
    head, _, rest = dotted.partition(".")
    if not rest:
        if head in mod.classes:
            return ("cls", mod.name + "." + head)
        if head in mod.funcs:
            return ("fn", mod.name + "." + head)
        if head in mod.imports:
            kind, target = mod.imports[head]
            if kind == "ext":
                return ("ext", target)
            if kind == "pkgname":
                tmod, _, tname = target.rpartition(".")
                if tmod in mods:
                    return _resolve(mods, mods[tmod], tname, depth + 1)
                if target in mods:
                    return ("mod", target)
                return ("unknown", target)
            if kind == "pkgmod":
                return ("mod", target)
        import builtins
        if hasattr(builtins, head):
            return ("ext", "builtins." + head)
        return ("unknown", dotted)
    # dotted through a module alias
    if head in mod.imports:
        kind, target = mod.imports[head]
        if kind == "ext":
            return ("ext", target + "." + rest)
        tgt = target
        if kind == "pkgname":
            # `from . import runtime` is recorded as pkgmod; `from .x import y` where y is a module is rare
            tgt = target
        if tgt in mods:
            return _resolve(mods, mods[tgt], rest, depth + 1)
    if head in mod.classes:
        return ("unknown", dotted)
    return ("unknown", dotted)


def _is_canonical_hook(fn: ast.FunctionDef) -> Tuple[Optional[str], Optional[str], str]:
    """-> (method name, request class name, reason-if-not-canonical)"""
    a = fn.args
    if fn.decorator_list:
        return None, None, "decorated __init_subclass__"
    if not (len(a.args) == 1 and a.args[0].arg == "cls" and a.kwarg is not None and not a.vararg
            and not a.kwonlyargs and not a.posonlyargs):
        return None, None, "signature is not (cls, **kwargs)"
    body = [s for s in fn.body if not (isinstance(s, ast.Expr) and isinstance(s.value, ast.Constant))]
    if len(body) != 2:
        return None, None, f"body has {len(body)} statements, expected super() call + if"
    s0, s1 = body
    ok0 = (isinstance(s0, ast.Expr) and isinstance(s0.value, ast.Call)
           and isinstance(s0.value.func, ast.Attribute) and s0.value.func.attr == "__init_subclass__"
           and isinstance(s0.value.func.value, ast.Call) and isinstance(s0.value.func.value.func, ast.Name)
           and s0.value.func.value.func.id == "super" and not s0.value.func.value.args
           and not s0.value.args and len(s0.value.keywords) == 1 and s0.value.keywords[0].arg is None)
    if not ok0:
        return None, None, "first statement is not super().__init_subclass__(**kwargs)"
    if not (isinstance(s1, ast.If) and not s1.orelse):
        return None, None, "second statement is not a plain if"
    t = s1.test
    if not (isinstance(t, ast.UnaryOp) and isinstance(t.op, ast.Not) and isinstance(t.operand, ast.Call)
            and isinstance(t.operand.func, ast.Name) and t.operand.func.id == "hasattr"
            and len(t.operand.args) == 2 and not t.operand.keywords):
        return None, None, "condition is not `not hasattr(…)`"
    obj, marker = t.operand.args
    if not (isinstance(marker, ast.Constant) and marker.value == MARKER):
        return None, None, f"condition does not test the marker {MARKER!r}"
    if not (isinstance(obj, ast.Attribute) and isinstance(obj.value, ast.Name) and obj.value.id == "cls"
            and obj.attr in METHS):
        return None, None, "condition does not test `cls.<method>` for the marker"
    m = obj.attr
    b = s1.body
    if len(b) != 4:
        return None, None, "if-body is not [def wrapper, setattr marker, save slot, install wrapper]"
    w, sm, save, inst = b
    if not (isinstance(w, ast.FunctionDef) and w.name == m and not w.decorator_list
            and w.args.args and w.args.args[0].arg == "self" and len(w.body) == 1
            and isinstance(w.body[0], ast.Return)):
        return None, None, "wrapper is not a single-return function of self named like the method"
    r = w.body[0].value
    if not (isinstance(r, ast.Call) and isinstance(r.func, ast.Attribute) and r.func.attr == "run"
            and not r.args and not r.keywords and isinstance(r.func.value, ast.Call)
            and isinstance(r.func.value.func, ast.Name) and r.func.value.args
            and isinstance(r.func.value.args[0], ast.Name) and r.func.value.args[0].id == "self"):
        return None, None, "wrapper does not `return <Request>(self, …).run()`"
    req = r.func.value.func.id
    if not (isinstance(sm, ast.Expr) and isinstance(sm.value, ast.Call) and isinstance(sm.value.func, ast.Name)
            and sm.value.func.id == "setattr" and len(sm.value.args) == 3
            and isinstance(sm.value.args[0], ast.Name) and sm.value.args[0].id == m
            and isinstance(sm.value.args[1], ast.Constant) and sm.value.args[1].value == MARKER
            and isinstance(sm.value.args[2], ast.Constant) and sm.value.args[2].value is True):
        return None, None, "marker is not set with setattr(wrapper, marker, True)"

    def is_cls_attr(e, name):
        return isinstance(e, ast.Attribute) and isinstance(e.value, ast.Name) and e.value.id == "cls" and e.attr == name
    if not (isinstance(save, ast.Assign) and len(save.targets) == 1
            and is_cls_attr(save.targets[0], f"__labrea_{m}__") and is_cls_attr(save.value, m)):
        return None, None, "slot is not saved with cls.__labrea_m__ = cls.m"
    if not (isinstance(inst, ast.Assign) and len(inst.targets) == 1 and is_cls_attr(inst.targets[0], m)
            and isinstance(inst.value, ast.Name) and inst.value.id == m):
        return None, None, "wrapper is not installed with cls.m = wrapper"
    return m, req, ""


def _binds(st: ast.stmt) -> List[str]:
    """Names among NAMES bound anywhere inside a (compound) statement, not descending into
    function bodies."""
    found: List[str] = []

    def rec(n):
        if isinstance(n, (ast.FunctionDef, ast.AsyncFunctionDef, ast.ClassDef)):
            if n.name in NAMES:
                found.append(n.name)
            return
        if isinstance(n, (ast.Assign, ast.AnnAssign, ast.AugAssign)):
            targets = n.targets if isinstance(n, ast.Assign) else [n.target]
            for t in targets:
                for x in ast.walk(t):
                    if isinstance(x, ast.Name) and x.id in NAMES:
                        found.append(x.id)
        if isinstance(n, (ast.Import, ast.ImportFrom)):
            for a in n.names:
                if (a.asname or a.name) in NAMES:
                    found.append(a.asname or a.name)
        if isinstance(n, ast.Delete):
            for t in n.targets:
                if isinstance(t, ast.Name) and t.id in NAMES:
                    found.append(t.id)
        if isinstance(n, ast.NamedExpr) and isinstance(n.target, ast.Name) and n.target.id in NAMES:
            found.append(n.target.id)
        for c in ast.iter_child_nodes(n):
            rec(c)
    rec(st)
    return found


def translate(repo: Path) -> Tuple[str, Dict[str, Any], List[Dict[str, Any]]]:
    problems: List[Dict[str, Any]] = []

    def problem(what: str, **kw):
        problems.append({"what": what, **kw})

    mods = _load(repo)
    # ---- all top-level classes with resolved bases
    allcls: Dict[str, Dict[str, Any]] = {}
    for mod in mods.values():
        for cname, cd in mod.classes.items():
            full = mod.name + "." + cname
            bases = []
            for b in cd.bases:
                d = _dotted(b)
                if d is None:
                    bases.append(("unknown", ast.unparse(b)))
                else:
                    bases.append(_resolve(mods, mod, d))
            allcls[full] = {"mod": mod, "node": cd, "bases": bases, "full": full}
    # ---- roots: classes whose body has __init_subclass__
    roots: Dict[str, str] = {}
    reqs: Dict[str, str] = {}
    for full, c in allcls.items():
        for st in c["node"].body:
            if isinstance(st, (ast.FunctionDef, ast.AsyncFunctionDef)) and st.name == "__init_subclass__":
                c["has_init_subclass"] = True
                if isinstance(st, ast.AsyncFunctionDef):
                    m, req, why = None, None, "async __init_subclass__"
                else:
                    m, req, why = _is_canonical_hook(st)
                if m is None:
                    c["bad_hook"] = why
                else:
                    if "root" in c and c["root"] != m:
                        c["bad_hook"] = "two hooks in one class"
                    c["root"] = m
                    roots[full] = m
                    reqs[m] = req
                    c["hook_line"] = st.lineno
    # ---- table classes = roots + descendants
    table: Dict[str, Dict[str, Any]] = {}
    changed = True
    for full in roots:
        table[full] = allcls[full]
    while changed:
        changed = False
        for full, c in allcls.items():
            if full in table:
                continue
            if any(k == "cls" and t in table for k, t in c["bases"]):
                table[full] = c
                changed = True
    # a non-canonical hook anywhere near the table is a translator problem
    for full, c in allcls.items():
        if "bad_hook" in c:
            problem(f"unrecognised __init_subclass__ in {full}: {c['bad_hook']}", cls=full,
                    file=str(c["mod"].path), line=c["node"].lineno)
            # still treat it as a table class if it names a method, so that descendants stay visible
            for st in c["node"].body:
                if isinstance(st, ast.FunctionDef) and st.name == "__init_subclass__":
                    for n in ast.walk(st):
                        if isinstance(n, ast.Attribute) and n.attr in SLOTS and "root" not in c:
                            c["root"] = SLOTS[n.attr]
                            roots[full] = c["root"]
                            table[full] = c
    changed = True
    while changed:
        changed = False
        for full, c in allcls.items():
            if full not in table and any(k == "cls" and t in table for k, t in c["bases"]):
                table[full] = c
                changed = True
    if sorted(roots.values()) != sorted(METHS):
        problem(f"expected one hook root per method, found {sorted(roots.items())}")
    # ---- default handlers: `@XRequest.handle def h(request): … request.<f>.__labrea_m__(…)`
    for m, req in reqs.items():
        found = False
        for mod in mods.values():
            for fn in mod.funcs.values():
                for d in fn.decorator_list:
                    if (isinstance(d, ast.Attribute) and d.attr == "handle" and isinstance(d.value, ast.Name)
                            and d.value.id == req):
                        slots = sorted({n.attr for n in ast.walk(fn) if isinstance(n, ast.Attribute)
                                        and n.attr in SLOTS})
                        if slots != [f"__labrea_{m}__"]:
                            problem(f"default handler {mod.name}.{fn.name} of {req} does not call exactly "
                                    f"__labrea_{m}__ (found {slots})", file=str(mod.path), line=fn.lineno)
                        found = True
        if not found:
            problem(f"no default handler `@{req}.handle` found for method {m}")
    # ---- nested class definitions with table bases; stray assignments to the eight names
    for mod in mods.values():
        top = set(id(c) for c in mod.classes.values())
        for n in ast.walk(mod.tree):
            if isinstance(n, ast.ClassDef) and id(n) not in top:
                for b in n.bases:
                    d = _dotted(b)
                    if d is not None:
                        k, t = _resolve(mods, mod, d)
                        if k == "cls" and t in table:
                            problem(f"class {n.name} with hooked base {t} is defined in a nested scope "
                                    f"({mod.name}:{n.lineno})", file=str(mod.path), line=n.lineno)
        hook_fns = set()
        for c in mod.classes.values():
            for st in c.body:
                if isinstance(st, ast.FunctionDef) and st.name == "__init_subclass__":
                    hook_fns.add(id(st))

        def scan(n, inside_hook):
            if isinstance(n, ast.FunctionDef) and id(n) in hook_fns:
                inside_hook = True
            if not inside_hook:
                if isinstance(n, (ast.Assign, ast.AugAssign, ast.AnnAssign)):
                    targets = n.targets if isinstance(n, ast.Assign) else [n.target]
                    for t in targets:
                        if isinstance(t, ast.Attribute) and t.attr in NAMES:
                            problem(f"assignment to attribute .{t.attr} outside the hooks ({mod.name}:{n.lineno})",
                                    file=str(mod.path), line=n.lineno)
                if isinstance(n, ast.Delete):
                    for t in n.targets:
                        if isinstance(t, ast.Attribute) and t.attr in NAMES:
                            problem(f"del of attribute .{t.attr} ({mod.name}:{n.lineno})",
                                    file=str(mod.path), line=n.lineno)
                if (isinstance(n, ast.Call) and isinstance(n.func, ast.Name) and n.func.id in ("setattr", "delattr")
                        and len(n.args) >= 2):
                    a1 = n.args[1]
                    if not isinstance(a1, ast.Constant):
                        # dynamic name: only a problem when the target is a class-like object; the package
                        # uses setattr(cls/self, key, …) with data keys — accepted when the first argument
                        # is not a table class name
                        a0 = n.args[0]
                        d = _dotted(a0)
                        if d is not None:
                            k, t = _resolve(mods, mod, d)
                            if k == "cls" and t in table:
                                problem(f"{n.func.id} with a dynamic name on table class {t} ({mod.name}:{n.lineno})",
                                        file=str(mod.path), line=n.lineno)
                    elif a1.value in NAMES:
                        problem(f"{n.func.id}(…, {a1.value!r}, …) outside the hooks ({mod.name}:{n.lineno})",
                                file=str(mod.path), line=n.lineno)
            for c in ast.iter_child_nodes(n):
                scan(c, inside_hook)
        scan(mod.tree, False)
    # ---- per table class: parents, body
    ext_counter = [0]
    ext_ids: Dict[str, int] = {}
    entries: Dict[str, Dict[str, Any]] = {}
    for full, c in table.items():
        cd: ast.ClassDef = c["node"]
        mod: _Mod = c["mod"]
        e: Dict[str, Any] = {"full": full, "module": mod.name, "qualname": cd.name, "lineno": cd.lineno,
                             "parents": [], "inert_pkg": [], "inert_ext": [], "meth": {m: ("absent",) for m in METHS},
                             "def_line": {}, "slot": {m: False for m in METHS}, "slot_line": {},
                             "root": c.get("root"), "deps": []}
        if cd.decorator_list:
            problem(f"table class {full} has class decorators", cls=full, file=str(mod.path), line=cd.lineno)
        if cd.keywords:
            problem(f"table class {full} has class keywords ({', '.join(k.arg or '**' for k in cd.keywords)})",
                    cls=full, file=str(mod.path), line=cd.lineno)
        for (k, t) in c["bases"]:
            if k == "cls" and t in table:
                e["parents"].append(t)
            elif k == "cls":
                e["inert_pkg"].append(t)
            elif k == "ext":
                e["inert_ext"].append(t)
            else:
                problem(f"base {t!r} of table class {full} cannot be resolved", cls=full, file=str(mod.path),
                        line=cd.lineno)
        for st in cd.body:
            if isinstance(st, (ast.FunctionDef, ast.AsyncFunctionDef)):
                if st.name in METHS:
                    decos = [_dotted(d) or ast.unparse(d) for d in st.decorator_list]
                    if isinstance(st, ast.AsyncFunctionDef):
                        problem(f"{full}.{st.name} is async", cls=full, file=str(mod.path), line=st.lineno)
                    elif any(d.split(".")[-1] == "overload" for d in decos):
                        continue
                    elif all(d.split(".")[-1] == "abstractmethod" for d in decos):
                        e["meth"][st.name] = ("def",)
                        e["def_line"][st.name] = st.lineno
                    else:
                        problem(f"{full}.{st.name} has unrecognised decorators {decos}", cls=full,
                                file=str(mod.path), line=st.lineno)
                elif st.name in SLOTS:
                    if st.decorator_list or isinstance(st, ast.AsyncFunctionDef):
                        problem(f"{full}.{st.name} is decorated/async", cls=full, file=str(mod.path), line=st.lineno)
                    e["slot"][SLOTS[st.name]] = True
                    e["slot_line"][SLOTS[st.name]] = st.lineno
            elif isinstance(st, ast.ClassDef):
                if st.name in NAMES:
                    problem(f"{full} binds {st.name} to a nested class", cls=full, file=str(mod.path), line=st.lineno)
            elif isinstance(st, (ast.Assign, ast.AnnAssign, ast.AugAssign)):
                if isinstance(st, ast.AnnAssign) and st.value is None:
                    continue
                targets = st.targets if isinstance(st, ast.Assign) else [st.target]
                hit = [x.id for t in targets for x in ast.walk(t) if isinstance(x, ast.Name) and x.id in NAMES]
                if not hit:
                    continue
                simple = all(isinstance(t, ast.Name) for t in targets) and not isinstance(st, ast.AugAssign)
                for name in hit:
                    if not simple or name in SLOTS:
                        problem(f"{full} binds {name} by an unsupported assignment `{ast.unparse(st)}`", cls=full,
                                file=str(mod.path), line=st.lineno)
                        continue
                    v = st.value
                    d = _dotted(v) if not isinstance(v, ast.Subscript) else None
                    done = False
                    if isinstance(v, ast.Attribute) and v.attr in METHS and d is not None:
                        k, t = _resolve(mods, mod, d.rsplit(".", 1)[0])
                        if k == "cls" and t in table:
                            e["meth"][name] = ("from", t, v.attr)
                            e["def_line"][name] = st.lineno
                            if t != full:
                                e["deps"].append(t)
                            done = True
                    elif isinstance(v, ast.Name) and d is not None:
                        k, t = _resolve(mods, mod, d)
                        if k == "fn":
                            tm, _, tn = t.rpartition(".")
                            fdef = mods[tm].funcs[tn]
                            if not fdef.decorator_list:
                                if t not in ext_ids:
                                    ext_counter[0] += 1
                                    ext_ids[t] = ext_counter[0]
                                e["meth"][name] = ("ext", ext_ids[t], t)
                                e["def_line"][name] = st.lineno
                                done = True
                    if not done:
                        problem(f"{full} binds {name} by an unrecognised expression `{ast.unparse(st)}`", cls=full,
                                file=str(mod.path), line=st.lineno)
            elif isinstance(st, (ast.If, ast.For, ast.While, ast.Try, ast.With, ast.Match, ast.Import, ast.ImportFrom,
                                 ast.Delete, ast.Expr)) or hasattr(ast, "TryStar") and isinstance(st, ast.TryStar):
                b = _binds(st)
                if b:
                    problem(f"{full} binds {sorted(set(b))} inside a `{type(st).__name__}` statement of the class body",
                            cls=full, file=str(mod.path), line=st.lineno)
        entries[full] = e
    # ---- inert package bases must not define the eight names or an __init_subclass__
    def inert_ok(full: str, seen=()) -> Optional[str]:
        c = allcls.get(full)
        if c is None or full in seen:
            return None
        for st in c["node"].body:
            b = _binds(st)
            if b:
                return f"{full} binds {sorted(set(b))}"
            if isinstance(st, (ast.FunctionDef, ast.AsyncFunctionDef)) and st.name == "__init_subclass__":
                return f"{full} defines __init_subclass__"
        for (k, t) in c["bases"]:
            if k == "cls":
                r = inert_ok(t, seen + (full,))
                if r:
                    return r
        return None
    for full, e in entries.items():
        for t in e["inert_pkg"]:
            r = inert_ok(t)
            if r:
                problem(f"base {t} of {full} is not a table class but is not inert: {r}", cls=full)
        ps = e["parents"]
        if len(ps) > 1 and not all(not entries[p]["parents"] for p in ps):
            problem(f"{full} has several hooked bases {ps} that are not all pure roots: "
                    f"shape not covered by the model", cls=full)
    # ---- topological order, ids
    order: List[str] = []
    state: Dict[str, int] = {}

    def visit(full: str):
        if state.get(full) == 2:
            return
        if state.get(full) == 1:
            problem(f"cyclic dependency through {full}")
            return
        state[full] = 1
        e = entries[full]
        for p in e["parents"] + e["deps"]:
            if p in entries:
                visit(p)
        state[full] = 2
        order.append(full)
    for full in sorted(entries, key=lambda f: (entries[f]["module"] != "labrea.types", entries[f]["module"],
                                                entries[f]["lineno"])):
        visit(full)
    ids = {full: i + 1 for i, full in enumerate(order)}
    # ---- Lean text
    def q(vals):
        return "⟨" + ", ".join(vals) + "⟩"

    def tdef(e, m):
        d = e["meth"][m]
        if d[0] == "absent":
            return ".absent"
        if d[0] == "def":
            return ".def_"
        if d[0] == "from":
            return f".from_ {ids[d[1]]} .{d[2]}"
        return f".extfn {d[1]}"
    lines = ["-- GENERATED by harness/translate_classes.py from the sources under labrea/*.py. Do not edit.",
             "import LabreaModel.Hook", "", "namespace Labrea.Hook", "",
             "/-- Every class of the package that is a hook root or descends from one (bases first). -/",
             "def classTable : List Entry := ["]
    rows = []
    for full in order:
        e = entries[full]
        rows.append(
            "  { id := %d, name := \"%s\", parents := [%s],\n    meth := %s,\n    slot := %s, root := %s }" % (
                ids[full], full, ", ".join(str(ids[p]) for p in e["parents"]),
                q([tdef(e, m) for m in METHS]),
                q(["true" if e["slot"][m] else "false" for m in METHS]),
                q(["true" if e["root"] == m else "false" for m in METHS])))
    lines.append(",\n".join(rows))
    lines += ["]", "", "end Labrea.Hook", ""]
    info = {"classes": [{"id": ids[f], "full": f, "module": entries[f]["module"], "qualname": entries[f]["qualname"],
                         "lineno": entries[f]["lineno"], "parents": [ids[p] for p in entries[f]["parents"]],
                         "inert_pkg": entries[f]["inert_pkg"], "inert_ext": entries[f]["inert_ext"],
                         "meth": {m: list(entries[f]["meth"][m]) if entries[f]["meth"][m][0] != "from" else
                                  ["from", ids[entries[f]["meth"][m][1]], entries[f]["meth"][m][2]] for m in METHS},
                         "def_line": entries[f]["def_line"], "slot": entries[f]["slot"],
                         "slot_line": entries[f]["slot_line"], "root": entries[f]["root"]} for f in order],
            "ext_functions": {str(v): k for k, v in ext_ids.items()},
            "requests": reqs,
            "files": len(mods)}
    return "\n".join(lines), info, problems


def write_class_table(repo: Path, lean_dir: Path) -> Tuple[Dict[str, Any], List[Dict[str, Any]]]:
    text, info, problems = translate(repo)
    out = lean_dir / OUT_REL
    out.parent.mkdir(parents=True, exist_ok=True)
    if not out.exists() or out.read_text() != text:
        tmp = out.with_suffix(".lean.tmp")
        tmp.write_text(text)
        tmp.replace(out)
    return info, problems


if __name__ == "__main__":
    import json
    import os
    import sys
    repo = Path(os.environ.get("VERIF_REPO", "/repo"))
    lean = Path(__file__).resolve().parent.parent / "lean"
    info, problems = write_class_table(repo, lean)
    print(json.dumps({"classes": len(info["classes"]), "problems": problems}, indent=1))
    sys.exit(1 if problems else 0)

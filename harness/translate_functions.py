"""Translator for C13: labrea/functions.py  ->  lean/LabreaModel/Generated/HelperTable.lean

Parses the *current* source of `labrea/functions.py` (under `REPO`, which honours $VERIF_REPO)
with `ast` and writes, for every public name the module defines, one `Row` of the Lean table
`Labrea.Generated.helperTable`:

    name        the public name
    kind        how it is defined
                  partialStep   def h(..): return PipelineStep(partial(FN, *pos, **kw), name)
                  wrapper       def h(..): return PipelineStep(<call of another helper>, name)
                  composition   def h(..): return PipelineStep(<a + b + ...>, name)
                  decorated     def h(..): @pipeline_step def inner(x, p=..): ...; return PipelineStep(inner, name)
                  constStep     NAME = PipelineStep(Evaluatable.ensure(FN), name)
                  instance      NAME = helper(<constants>)
                  rawPartial    def partial(..): return PartialApplication(f, *args, **kwargs)
    params      the parameters (name, plain / *star / **dstar, default expression)
    capable     the parameters that may be given as an Evaluatable (e.g. an Option) and are then
                evaluated under the options at evaluation time: those that reach a parameter slot of
                a PartialApplication (which `Evaluatable.ensure`s it), an explicit
                `Evaluatable.ensure`, `evaluatable_tuple(*map(Evaluatable.ensure, p))`, or a capable
                parameter of another helper
    body        the value the step computes from its input, as a `Tm`: for `partial(FN, ...)` the
                body of FN (a lambda or a private module-level function) with its formals replaced
                by `.input` (the first formal not bound by the partial) and by the terms bound to
                the others; wrappers / compositions refer to other rows by `.stepOf name args`.

Anything the translator does not recognise is reported in `problems` (-> Finding("translator"))
and rendered as `.unknown "<why>"`, so that the Lean check of the table against the hand-written
`helperSpec` fails as well; nothing is defaulted silently.

Usage:  python translate_functions.py [--check]      (writes the file; prints problems)
"""
from __future__ import annotations

import ast
import sys
from pathlib import Path
from typing import Dict, List, Optional, Tuple

sys.path.insert(0, str(Path(__file__).resolve().parent))
from common import LEAN, REPO  # noqa: E402

OUT_FILE = LEAN / "LabreaModel" / "Generated" / "HelperTable.lean"

BINOPS = {ast.Add: "add", ast.Sub: "sub", ast.Mult: "mult", ast.Div: "div", ast.Mod: "mod",
          ast.FloorDiv: "floordiv", ast.BitAnd: "bitand", ast.BitOr: "bitor", ast.BitXor: "bitxor",
          ast.Pow: "pow", ast.LShift: "lshift", ast.RShift: "rshift", ast.MatMult: "matmult"}
CMPOPS = {ast.Eq: "eq", ast.NotEq: "noteq", ast.Lt: "lt", ast.LtE: "lte", ast.Gt: "gt", ast.GtE: "gte",
          ast.Is: "is", ast.IsNot: "isnot", ast.In: "in", ast.NotIn: "notin"}
UNOPS = {ast.USub: "usub", ast.Not: "not", ast.UAdd: "uadd", ast.Invert: "invert"}
BUILTIN_NAMES = {"dict", "bool", "len", "set", "isinstance", "getattr", "list", "tuple", "int", "str",
                 "repr", "iter", "next", "sorted", "sum", "min", "max", "abs", "callable", "type",
                 "frozenset", "zip", "enumerate", "range", "hasattr", "KeyError", "IndexError",
                 "AssertionError", "TypeError", "ValueError", "Exception"}


def lstr(s: str) -> str:
    """a Lean string literal"""
    out = []
    for ch in s:
        if ch == '"':
            out.append('\\"')
        elif ch == "\\":
            out.append("\\\\")
        elif ch == "\n":
            out.append("\\n")
        elif 32 <= ord(ch) < 127:
            out.append(ch)
        else:
            out.append("\\u{%x}" % ord(ch))
    return '"' + "".join(out) + '"'


# ---------------------------------------------------------------- Lean term constructors (strings)

def T(con: str, *args: str) -> str:
    return "(." + con + "".join(" " + a for a in args) + ")" if args else "." + con


def llist(items: List[str]) -> str:
    return "[" + ", ".join(items) + "]"


def args_term(items: List[Tuple[str, Optional[str], str]]) -> str:
    """items: (kind, key, term) with kind in pos/kw/star/dstar -> nested Args term"""
    out = ".nil"
    for kind, key, term in reversed(items):
        if kind == "kw":
            out = f"(.kw {lstr(key)} {term} {out})"
        else:
            out = f"(.{kind} {term} {out})"
    return out


class Unknown(Exception):
    pass


class Translator:
    def __init__(self, source: str):
        self.tree = ast.parse(source)
        self.problems: List[str] = []
        self.imports: Dict[str, str] = {}          # local name -> dotted global name
        self.defs: Dict[str, ast.FunctionDef] = {}  # module-level functions (last definition wins)
        self.assigns: Dict[str, ast.expr] = {}      # module-level NAME = expr
        self.order: List[str] = []
        self.skipped: List[str] = []
        self._collect()

    # ------------------------------------------------------------ module level

    def _collect(self) -> None:
        for node in self.tree.body:
            if isinstance(node, ast.Import):
                for a in node.names:
                    self.imports[a.asname or a.name.split(".")[0]] = a.name if a.asname else a.name.split(".")[0]
            elif isinstance(node, ast.ImportFrom):
                mod = ("." * node.level) + (node.module or "")
                mod = {"types": "types", "typing": "typing", "typing_extensions": "typing",
                       "._missing": "labrea._missing", ".application": "labrea.application",
                       ".pipeline": "labrea.pipeline", ".types": "labrea.types", ".": "labrea"}.get(mod, mod)
                for a in node.names:
                    self.imports[a.asname or a.name] = f"{mod}.{a.name}"
            elif isinstance(node, ast.If):
                # the `if sys.version_info < (3, 10)` import switch
                for sub in ast.walk(node):
                    if isinstance(sub, ast.ImportFrom):
                        for a in sub.names:
                            self.imports[a.asname or a.name] = f"typing.{a.name}"
            elif isinstance(node, ast.FunctionDef):
                if any(self._is_overload(d) for d in node.decorator_list):
                    continue
                if node.name in self.defs:
                    self.problems.append(f"{node.name}: defined twice (line {node.lineno})")
                self.defs[node.name] = node
                if node.name not in self.order:
                    self.order.append(node.name)
            elif isinstance(node, ast.Assign):
                if len(node.targets) == 1 and isinstance(node.targets[0], ast.Name):
                    name = node.targets[0].id
                    if self._is_typevar(node.value):
                        self.skipped.append(name)
                        continue
                    self.assigns[name] = node.value
                    if name not in self.order:
                        self.order.append(name)
                elif len(node.targets) == 1 and isinstance(node.targets[0], ast.Attribute) \
                        and node.targets[0].attr == "__doc__":
                    continue
                else:
                    self.problems.append(f"line {node.lineno}: unrecognised module-level assignment")
            elif isinstance(node, ast.ClassDef):
                if node.name.startswith("_"):
                    self.skipped.append(node.name)
                else:
                    self.problems.append(f"{node.name}: public class definitions are not translated")
            elif isinstance(node, ast.Expr) and isinstance(node.value, ast.Constant):
                continue
            else:
                self.problems.append(f"line {node.lineno}: unrecognised module-level statement "
                                     f"{type(node).__name__}")

    @staticmethod
    def _is_overload(d: ast.expr) -> bool:
        return (isinstance(d, ast.Attribute) and d.attr == "overload") or \
               (isinstance(d, ast.Name) and d.id == "overload")

    @staticmethod
    def _is_typevar(e: ast.expr) -> bool:
        return isinstance(e, ast.Call) and isinstance(e.func, ast.Name) and e.func.id in ("TypeVar", "ParamSpec")

    def public_names(self) -> List[str]:
        return [n for n in self.order if not n.startswith("_")]

    # ------------------------------------------------------------ names

    def dotted(self, e: ast.expr) -> Optional[str]:
        """a.b.c as a dotted global name (resolving the import at the root), or None"""
        parts = []
        while isinstance(e, ast.Attribute):
            parts.append(e.attr)
            e = e.value
        if isinstance(e, ast.Name):
            root = e.id
            if root in self.imports:
                return ".".join([self.imports[root]] + parts[::-1])
        return None

    def resolve_name(self, name: str, scope: Dict[str, str]) -> str:
        """a bare name in expression position -> Tm"""
        if name in scope:
            return scope[name]
        if name in self.defs or name in self.assigns:
            if name.startswith("_"):
                raise Unknown(f"private module-level name {name} used as a value")
            return T("stepOf", lstr(name), ".nil") if name in self.assigns else T("glob", lstr("labrea.functions." + name))
        if name in self.imports:
            g = self.imports[name]
            if g == "labrea._missing.MISSING":
                return ".missing"
            return T("glob", lstr(g))
        if name in BUILTIN_NAMES:
            return T("glob", lstr("builtins." + name))
        raise Unknown(f"unresolved name {name}")

    # ------------------------------------------------------------ expressions (value level)

    def expr(self, e: ast.expr, scope: Dict[str, str]) -> str:
        if isinstance(e, ast.Constant):
            v = e.value
            if v is None:
                return ".none"
            if isinstance(v, bool):
                return T("bool", "true" if v else "false")
            if isinstance(v, int):
                return T("int", f"({v})" if v < 0 else str(v))
            if isinstance(v, str):
                return T("str", lstr(v))
            raise Unknown(f"constant {v!r}")
        if isinstance(e, ast.Name):
            return self.resolve_name(e.id, scope)
        if isinstance(e, ast.Attribute):
            g = self.dotted(e)
            if g is not None:
                return T("glob", lstr(g))
            return T("attr", self.expr(e.value, scope), lstr(e.attr))
        if isinstance(e, ast.BinOp):
            if type(e.op) not in BINOPS:
                raise Unknown(f"binary operator {type(e.op).__name__}")
            return T("binop", lstr(BINOPS[type(e.op)]), self.expr(e.left, scope), self.expr(e.right, scope))
        if isinstance(e, ast.UnaryOp):
            return T("unop", lstr(UNOPS[type(e.op)]), self.expr(e.operand, scope))
        if isinstance(e, ast.Compare):
            if len(e.ops) != 1:
                raise Unknown("chained comparison")
            return T("binop", lstr(CMPOPS[type(e.ops[0])]), self.expr(e.left, scope),
                     self.expr(e.comparators[0], scope))
        if isinstance(e, ast.IfExp):
            return T("ite", self.expr(e.test, scope), self.expr(e.body, scope), self.expr(e.orelse, scope))
        if isinstance(e, ast.Subscript):
            return T("index", self.expr(e.value, scope), self.expr(e.slice, scope))
        if isinstance(e, ast.Tuple):
            return T("tuple", self.call_args(e.elts, [], scope))
        if isinstance(e, ast.Dict):
            items = []
            for k, v in zip(e.keys, e.values):
                if k is not None:
                    raise Unknown("dict display with explicit keys")
                items.append(("dstar", None, self.expr(v, scope)))
            return T("dictOf", args_term(items))
        if isinstance(e, ast.Lambda):
            return self.lam(e, scope)
        if isinstance(e, ast.GeneratorExp):
            if len(e.generators) != 1 or e.generators[0].ifs or not isinstance(e.generators[0].target, ast.Name):
                raise Unknown("generator expression shape")
            g = e.generators[0]
            v = g.target.id
            inner = dict(scope)
            inner[v] = T("var", lstr(v))
            return T("gen", self.expr(e.elt, inner), lstr(v), self.expr(g.iter, scope))
        if isinstance(e, ast.JoinedStr):
            return ".fstring"
        if isinstance(e, ast.Call):
            return T("call", self.expr(e.func, scope), self.call_args(e.args, e.keywords, scope))
        raise Unknown(f"expression {type(e).__name__}")

    def call_args(self, args, keywords, scope) -> str:
        items = []
        for a in args:
            if isinstance(a, ast.Starred):
                items.append(("star", None, self.expr(a.value, scope)))
            else:
                items.append(("pos", None, self.expr(a, scope)))
        for k in keywords:
            if k.arg is None:
                items.append(("dstar", None, self.expr(k.value, scope)))
            else:
                items.append(("kw", k.arg, self.expr(k.value, scope)))
        return args_term(items)

    def formals(self, a: ast.arguments) -> List[str]:
        if a.vararg or a.kwarg or a.kwonlyargs or a.defaults or a.kw_defaults:
            raise Unknown("lambda/function with *args, **kwargs, keyword-only or defaulted formals")
        return [x.arg for x in a.posonlyargs + a.args]

    def lam(self, e: ast.Lambda, scope: Dict[str, str]) -> str:
        ps = self.formals(e.args)
        inner = dict(scope)
        for p in ps:
            inner[p] = T("var", lstr(p))
        return T("lam", llist([lstr(p) for p in ps]), self.expr(e.body, inner))

    # ------------------------------------------------------------ function bodies (statements)

    def stmts(self, body: List[ast.stmt], scope: Dict[str, str]) -> str:
        """the value returned by a statement list (If/Return/Try/Assert/Raise subset)"""
        body = [s for s in body if not (isinstance(s, ast.Expr) and isinstance(s.value, ast.Constant))]
        if not body:
            raise Unknown("function body falls off the end")
        s, rest = body[0], body[1:]
        if isinstance(s, ast.Return):
            if s.value is None:
                return ".none"
            return self.expr(s.value, scope)
        if isinstance(s, ast.If):
            if s.orelse:
                els = self.stmts(s.orelse + rest, scope)
            else:
                els = self.stmts(rest, scope)
            return T("ite", self.expr(s.test, scope), self.stmts(s.body + rest, scope), els)
        if isinstance(s, ast.Assert):
            msg = self.expr(s.msg, scope) if s.msg is not None else ".none"
            return T("assertThen", self.expr(s.test, scope), msg, self.stmts(rest, scope))
        if isinstance(s, ast.Raise):
            if s.exc is None:
                raise Unknown("bare raise")
            return T("raise", self.expr(s.exc, scope))
        if isinstance(s, ast.Try):
            if s.orelse or s.finalbody or len(s.handlers) != 1 or rest:
                raise Unknown("try statement shape")
            h = s.handlers[0]
            if h.type is None:
                raise Unknown("bare except")
            types = h.type.elts if isinstance(h.type, ast.Tuple) else [h.type]
            names = []
            for t in types:
                if not isinstance(t, ast.Name):
                    raise Unknown("exception type expression")
                names.append(t.id)
            inner = dict(scope)
            asname = h.name or "_"
            inner[asname] = T("var", lstr(asname))
            return T("tryExcept", self.stmts(s.body, scope), llist([lstr(n) for n in names]), lstr(asname),
                     self.stmts(h.body, inner))
        raise Unknown(f"statement {type(s).__name__}")

    def function_body(self, fn: ast.expr, bound: Dict[str, str], ctx: Dict[str, str]) -> Tuple[List[str], "callable"]:
        raise NotImplementedError

    # ------------------------------------------------------------ parameter-level arguments

    def is_call_to(self, e: ast.expr, dotted: str) -> bool:
        return isinstance(e, ast.Call) and self.dotted(e.func) == dotted

    def is_ensure(self, e: ast.expr) -> bool:
        return isinstance(e, ast.Attribute) and e.attr == "ensure" and \
            self.dotted(e.value) == "labrea.types.Evaluatable"

    def arg_term(self, e: ast.expr, h: "HelperCtx") -> str:
        """An expression in *parameter position*: an argument of `partial(...)`/`PartialApplication(...)`
        or of another helper.  Everything here is `Evaluatable.ensure`d by the receiver, so a helper
        parameter standing here is option-capable."""
        # Evaluatable.ensure(X)
        if isinstance(e, ast.Call) and self.is_ensure(e.func) and len(e.args) == 1 and not e.keywords:
            return self.arg_term(e.args[0], h)
        # collections.evaluatable_tuple(...)
        if self.is_call_to(e, "labrea.collections.evaluatable_tuple") and not e.keywords:
            if len(e.args) == 1 and isinstance(e.args[0], ast.Starred):
                inner = e.args[0].value
                # *builtins.map(Evaluatable.ensure, p)
                if self.is_call_to(inner, "builtins.map") and len(inner.args) == 2 and \
                        self.is_ensure(inner.args[0]) and isinstance(inner.args[1], ast.Name) and \
                        h.kind_of(inner.args[1].id) == "star":
                    h.mark_capable(inner.args[1].id)
                    return T("param", lstr(inner.args[1].id))
                raise Unknown("evaluatable_tuple(*...) of something else than map(Evaluatable.ensure, *param)")
            items = [("pos", None, self.arg_term(a, h)) for a in e.args]
            if any(isinstance(a, ast.Starred) for a in e.args):
                raise Unknown("evaluatable_tuple with mixed starred arguments")
            return T("tuple", args_term(items))
        if isinstance(e, ast.Name):
            n = e.id
            if n in h.local_terms:
                return h.local_terms[n]
            k = h.kind_of(n)
            if k == "plain":
                h.mark_capable(n)
                return T("param", lstr(n))
            if k in ("star", "dstar"):
                # the tuple / dict itself is passed on: wrapped in a Value, its members are constants
                return T("param", lstr(n))
            if n in self.assigns and not n.startswith("_"):
                return T("stepOf", lstr(n), ".nil")
            if n in self.defs:
                raise Unknown(f"function {n} passed as a value in parameter position")
            return self.resolve_name(n, {})
        if isinstance(e, ast.Constant):
            return self.expr(e, {})
        if isinstance(e, ast.Lambda):
            self.check_closed(e, h)
            return self.lam(e, {})
        if isinstance(e, ast.Attribute):
            g = self.dotted(e)
            if g is not None:
                return T("glob", lstr(g))
            raise Unknown("attribute expression in parameter position")
        if isinstance(e, ast.IfExp):
            # p if p is not MISSING else <constant>
            return T("ite", self.raw_test(e.test, h), self.arg_term(e.body, h), self.arg_term(e.orelse, h))
        if isinstance(e, ast.JoinedStr):
            return ".fstring"
        if isinstance(e, ast.BinOp) and isinstance(e.op, ast.Add):
            return self.composition(e, h)
        if isinstance(e, ast.Call):
            # partial(FN, ...) used as a function value
            if isinstance(e.func, ast.Name) and e.func.id == "partial" and "partial" in self.defs:
                fn, items = self.partial_parts(e, h)
                return T("partialOf", fn, args_term(items))
            # another helper
            if isinstance(e.func, ast.Name) and e.func.id in self.defs and not e.func.id.startswith("_"):
                return self.helper_call(e, h)
            if isinstance(e.func, ast.Name) and e.func.id == "Pipeline" and not e.args and not e.keywords:
                return T("compose", ".nil")
        raise Unknown(f"argument expression {ast.unparse(e)[:60]!r}")

    def raw_test(self, e: ast.expr, h: "HelperCtx") -> str:
        """`p is MISSING` / `p is not MISSING` on a parameter as given (not evaluated)"""
        if isinstance(e, ast.Compare) and len(e.ops) == 1 and isinstance(e.ops[0], (ast.Is, ast.IsNot)) \
                and isinstance(e.left, ast.Name) and h.kind_of(e.left.id) == "plain" \
                and isinstance(e.comparators[0], ast.Name) \
                and self.imports.get(e.comparators[0].id) == "labrea._missing.MISSING":
            return T("binop", lstr(CMPOPS[type(e.ops[0])]), T("param", lstr(e.left.id)), ".missing")
        raise Unknown("test on a parameter other than `is [not] MISSING`")

    def check_closed(self, lam: ast.Lambda, h: "HelperCtx") -> None:
        """a lambda in parameter position must not capture a helper parameter (it would then be used
        as given, not evaluated): such a capture is rendered `.rawParam` by `lam_with_captures`."""
        return None

    def helper_call(self, e: ast.Call, h: "HelperCtx") -> str:
        name = e.func.id
        items = []
        for a in e.args:
            if isinstance(a, ast.Starred):
                v = a.value
                if isinstance(v, ast.Name) and h.kind_of(v.id) == "star":
                    # forwarded varargs: capable iff the callee's varargs are
                    if self.callee_star_capable(name):
                        h.mark_capable(v.id)
                    items.append(("star", None, T("param", lstr(v.id))))
                else:
                    raise Unknown("starred argument of a helper call that is not a forwarded *param")
            else:
                items.append(("pos", None, self.arg_term(a, h)))
        for k in e.keywords:
            if k.arg is None:
                raise Unknown("** argument of a helper call")
            items.append(("kw", k.arg, self.arg_term(k.value, h)))
        h.calls.append(name)
        return T("stepOf", lstr(name), args_term(items))

    def callee_star_capable(self, name: str) -> bool:
        row = self.rows_by_name.get(name)
        if row is None:
            raise Unknown(f"helper {name} used before its definition")
        stars = [p for p in row["params"] if p[1] == "star"]
        return bool(stars) and stars[0][0] in row["capable"]

    def composition(self, e: ast.expr, h: "HelperCtx") -> str:
        ops: List[ast.expr] = []
        while isinstance(e, ast.BinOp) and isinstance(e.op, ast.Add):
            ops.append(e.right)
            e = e.left
        ops.append(e)
        ops.reverse()
        items = []
        for i, o in enumerate(ops):
            t = self.arg_term(o, h)
            if i == 0 and t == T("compose", ".nil"):
                continue      # Pipeline() + ... : the empty pipeline is a left identity
            items.append(("pos", None, t))
        return T("compose", args_term(items))

    def partial_parts(self, e: ast.Call, h: "HelperCtx"):
        """partial(FN, *pos, **kw) -> (function term, [(kind, key, term)])"""
        if not e.args:
            raise Unknown("partial() without a function")
        fn = e.args[0]
        items = []
        for a in e.args[1:]:
            if isinstance(a, ast.Starred):
                raise Unknown("starred argument of partial")
            items.append(("pos", None, self.arg_term(a, h)))
        for k in e.keywords:
            if k.arg is None:
                raise Unknown("** argument of partial")
            items.append(("kw", k.arg, self.arg_term(k.value, h)))
        if isinstance(fn, ast.Lambda):
            fterm = self.lam_with_captures(fn, h)
        elif isinstance(fn, ast.Name) and fn.id in self.defs and fn.id.startswith("_"):
            fterm = self.private_fn(fn.id)
        else:
            g = self.dotted(fn)
            if g is None:
                raise Unknown(f"function of partial: {ast.unparse(fn)[:40]!r}")
            fterm = T("glob", lstr(g))
        return fterm, items

    def lam_with_captures(self, lam: ast.Lambda, h: "HelperCtx") -> str:
        scope = {}
        for p in h.param_names():
            scope[p] = T("rawParam", lstr(p))     # captured as given: NOT evaluated
        for n, t in h.local_terms.items():
            scope[n] = T("unknown", lstr(f"local {n} captured by a lambda"))
        return self.lam(lam, scope)

    def private_fn(self, name: str) -> str:
        d = self.defs[name]
        if d.decorator_list:
            raise Unknown(f"decorated private function {name}")
        ps = self.formals(d.args)
        scope = {p: T("var", lstr(p)) for p in ps}
        return T("lam", llist([lstr(p) for p in ps]), self.stmts(d.body, scope))

    # ------------------------------------------------------------ beta reduction of partial(FN, ...)

    def apply_partial(self, fn: ast.expr, items, h: "HelperCtx") -> str:
        """body of FN with formals bound: positional items first, then the input, keywords by name"""
        if isinstance(fn, ast.Lambda):
            ps = self.formals(fn.args)
            body_of = lambda scope: self.expr(fn.body, scope)          # noqa: E731
        elif isinstance(fn, ast.Name) and fn.id in self.defs and fn.id.startswith("_"):
            d = self.defs[fn.id]
            if d.decorator_list:
                raise Unknown(f"decorated private function {fn.id}")
            ps = self.formals(d.args)
            body_of = lambda scope: self.stmts(d.body, scope)          # noqa: E731
        else:
            g = self.dotted(fn)
            if g is None and isinstance(fn, ast.Name) and fn.id in BUILTIN_NAMES:
                g = "builtins." + fn.id
            if g is None:
                raise Unknown(f"function of partial: {ast.unparse(fn)[:40]!r}")
            # an opaque global callable: FN(*pos, input, **kw)
            call_items = [it for it in items if it[0] == "pos"] + [("pos", None, ".input")] + \
                         [it for it in items if it[0] == "kw"]
            return T("call", T("glob", lstr(g)), args_term(call_items))
        scope: Dict[str, str] = {}
        for p in h.param_names():
            scope[p] = T("rawParam", lstr(p))
        pos = [it for it in items if it[0] == "pos"]
        kws = [it for it in items if it[0] == "kw"]
        if len(pos) + 1 > len(ps):
            raise Unknown("partial binds more positional arguments than the function has")
        binding: Dict[str, str] = {}
        for p, it in zip(ps, pos):
            binding[p] = it[2]
        binding[ps[len(pos)]] = ".input"
        for _, k, t in kws:
            if k not in ps:
                raise Unknown(f"partial binds keyword {k} which is not a formal")
            if k in binding:
                raise Unknown(f"partial binds {k} twice (positionally and by keyword)")
            binding[k] = t
        missing = [p for p in ps if p not in binding]
        if missing:
            raise Unknown(f"formals {missing} are left unbound by partial")
        scope.update(binding)
        return body_of(scope)

    # ------------------------------------------------------------ rows

    rows_by_name: Dict[str, dict] = {}

    def translate(self) -> List[dict]:
        self.rows_by_name = {}
        rows = []
        for name in self.public_names():
            try:
                row = self.row(name)
            except Unknown as u:
                self.problems.append(f"{name}: {u}")
                row = {"name": name, "kind": "unknown", "params": self.safe_params(name), "capable": [],
                       "body": T("unknown", lstr(str(u)))}
            except Exception as ex:  # a translator bug must not pass silently either
                self.problems.append(f"{name}: translator error {type(ex).__name__}: {ex}")
                row = {"name": name, "kind": "unknown", "params": [], "capable": [],
                       "body": T("unknown", lstr(f"{type(ex).__name__}: {ex}"))}
            rows.append(row)
            self.rows_by_name[name] = row
        return rows

    def safe_params(self, name: str):
        try:
            return HelperCtx(self, self.defs[name]).params if name in self.defs else []
        except Exception:
            return []

    def row(self, name: str) -> dict:
        if name in self.defs and name in self.assigns:
            raise Unknown("defined both as a function and as a constant")
        if name in self.defs:
            return self.def_row(self.defs[name])
        return self.assign_row(name, self.assigns[name])

    def strip_doc(self, body):
        if body and isinstance(body[0], ast.Expr) and isinstance(body[0].value, ast.Constant) \
                and isinstance(body[0].value.value, str):
            return body[1:]
        return body

    def def_row(self, d: ast.FunctionDef) -> dict:
        if d.decorator_list:
            raise Unknown("decorated public function")
        h = HelperCtx(self, d)
        body = self.strip_doc(d.body)
        inner_defs: Dict[str, ast.FunctionDef] = {}
        while body and not isinstance(body[0], ast.Return):
            s = body[0]
            if isinstance(s, ast.Assign) and len(s.targets) == 1 and isinstance(s.targets[0], ast.Name):
                n = s.targets[0].id
                if n not in h.param_names():
                    raise Unknown(f"assignment to local {n}")
                # p = <expr over p>: from here on `p` stands for that term
                h.local_terms[n] = self.arg_term(s.value, h)
            elif isinstance(s, ast.FunctionDef):
                inner_defs[s.name] = s
            else:
                raise Unknown(f"statement {type(s).__name__} before return")
            body = body[1:]
        if len(body) != 1 or body[0].value is None:
            raise Unknown("function does not end in a single `return <expr>`")
        ret = body[0].value
        kind, term = self.step_expr(ret, h, inner_defs)
        return {"name": d.name, "kind": kind, "params": h.params, "capable": h.capable_list(), "body": term}

    def step_expr(self, ret: ast.expr, h: "HelperCtx", inner_defs) -> Tuple[str, str]:
        # PartialApplication(f, *args, **kwargs)
        if self.is_call_to(ret, "labrea.application.PartialApplication"):
            return "rawPartial", self.raw_partial(ret, h)
        if not self.is_call_to(ret, "labrea.pipeline.PipelineStep"):
            raise Unknown(f"return value is not PipelineStep(...): {ast.unparse(ret)[:50]!r}")
        if len(ret.args) not in (1, 2) or ret.keywords:
            raise Unknown("PipelineStep(...) argument shape")
        inner = ret.args[0]
        # PipelineStep(partial(FN, ...), name)
        if isinstance(inner, ast.Call) and isinstance(inner.func, ast.Name) and inner.func.id == "partial" \
                and "partial" in self.defs:
            if not inner.args:
                raise Unknown("partial() without a function")
            items = []
            for a in inner.args[1:]:
                if isinstance(a, ast.Starred):
                    raise Unknown("starred argument of partial")
                items.append(("pos", None, self.arg_term(a, h)))
            for k in inner.keywords:
                if k.arg is None:
                    raise Unknown("** argument of partial")
                items.append(("kw", k.arg, self.arg_term(k.value, h)))
            return "partialStep", self.apply_partial(inner.args[0], items, h)
        # PipelineStep(Evaluatable.ensure(FN), name)
        if isinstance(inner, ast.Call) and self.is_ensure(inner.func) and len(inner.args) == 1:
            return "constStep", self.apply_partial(inner.args[0], [], h)
        # PipelineStep(a + b + ..., name)
        if isinstance(inner, ast.BinOp) and isinstance(inner.op, ast.Add):
            return "composition", T("call", self.composition(inner, h), args_term([("pos", None, ".input")]))
        # PipelineStep((a + b), name) with parentheses is the same node; a decorated inner function
        if isinstance(inner, ast.Name) and inner.id in inner_defs:
            return "decorated", self.decorated(inner_defs[inner.id], h)
        # PipelineStep(helper(...), name)
        if isinstance(inner, ast.Call) and isinstance(inner.func, ast.Name) and inner.func.id in self.defs \
                and not inner.func.id.startswith("_"):
            return "wrapper", T("call", self.helper_call(inner, h), args_term([("pos", None, ".input")]))
        raise Unknown(f"PipelineStep of {ast.unparse(inner)[:50]!r}")

    def raw_partial(self, ret: ast.Call, h: "HelperCtx") -> str:
        a = ret.args
        if len(a) == 2 and isinstance(a[0], ast.Name) and isinstance(a[1], ast.Starred) and \
                isinstance(a[1].value, ast.Name) and len(ret.keywords) == 1 and ret.keywords[0].arg is None \
                and isinstance(ret.keywords[0].value, ast.Name):
            f, star, dstar = a[0].id, a[1].value.id, ret.keywords[0].value.id
            if h.kind_of(f) == "plain" and h.kind_of(star) == "star" and h.kind_of(dstar) == "dstar":
                for n in (f, star, dstar):
                    h.mark_capable(n)
                return T("call", T("param", lstr(f)),
                         args_term([("star", None, T("param", lstr(star))), ("pos", None, ".input"),
                                    ("dstar", None, T("param", lstr(dstar)))]))
        raise Unknown("PartialApplication(...) argument shape")

    def decorated(self, d: ast.FunctionDef, h: "HelperCtx") -> str:
        if len(d.decorator_list) != 1 or not (isinstance(d.decorator_list[0], ast.Name)
                                               and self.imports.get(d.decorator_list[0].id) == "labrea.pipeline.pipeline_step"):
            raise Unknown("inner function is not decorated with exactly @pipeline_step")
        a = d.args
        if a.vararg or a.kwarg or a.kwonlyargs or a.posonlyargs:
            raise Unknown("inner decorated function with *args/**kwargs/keyword-only formals")
        ps = [x.arg for x in a.args]
        if len(a.defaults) != len(ps) - 1:
            raise Unknown("inner decorated function: every formal but the first must have a default")
        scope: Dict[str, str] = {}
        for p in h.param_names():
            scope[p] = T("rawParam", lstr(p))
        scope[ps[0]] = ".input"
        for p, dflt in zip(ps[1:], a.defaults):
            scope[p] = self.arg_term(dflt, h)       # defaults are Evaluatable.ensure'd by lift
        return self.stmts(d.body, scope)

    def assign_row(self, name: str, e: ast.expr) -> dict:
        h = HelperCtx(self, None)
        if self.is_call_to(e, "labrea.pipeline.PipelineStep"):
            kind, term = self.step_expr(e, h, {})
            return {"name": name, "kind": kind, "params": [], "capable": [], "body": term}
        if isinstance(e, ast.Call) and isinstance(e.func, ast.Name) and e.func.id in self.defs \
                and not e.func.id.startswith("_"):
            for a in e.args:
                if not isinstance(a, ast.Constant):
                    raise Unknown("instance of a helper with a non-constant argument")
            if e.keywords:
                raise Unknown("instance of a helper with keyword arguments")
            return {"name": name, "kind": "instance", "params": [], "capable": [],
                    "body": T("call", self.helper_call(e, h), args_term([("pos", None, ".input")]))}
        raise Unknown(f"module-level value {ast.unparse(e)[:50]!r}")


class HelperCtx:
    """the parameters of the helper being translated"""

    def __init__(self, tr: Translator, d: Optional[ast.FunctionDef]):
        self.tr = tr
        self.params: List[Tuple[str, str, str]] = []      # (name, kind, default term or "none")
        self.capable: List[str] = []
        self.local_terms: Dict[str, str] = {}
        self.calls: List[str] = []
        if d is None:
            return
        a = d.args
        if a.kwonlyargs:
            raise Unknown("keyword-only parameters")
        plain = a.posonlyargs + a.args
        defaults = [None] * (len(plain) - len(a.defaults)) + list(a.defaults)
        for p, dflt in zip(plain, defaults):
            if dflt is None:
                self.params.append((p.arg, "plain", "none"))
            else:
                if isinstance(dflt, ast.Lambda):
                    dt = tr.lam(dflt, {})
                else:
                    dt = tr.expr(dflt, {})
                self.params.append((p.arg, "plain", f"(some {dt})"))
        if a.vararg:
            self.params.append((a.vararg.arg, "star", "none"))
        if a.kwarg:
            self.params.append((a.kwarg.arg, "dstar", "none"))

    def param_names(self) -> List[str]:
        return [p[0] for p in self.params]

    def kind_of(self, n: str) -> Optional[str]:
        for p in self.params:
            if p[0] == n:
                return p[1]
        return None

    def mark_capable(self, n: str) -> None:
        if n not in self.capable:
            self.capable.append(n)

    def capable_list(self) -> List[str]:
        return [p for p in self.param_names() if p in self.capable]


HEADER = """/-
  GENERATED by harness/translate_functions.py from labrea/functions.py — do not edit.
  Regenerated at the start of every `./check C13` run; checked against the hand-written
  `Labrea.Helpers.helperSpec` in LabreaProps/C13Helpers.lean.
-/
import LabreaModel.Helpers
namespace Labrea.Generated
open Labrea.Helpers

"""


def render(rows: List[dict]) -> str:
    out = [HEADER]
    names = []
    for r in rows:
        ident = "row_" + r["name"]
        names.append(ident)
        params = llist([f"⟨{lstr(n)}, .{k}, {d}⟩" for n, k, d in r["params"]])
        out.append(f"def {ident} : Row :=\n  {{ name := {lstr(r['name'])}, kind := .{r['kind']},\n"
                   f"    params := {params},\n"
                   f"    capable := {llist([lstr(c) for c in r['capable']])},\n"
                   f"    body := {r['body']} }}\n\n")
    out.append("def helperTable : List Row :=\n  [" + ",\n   ".join(names) + "]\n\n")
    out.append("end Labrea.Generated\n")
    return "".join(out)


def generate(write: bool = True) -> Tuple[List[dict], List[str]]:
    """returns (rows, problems); writes the Lean file when its content changed"""
    src = (REPO / "labrea" / "functions.py").read_text()
    tr = Translator(src)
    rows = tr.translate()
    text = render(rows)
    if write:
        OUT_FILE.parent.mkdir(parents=True, exist_ok=True)
        if not OUT_FILE.exists() or OUT_FILE.read_text() != text:
            tmp = OUT_FILE.with_suffix(".lean.tmp%d" % __import__("os").getpid())
            tmp.write_text(text)
            tmp.replace(OUT_FILE)
    return rows, tr.problems


if __name__ == "__main__":
    rows, problems = generate(write="--check" not in sys.argv)
    print(f"{len(rows)} rows from {REPO / 'labrea' / 'functions.py'} -> {OUT_FILE}")
    for p in problems:
        print("PROBLEM:", p)
    sys.exit(1 if problems else 0)

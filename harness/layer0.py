"""Layer-0 tie: the model's confectioner / Python primitives (`getDotted`, `setPath`, `mix`, `findKeys`, `resolveR`,
`pyStr`, `pyEq` — lean/LabreaModel/{Dotted,Resolve,Value}.lean, reached through `driver prim`) against their real
twins (`confectioner.templating.get_dotted_key / set_dotted_key / find_template_keys / resolve`, `confectioner.mix`,
`str`, `==`) on a systematic universe of keys, dictionaries and strings.  These third-party / built-in functions are
*modelled, not verified*: this is where that modelling is checked on every run."""
from __future__ import annotations

import itertools
import json
import os
import random
import subprocess
from typing import Any, Dict, List, Sequence, Tuple

from common import PY, REPO, VERIF, Infra, run_driver
from pylib import dumps

SEGMENTS = ["A", "S", "X", "U", "L", "0", "1", "2", "-1", "-2", "-3", "+1", "-0", "01", "1_0", " 1", "1 ", "", "9", "_1", "1_", "--1", "x1", "A B"]
DICTS: List[Any] = [
    {"A": 1, "S": {"X": 2, "U": {"A": 3, "L": [1, [2, 3]]}}, "L": ["a", "bc", ["d", {"X": "e"}]], "X": "str", "0": "zero", "-1": "minus"},
    {"S": {"0": "s0", "-1": "sneg", "1_0": "under"}, "L": []},
    {"L": [[], [1], {"0": "in-dict"}], "A": None, "S": "scalar"},
    {},
]
STRINGS = ["", "plain", "{A}", "p{A}q", "{S.X}{A}", "\\{A\\}", "{A", "A}", "{}", "{{A}}", "{A}{A}", "{ A }", "{L.-1}", "{:p:}", "\\{{A}\\}", "{A.}", "a\\b",
           "{A}\\{B\\}{S.U.A}", "}{", "{\\}"]
VALUES: List[Any] = [None, True, False, 0, 1, -5, 10**20, "", "x", "it's", 'q"q', "{A}", [], [1, "a", None], {}, {"k": [1, {"z": None}]}, [[]], {"a": {"b": {}}},
                     "p{A}q", ["{A}", {"X": "{S.X}"}], "{S}", "{L}", "{MISSING}", "a{L.0}b{L.-1}"]


def cases(rng: random.Random, tier: str) -> List[List[Any]]:
    out: List[List[Any]] = []
    keys = [".".join(p) for n in (1, 2, 3) for p in itertools.product(SEGMENTS, repeat=n)]
    rng.shuffle(keys)
    keys = (["A", "S.X", "L.-1", "L.2.-1", "S.U.L.1.0", "L.2.1.X", "X.0", "X.-1", "A.B", "S.-1", "L. 1", "L.1_0"] +
            keys[: (4000 if tier == "thorough" else 600)])
    for k in keys:
        for d in DICTS[:3]:
            out.append(["getDotted", [k, d]])
    plain_keys = [k for k in keys if all(s and not _intlike(s) for s in k.split("."))][:150]
    for k in plain_keys:
        for d in DICTS:
            out.append(["setDotted", [k, rng.choice(VALUES[:20]), d]])
    objs = [v for v in VALUES + DICTS if isinstance(v, dict)] + [{"S": {"X": 9, "N": {"M": 1}}, "L": [0], "Z": {"S": 1}}, {"S": 5}, {"S": {"U": 1}}]
    for a in objs:
        for b in objs:
            out.append(["mix", [a, b]])
    for s in STRINGS + [x + y for x in STRINGS[:12] for y in STRINGS[:12]]:
        out.append(["findKeys", [s]])
    res_opts = [{"A": 1, "S": {"X": "sx", "U": {"A": "{A}"}}, "L": ["l0", "{A}", ["deep"]], "B": "{A}{A}", "C": "{B}!", "E": "\\{A\\}", "N": None, "D": {"k": "{A}"}},
                {"A": "{B}", "B": "{C}", "C": 3}, {}]
    for v in VALUES + STRINGS:
        for o in res_opts:
            out.append(["resolve", [v, o]])
    quoted = ["it's", 'q"q', "both'\"", "back\\slash", "new\nline", "tab\there", "('y', 'z')", "", " ", "plain"]
    for v in VALUES + [[True, None, "s", [1]], {"a": "b", "c": [None]}, "", " ", "\n", "\\"] + \
            [[q] for q in quoted] + [{q: q} for q in quoted] + [{"$": "tuple", "v": [q, [q]]} for q in quoted]:
        out.append(["pyStr", [v]])
    eqs = [None, True, False, 0, 1, 2, "", "1", "True", [], [1], [True], {}, {"a": 1}, {"a": True}, "x"]
    for a in eqs:
        for b in eqs:
            out.append(["pyEq", [a, b]])
    return out


def _intlike(s: str) -> bool:
    try:
        int(s)
        return True
    except ValueError:
        return False


TWIN = r'''
import sys, json, copy
from confectioner import mix
from confectioner.templating import get_dotted_key, set_dotted_key, find_template_keys, resolve
def canon(v):
    return v
for line in sys.stdin:
    name, args = json.loads(line)
    try:
        if name == "getDotted":
            try:
                r = ["ok", {"$": "tuple", "v": ["found", get_dotted_key(args[0], args[1])]}]
            except KeyError:
                r = ["ok", {"$": "tuple", "v": ["KeyError"]}]
            except TypeError:
                r = ["ok", {"$": "tuple", "v": ["TypeError"]}]
        elif name == "setDotted":
            d = copy.deepcopy(args[2])
            try:
                set_dotted_key(args[0], args[1], d)
                r = ["ok", d]
            except (TypeError, AttributeError):
                # (assigning below something that is not a dict: `setdefault` on a scalar is an AttributeError, item
                # assignment on one a TypeError; the model's `setPath` says `none` for both)
                r = ["err", "TypeError"]
        elif name == "mix":
            r = ["ok", mix(copy.deepcopy(args[0]), copy.deepcopy(args[1]))]
        elif name == "findKeys":
            r = ["ok", sorted(find_template_keys(args[0]))]       # (a set: no order)
        elif name == "resolve":
            try:
                r = ["ok", resolve(copy.deepcopy(args[0]), args[1])]
            except KeyError as e:
                r = ["err", "KeyError"]       # (with several missing keys, which one is named depends on set order)
            except TypeError:
                r = ["err", "TypeError"]
            except RecursionError:
                r = ["err", "fuel"]
        elif name == "pyStr":
            def dec(j):
                if isinstance(j, list): return [dec(x) for x in j]
                if isinstance(j, dict):
                    if j.get("$") == "tuple": return tuple(dec(x) for x in j["v"])
                    return {k: dec(v) for k, v in j.items()}
                return j
            r = ["ok", str(dec(args[0]))]
        elif name == "pyEq":
            r = ["ok", bool(args[0] == args[1])]
        else:
            r = ["err", "unknown"]
    except Exception as e:
        r = ["exc", type(e).__name__ + ": " + str(e)[:100]]
    print(json.dumps(r))
'''


def run_twin(cs: Sequence[List[Any]]) -> List[Any]:
    env = dict(os.environ, PYTHONPATH=str(REPO))
    r = subprocess.run([PY, "-B", "-c", TWIN], input="\n".join(json.dumps(c) for c in cs) + "\n", capture_output=True, text=True,
                       timeout=900, env=env, cwd="/")
    lines = r.stdout.splitlines()
    if r.returncode != 0 or len(lines) != len(cs):
        raise Infra("layer-0 twin runner failed: " + (r.stderr or "")[-500:])
    return [json.loads(l) for l in lines]


def _norm_model(name: str, j: Any) -> Any:
    if name == "resolve" and isinstance(j, list) and j and j[0] == "ok":
        v = j[1]
        if isinstance(v, dict) and v.get("$") == "tuple":
            return ["ok", v["v"][0]]          # (the read log is compared through the `reads` facet, not here)
    if name == "findKeys" and isinstance(j, list) and j[0] == "ok":
        return ["ok", sorted(set(j[1]))]
    if name == "resolve" and isinstance(j, list) and j and j[0] == "err" and str(j[1]).startswith("KeyError"):
        return ["err", "KeyError"]
    return j


def tie(rng: random.Random, tier: str, only: Sequence[str]) -> Tuple[List[Dict[str, Any]], Dict[str, int]]:
    """returns (disagreements, counts per function)"""
    cs = [c for c in cases(rng, tier) if c[0] in only]
    model = [json.loads(l) for l in run_driver("driver", [dumps(c) for c in cs], args=["prim"])]
    twin = run_twin(cs)
    bad, counts = [], {}
    for c, m, t in zip(cs, model, twin):
        counts[c[0]] = counts.get(c[0], 0) + 1
        m = _norm_model(c[0], m)
        if dumps(m) != dumps(t):
            bad.append({"function": c[0], "args": c[1], "model": m, "python": t})
    return bad, counts

"""Run PDL programs on the implementation and on the Lean model, normalise, and diff by facet."""
from __future__ import annotations

import json
import os
import subprocess
from typing import Any, Dict, Iterable, List, Optional, Sequence, Tuple

from common import LEAN, PY, REPO, VERIF, Infra, run_driver
from pylib import canon_model_value, dumps
from pdl import program_hidden

FACETS = ("eval", "keys", "validate", "explain", "trace", "cache", "log", "req", "mut", "construct")

OP_FACET = {"evaluate": "eval", "keys": "keys", "validate": "validate", "explain": "explain", "transform": "eval",
            "fingerprint": "keys", "set_get": "eval"}


def run_impl(programs: Sequence[Dict[str, Any]], hashseed: Optional[str] = "0", timeout: int = 1800) -> List[Any]:
    env = dict(os.environ)
    env["PYTHONPATH"] = f"{REPO}:{VERIF / 'harness'}"
    if hashseed is not None:
        env["PYTHONHASHSEED"] = hashseed
    # insertion order of dictionaries is preserved on the way to the implementation (top-level
    # permutations are part of C02/C03); the Lean side canonicalises by sorting
    inp = "\n".join(json.dumps(p, separators=(",", ":")) for p in programs) + "\n"
    r = subprocess.run([PY, "-B", str(VERIF / "harness" / "impl_runner.py")], input=inp, capture_output=True,
                       text=True, timeout=timeout, env=env, cwd="/")
    lines = r.stdout.splitlines()
    if r.returncode != 0 or len(lines) != len(programs):
        # the implementation could not even be imported / crashed: report per program
        return [{"runner_error": (r.stderr or "no output")[-2000:]} for _ in programs]
    return [json.loads(l) for l in lines]


def run_model(programs: Sequence[Dict[str, Any]], timeout: int = 1800) -> List[Any]:
    lines = run_driver("driver", [dumps(p) for p in programs], timeout=timeout)
    if len(lines) != len(programs):
        raise Infra(f"driver returned {len(lines)} lines for {len(programs)} programs")
    return [json.loads(l) for l in lines]


def norm_model_obs(prog: Dict[str, Any], obs: Any) -> Any:
    """rewrite hidden node ids to 0 / drop their requests; callables → '<callable>'"""
    hidden = program_hidden(prog)
    dsc_iters = {n["e"] for n in prog.get("nodes", []) if n.get("dsclass")}
    getonly = {c for c, k in prog.get("caches", []) if k == "getonly"}
    if not isinstance(obs, list):
        return obs
    out = []
    for o in obs:
        if not isinstance(o, dict) or "r" not in o:
            out.append(o)
            continue
        o = dict(o)
        r = o["r"]
        if r[0] == "ok":
            o["r"] = ["ok", canon_model_value(r[1])]
        elif r[0] == "err":
            # (a dataset class is its members' tuple in the model: the hidden `Iter` between the class and a failing
            # member adds a frame the implementation does not have)
            o["r"] = ["err", [[c, (0 if s in hidden else s), k] for c, s, k in r[1] if s not in dsc_iters]]
        o["logreq"] = o.get("logreq", 0)
        o["log"] = [l for l in o.get("log", []) if l[1]]
        o["req"] = [q for q in o.get("req", []) if q[1] not in hidden and q[0] != "log"]
        # (`lib:` functions stand for bodies the library generates itself — an interface member's pass-through — not user code)
        o["calls"] = [[f, canon_model_value(a), canon_model_value(k)] for f, a, k in o.get("calls", []) if not f.startswith("lib:")]
        if getonly:
            # a get/set-only backend is a plain store for the model; its inherited `exists` is a `get` on the backend
            o["cache"] = [c for c in o.get("cache", []) if c[0] not in getonly]
        out.append(o)
    return out


def facet_views(op: Dict[str, Any], o: Dict[str, Any], side: str) -> Dict[str, Any]:
    """split one observation into comparable facets"""
    if not isinstance(o, dict) or "r" not in o:
        return {"raw": o}
    f = OP_FACET.get(op["op"], "eval")
    v: Dict[str, Any] = {f: o["r"]}
    v["trace"] = o.get("calls", [])
    v["cache"] = o.get("cache", [])
    logreq = o["logreq"] if "logreq" in o else len([q for q in o.get("req", []) if q[0] == "log"])
    v["log"] = {"emitted": o.get("log", []), "requests": logreq}
    v["req"] = sorted(dumps(q) for q in o.get("req", []) if q[0] not in ("log",))
    # option reads as a set of dotted keys; parameter keys (":name:") are internal to Template.evaluate; an
    # `AllOptions` read ("*" in the model: the whole dictionary) makes the operation's reads incomparable
    rd = o.get("reads")
    v["reads"] = None if rd is None or "*" in rd else sorted(k for k in set(rd) if not (k.startswith(":") and k.endswith(":")))
    return v


def diff_program(prog: Dict[str, Any], impl: Any, model: Any, facets: Iterable[str]) -> List[Dict[str, Any]]:
    """list of disagreements (op index, facet, impl view, model view)"""
    facets = set(facets)
    if isinstance(impl, dict) and "runner_error" in impl:
        return [{"op": -1, "facet": "runner", "impl": impl, "model": None}]
    model = norm_model_obs(prog, model)
    if any(n.get("dsclass") for n in prog.get("nodes", [])):
        # instantiating a dataset class asks for the class's keys and reads them again (for its repr): requests and
        # reads the model's tuple-of-members view does not make
        facets -= {"req", "reads"}
    out = []
    getonly_cids = {c for c, k in prog.get("caches", []) if k == "getonly"}
    ops = prog.get("ops", [])
    if not isinstance(impl, list) or not isinstance(model, list) or len(impl) != len(ops) or len(model) != len(ops):
        return [{"op": -1, "facet": "shape", "impl": impl, "model": model}]
    for i, (op, a, b) in enumerate(zip(ops, impl, model)):
        if isinstance(a, dict) and "build_error" in a:
            out.append({"op": i, "facet": "build", "impl": a, "model": b})
            continue
        if "r" not in a:
            # mutator
            if a.get("ok") != (b or {}).get("ok"):
                out.append({"op": i, "facet": "mutator", "impl": a, "model": b})
            continue
        if isinstance(b, dict) and b.get("r", [None])[0] == "fuel" or a["r"][0] == "fuel":
            # outside the model (unbounded template recursion: Python turns the RecursionError into an
            # EvaluationError and carries on; the model's fuel ends the run) — nothing after it is comparable
            break
        va, vb = facet_views(op, a, "impl"), facet_views(op, b, "model")
        if getonly_cids:
            va["cache"] = [c for c in va["cache"] if c[0] not in getonly_cids]
        if op.get("no_recording"):
            # no pass-through handlers installed: the request log was not recorded on the implementation side
            va.pop("req", None)
            va["log"] = {"emitted": va["log"]["emitted"]}
            vb["log"] = {"emitted": vb.get("log", {}).get("emitted", [])}
        if va.get("reads") is None or vb.get("reads") is None:
            va.pop("reads", None)
        for f in va:
            if f in facets and va[f] != vb.get(f):
                out.append({"op": i, "facet": f, "impl": va[f], "model": vb.get(f)})
        if "mut" in facets and a.get("mut"):
            out.append({"op": i, "facet": "mut", "impl": a["mut"], "model": []})
        if "construct" in facets and a.get("construction_calls"):
            out.append({"op": i, "facet": "construct", "impl": a["construction_calls"], "model": []})
    return out


def run_both(programs: Sequence[Dict[str, Any]], hashseed: Optional[str] = "0") -> Tuple[List[Any], List[Any]]:
    return run_impl(programs, hashseed=hashseed), run_model(programs)

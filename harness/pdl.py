"""Program description language: a small builder for PDL programs (see pdl.md).

A program is a JSON object {nodes, ovs, dss, caches, binds, fns, ops}.  Both the Lean driver and
the implementation runner consume exactly this object.
"""
from __future__ import annotations

import copy
import json
from typing import Any, Dict, List, Optional, Sequence, Tuple

from pylib import enc

MISSINGV = {"$": "missing"}


def fn(name: str, *args, **kw):
    """a callable value: named harness function with bound arguments"""
    return {"$": "fn", "f": name, "a": [enc(a) if not _is_enc(a) else a for a in args],
            "k": [[k, enc(v)] for k, v in sorted(kw.items())]}


def _is_enc(a):
    return isinstance(a, dict) and "$" in a


def sort_json(j):
    """option dictionaries are handed to both sides with recursively sorted keys"""
    if isinstance(j, dict):
        if "$" in j:
            return {k: (sort_json(v) if k != "$" else v) for k, v in j.items()}
        return {k: sort_json(j[k]) for k in sorted(j)}
    if isinstance(j, list):
        return [sort_json(x) for x in j]
    return j


class Prog:
    def __init__(self):
        self.nodes: List[Dict[str, Any]] = []
        self.ovs: List[Dict[str, Any]] = []
        self.dss: List[Dict[str, Any]] = []
        self.caches: Dict[int, str] = {}
        self.binds: List[Dict[str, Any]] = []
        self.fns: Dict[str, Dict[str, Any]] = {}
        self.ops: List[Dict[str, Any]] = []
        self._nid = 0
        self._ov = 0
        self._ds = 0
        self._cache = 0
        self._bind = 0
        self._all: Optional[int] = None

    # ------------------------------------------------------------- plumbing
    def _node(self, k: str, **fields) -> int:
        self._nid += 1
        n = {"id": self._nid, "k": k}
        n.update({a: b for a, b in fields.items()
                  if b is not None or a not in ("wrap", "h", "bare", "factory", "identity")})
        self.nodes.append(n)
        return self._nid

    def node(self, nid: int) -> Dict[str, Any]:
        return self.nodes[nid - 1]

    def new_cache(self, kind: str = "memory") -> int:
        self._cache += 1
        self.caches[self._cache] = kind
        return self._cache

    def free(self, name: str, **spec) -> str:
        self.fns[name] = dict({"t": "free"}, **spec)
        return name

    def const_fn(self, name: str, v, **spec) -> str:
        self.fns[name] = dict({"t": "const", "v": v if _is_enc(v) else enc(v)}, **spec)
        return name

    def prim_fn(self, name: str, p: str, **spec) -> str:
        self.fns[name] = dict({"t": "prim", "p": p}, **spec)
        return name

    # ------------------------------------------------------------- nodes
    def value(self, v, wrap: bool = False, hidden: bool = False) -> int:
        return self._node("value", v=v if _is_enc(v) else enc(v), wrap=True if wrap else None, h=1 if hidden else None)

    def fnvalue(self, name: str, *args, **kw) -> int:
        return self._node("value", v=fn(name, *args, **kw))

    def option(self, key: str, dflt: Optional[int] = None, dom: Optional[int] = None, bare: bool = False, **extra) -> int:
        return self._node("option", key=key, dflt=dflt, dom=dom, bare=True if bare else None, **extra)

    def apply(self, e: int, f: int, via: str = "apply") -> int:
        return self._node("apply", e=e, f=f, via=via)

    def bind(self, e: int, table: Sequence[Tuple[Any, int]], dflt: Optional[int] = None, cls: str = "ValueError") -> int:
        self._bind += 1
        self.binds.append({"id": self._bind, "table": [[enc(k), i] for k, i in table], "dflt": dflt, "cls": cls})
        return self._node("bind", e=e, b=self._bind)

    def switch(self, d: int, lookup: Sequence[Tuple[Any, int]], dflt: Optional[int] = None) -> int:
        return self._node("switch", d=d, lookup=[[enc(k), i] for k, i in lookup], dflt=dflt)

    def case(self, d: int, cases: Sequence[Tuple[int, int]], dflt: Optional[int] = None, **extra) -> int:
        """extra: ofirst=1 builds `case(d).otherwise(dflt).when(...)...` (same meaning, other call order)"""
        return self._node("case", d=d, cases=[[c, r] for c, r in cases], dflt=dflt, **extra)

    def coalesce(self, ms: Sequence[int]) -> int:
        return self._node("coalesce", ms=list(ms))

    def iter(self, es: Sequence[int]) -> int:
        return self._node("iter", es=list(es))

    def collection(self, kind: str, es: Sequence[int]) -> int:
        """evaluatable_list / tuple / set: Iter(...).apply(kind)"""
        it = self.iter(es)
        return self.apply(it, self.fnvalue("py:" + kind))

    def api_collection(self, kind: str, es: Sequence[int]) -> int:
        """`labrea.evaluatable_list / _tuple / _set (*members)` (aliases DatasetList ...): for the model
        `Iter(members...).apply(kind)`; the runner calls the library function with the members (plain constants raw)"""
        it = self._node("iter", es=list(es), h=1)
        nid = self.apply(it, self._node("value", v=fn("py:" + kind), h=1))
        self.nodes[-1]["api_collection"] = {"kind": kind, "es": list(es)}
        return nid

    def api_dict(self, entries: Sequence[Tuple[str, int]]) -> int:
        """`labrea.evaluatable_dict({key: member, ...})` (alias DatasetDict): for the model
        `Iter(Iter(Value(key), member), ...).apply(dict)` — entries in the order written"""
        pairs = [self._node("iter", es=[self._node("value", v=k, h=1), v], h=1) for k, v in entries]
        it = self._node("iter", es=pairs, h=1)
        nid = self.apply(it, self._node("value", v=fn("py:dict"), h=1))
        self.nodes[-1]["api_dict"] = [[k, v] for k, v in entries]
        return nid

    def dsclass(self, name: str, members: Sequence[Tuple[str, int]], bases: Sequence[int] = (), annotated: Sequence[str] = ()) -> int:
        """a dataset class (`@datasetclass class name(*bases): member = expression ...`).  For the model a dataset class
        IS the tuple of its effective members (own ones and those inherited from dataset-class bases, a redefinition
        replacing the inherited one) in `dir()` order — the node is `Iter(members...).apply(tuple)` carrying a `dsclass`
        field; the runner builds the real class from that field and reports an instance as the tuple of its members."""
        eff: Dict[str, int] = {}
        for b in bases:
            eff.update(dict(self.node(b)["dsclass"]["effective"]))
        eff.update(dict(members))
        order = sorted(eff)
        it = self._node("iter", es=[eff[k] for k in order], h=1)
        fv = self._node("value", v=fn("py:tuple"), h=1)
        nid = self._node("apply", e=it, f=fv, via="apply")
        self.nodes[-1]["dsclass"] = {"name": name, "members": [[n, i] for n, i in members], "bases": list(bases),
                                     "annotated": list(annotated), "effective": [[k, eff[k]] for k in order]}
        return nid

    def custom(self, e: int, shape: str) -> int:
        """a user-defined Evaluatable subclass that delegates its four operations to `e`.  shape: how the class gets
        them — "direct" (defined in the class body), "mixin" (inherited from a plain mixin class listed before
        `Evaluatable`), "sub" (a subclass of a user-defined Evaluatable that defines nothing itself), "sub_mixin" (a
        subclass of the mixin form).  For the model the node is `e.apply(identity)`: one request of its own around `e`."""
        fv = self._node("value", v=fn("py:identity"), h=1)
        nid = self._node("apply", e=e, f=fv, via="apply")
        self.nodes[-1]["custom"] = shape
        return nid

    def map(self, e: int, its: Sequence[Tuple[str, int]]) -> int:
        return self._node("map", e=e, its=[[n, i] for n, i in its])

    def template(self, t: str, params: Sequence[Tuple[str, int]] = ()) -> int:
        return self._node("template", t=t, params=[[n, i] for n, i in params])

    def with_options(self, e: int, p: Dict[str, Any], force: bool = True) -> int:
        return self._node("with", e=e, p=sort_json(p), force=force)

    def all_options(self) -> int:
        if self._all is None:
            self._all = self._node("all")
        return self._all

    def cached(self, e: int, cache: Optional[int] = None) -> int:
        return self._node("cached", e=e, cache=cache if cache is not None else self.new_cache())

    def logged(self, e: int, msg: str) -> int:
        return self._node("logged", e=e, msg=msg)

    def computation(self, e: int, effects: Sequence[int]) -> int:
        return self._node("computation", e=e, effects=list(effects))

    def funapp(self, f: int, args: Sequence[int] = (), kw: Sequence[Tuple[str, int]] = (), factory: bool = False) -> int:
        return self._node("funapp", f=f, args=list(args), kw=[[n, i] for n, i in kw], factory=True if factory else None)

    def partial(self, f: int, args: Sequence[int] = (), kw: Sequence[Tuple[str, int]] = ()) -> int:
        return self._node("partial", f=f, args=list(args), kw=[[n, i] for n, i in kw])

    def step(self, step: int) -> int:
        return self._node("step", step=step)

    def pipeline(self, tail: int, rest: Optional[int] = None) -> int:
        return self._node("pipeline", tail=tail, rest=rest)

    def namespace(self, key: str, members: Sequence[Tuple[str, int]], **extra) -> int:
        return self._node("namespace", key=key, members=[[n, i] for n, i in members], **extra)

    def dataset(self, params: Sequence[Tuple[str, int]] = (), fn_name: Optional[str] = None,
                dispatch: Optional[int] = None, table: Sequence[Tuple[Any, int]] = (),
                options: Optional[Dict[str, Any]] = None, default_options: Optional[Dict[str, Any]] = None,
                callback: Optional[int] = None, effects: Sequence[int] = (), cache: Optional[int] = None,
                abstract: bool = False, effects_disabled: bool = False, fn_spec: Optional[Dict[str, Any]] = None,
                dflt_node: Optional[int] = None) -> int:
        """a Dataset built through the public factory; returns the dataset node id.

        callback / effects: ids of value nodes holding callables (or evaluatables producing them)."""
        self._ds += 1
        dsid = self._ds
        self._ov += 1
        ovid = self._ov
        name = f"d{dsid}"
        dflt = None
        if dflt_node is not None:
            dflt = dflt_node
        elif not abstract:
            fname = fn_name or f"f{dsid}"
            if fname not in self.fns:
                self.fns[fname] = dict({"t": "free"}, **(fn_spec or {}))
            fv = self.fnvalue(fname)
            dflt = self.funapp(fv, kw=params)
        disp = dispatch if dispatch is not None else self._node("value", v=MISSINGV, h=1)
        self.ovs.append({"id": ovid, "dispatch": disp, "table": [[enc(k), i] for k, i in table], "dflt": dflt})
        if callback is None:
            idv = self._node("value", v=fn("py:identity"), h=1)
            st = self._node("step", step=idv, h=1)
            cb = self._node("pipeline", tail=st, rest=None, identity=True, h=1)
        else:
            st = self._node("step", step=callback, h=1)
            cb = self._node("pipeline", tail=st, rest=None, h=1)
        cid = cache if cache is not None else self.new_cache()
        kind = "AbstractDataset" if abstract else "Dataset"
        self.dss.append({"id": dsid, "ov": ovid, "effects": list(effects), "cache": cid,
                         "options": sort_json(options or {}), "default_options": sort_json(default_options or {}),
                         "callback": cb, "effects_disabled": effects_disabled, "name": name,
                         "msg": f"Labrea: Evaluating <{kind} {name}>"})
        return self._node("dataset", ds=dsid)

    def interface(self, dispatch: int, members: Sequence[Tuple[str, str, Any]]) -> Dict[str, int]:
        """`@interface(dispatch) class I: ...` — returns {member name: dataset node}.  members: (name, kind, payload):
        ("ann", None) an annotation only (abstract member); ("fn", params) a function default with these parameters;
        ("const", value) a plain-constant default; ("eval", node) an evaluatable default.  For the model every member is
        a dataset with the interface's dispatch; a constant / evaluatable default `v` is the library's own pass-through
        body (`def member(v=default): return v`), a function whose name starts with `lib:` (not user code: left out
        of the traces)."""
        self._iface = getattr(self, "_iface", 0) + 1
        iid = self._iface
        out: Dict[str, int] = {}
        spec = []
        for name, kind, payload in members:
            if kind == "ann":
                nid = self.dataset([], dispatch=dispatch, abstract=True)
            elif kind == "fn":
                nid = self.dataset(payload, dispatch=dispatch)
            else:
                vn = self.value(payload) if kind == "const" else payload
                fname = self.prim_fn(f"lib:member{iid}_{name}", "ident")
                dn = self.funapp(self.fnvalue(fname), args=[vn])
                nid = self.dataset([], dispatch=dispatch, dflt_node=dn)
            self.nodes[-1]["iface"] = {"id": iid, "name": name, "kind": kind}
            self.dss[self.ds_of(nid) - 1]["name"] = name
            self.dss[self.ds_of(nid) - 1]["msg"] = "<derived>"
            spec.append([name, kind, nid, payload if kind == "const" else (payload if kind == "eval" else None)])
            out[name] = nid
        for name, kind, nid, _ in spec:
            self.node(nid)["iface"]["members"] = [[a, b, c] for a, b, c, _ in spec]
            self.node(nid)["iface"]["dispatch"] = dispatch
        return out

    def implement(self, members: Dict[str, int], aliases: Sequence[Any], impls: Sequence[Tuple[str, str, Any]]) -> Dict[str, int]:
        """`@implements(I, alias=[...]) class Impl: ...` as the next operation.  impls: (member name, kind, payload):
        ("fn", params) a function (registered by the library as a bare application of it: no cache of its own);
        ("node", nid) an evaluatable; ("const", value).  For the model: one `register` per member and alias."""
        out: Dict[str, int] = {}
        group = []
        for name, kind, payload in impls:
            if kind == "fn":
                fname = self.free(f"impl{len(self.ops)}_{name}")
                nid = self.funapp(self.fnvalue(fname), kw=payload)
            elif kind == "const":
                nid = self.value(payload, wrap=True)
            else:
                nid = payload
            out[name] = nid
            group.append([name, kind, nid])
        first = True
        iface_id = self.node(next(iter(members.values())))["iface"]["id"]
        for name, kind, nid in group:
            for al in aliases:
                op = {"op": "register", "ov": self.ov_of(members[name]), "key": enc(al), "n": nid}
                if first:
                    op["impl_group"] = {"iface": iface_id, "aliases": [enc(a) for a in aliases], "members": group,
                                        "iface_nodes": {k: v for k, v in members.items()}}
                    first = False
                else:
                    op["impl_skip"] = True
                self.ops.append(op)
        return out

    def derive(self, ds_node: int, p: Dict[str, Any], default: bool = False) -> int:
        """`ds.with_options(p)` / `ds.with_default_options(p)` as the next operation; returns the node id of the
        derived dataset (a lazily created node: it exists once the operation has run)"""
        import copy as _copy
        src = self.ds_of(ds_node)
        new_ds = len(self.dss) + 1
        new_node = self._node("dataset", ds=new_ds)
        self.nodes[-1]["lazy"] = True
        self.ops.append({"op": "with_options", "ds": src, "new": new_ds, "p": sort_json(p), "default": default,
                         "node": new_node, "msg": "<derived>"})
        self.dss.append(dict(_copy.deepcopy(self.dss[src - 1]), id=new_ds, lazy=True))
        self._ds = max(self._ds, new_ds)
        return new_node

    def after_ops(self, ds_node: int) -> None:
        """a dataset that is defined AFTER the construction steps recorded so far (it depends on their results — a
        derived dataset as an argument): neither it nor its default implementation node is built up front"""
        self.node(ds_node)["lazy"] = True
        dflt = self.ovs[self.ov_of(ds_node) - 1].get("dflt")
        if dflt is not None:
            self.node(dflt)["lazy"] = True

    def ds_of(self, nid: int) -> int:
        return self.node(nid)["ds"]

    def ov_of(self, nid: int) -> int:
        return self.dss[self.ds_of(nid) - 1]["ov"]

    # ------------------------------------------------------------- operations
    def op(self, op: str, n: int, o: Dict[str, Any], **kw) -> None:
        d = {"op": op, "n": n, "o": sort_json(o)}
        d.update(kw)
        self.ops.append(d)

    def evaluate(self, n, o, **kw):
        self.op("evaluate", n, o, **kw)

    def all4(self, n, o, **kw):
        for op in ("validate", "keys", "explain", "evaluate"):
            self.op(op, n, o, **kw)

    def register(self, ds_node: int, key, impl: int) -> None:
        self.ops.append({"op": "register", "ov": self.ov_of(ds_node), "key": enc(key), "n": impl})

    def raw_op(self, **kw) -> None:
        self.ops.append(kw)

    def to_json(self) -> Dict[str, Any]:
        return {"nodes": self.nodes, "ovs": self.ovs, "dss": self.dss,
                "caches": [[c, k] for c, k in self.caches.items()], "binds": self.binds,
                "fns": [[n, s] for n, s in self.fns.items()], "ops": self.ops}

    def hidden_ids(self) -> List[int]:
        return [n["id"] for n in self.nodes if n.get("h")]


def program_hidden(prog: Dict[str, Any]) -> set:
    return {n["id"] for n in prog.get("nodes", []) if n.get("h")}

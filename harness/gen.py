"""Typed random generation of PDL programs and option dictionaries.

Every random choice comes from the one `random.Random` passed in.  Programs are *mostly valid*:
dictionaries start from a fully populated universe and are then perturbed (keys deleted, values
changed, templates made dangling) so that both success and every error path are exercised.

`Cfg` switches families of constructs on and off; the main sweeps of the property checks stay
inside the hypotheses of the proved theorems (no known-finding triggers), the `trigger` sweeps
enable them.
"""
from __future__ import annotations

import copy
import random
from dataclasses import dataclass, field
from typing import Any, Dict, List, Optional, Sequence, Tuple

from pdl import Prog, fn, sort_json

SCALARS = [None, False, True, 0, 1, 2, 5, "", "x", "y", "z"]
DISPATCH_VALUES = ["x", "y", "z", 1, True, None, 0]
SCALAR_KEYS = ["A", "B", "C", "D", "AB"]   # "AB": a key that has another key as string prefix
DISPATCH_KEYS = ["K", "M"]
SECTION_KEYS = ["S.X", "S.Y", "S.U.V", "T.X", "T.Z", "S.XY"]
LIST_KEYS = ["L.0", "L.1"]
TEMPLATE_KEYS = ["P", "Q", "R"]
# keys whose values are never templated by the generators: an Option on one of them fails only when absent
SAFE_KEYS = ["C", "D", "K", "M", "S.Y", "T.Z", "T.X"]
EXC_CLASSES = ["ValueError", "TypeError", "KeyError", "RuntimeError", "ZeroDivisionError", "CustomError",
               "NotImplementedError", "AttributeError", "OSError", "AssertionError", "IndexError", "SubTypeError", "SubKeyError"]


@dataclass
class Cfg:
    max_depth: int = 4
    templates: bool = True
    containers_with_templates: bool = True
    sections: bool = True
    lists: bool = True
    domains: bool = True
    binds: bool = True
    maps: bool = True
    datasets: bool = True
    overloads: bool = True
    effects: bool = True
    callbacks: bool = True
    wrappers: bool = True
    cached: bool = True
    raising: bool = False          # user callables that raise on chosen inputs
    switches: bool = False         # LABREA.* feature switch options in dictionaries
    scripted_caches: bool = False
    # known-finding triggers (off in main sweeps)
    effect_reads_options: bool = False     # F9
    scalar_prefix: bool = False            # F10
    catch_unsafe: bool = False             # F18/F19
    dangling_all_options: bool = False     # F21
    dict_into_template: bool = False       # F22
    raw_iter: bool = False                 # Iter/Map outside an immediately consuming apply
    all_options: bool = True
    total_fns: bool = False        # only user callables that cannot raise (C10/C11: "bodies total")
    map_weight: float = 0.5
    self_map: float = 0.35         # Map(e, {'L': Option('L')}): the iterable reads the key it maps


class G:
    def __init__(self, rng: random.Random, cfg: Cfg):
        self.rng = rng
        self.cfg = cfg
        self.P = Prog()
        self.n_fn = 0
        self.shared: List[Tuple[str, int]] = []     # (type, nid) pool for DAG sharing
        self.datasets: List[int] = []
        self.kinds: Dict[str, int] = {}

    # ------------------------------------------------------------ small helpers
    def count(self, k):
        self.kinds[k] = self.kinds.get(k, 0) + 1

    def pick(self, xs):
        return xs[self.rng.randrange(len(xs))]

    def distinct(self, pool, n):
        """n values from pool, no two equal under Python == (True == 1, False == 0)"""
        out = []
        for x in self.rng.sample(pool, len(pool)):
            if len(out) >= n:
                break
            if not any(x == y for y in out):
                out.append(x)
        return out

    def chance(self, p):
        return self.rng.random() < p

    def fresh_fn(self, prefix="f", raising_ok=True) -> str:
        self.n_fn += 1
        name = f"{prefix}{self.n_fn}"
        spec = {}
        if self.cfg.raising and raising_ok and self.chance(0.25):
            r = {"cls": self.pick(EXC_CLASSES)}
            if self.chance(0.7):
                r["on"] = [self.pick(SCALARS) for _ in range(self.rng.randint(1, 2))]
            spec["raise"] = r
        self.P.free(name, **spec)
        return name

    def scalar_key(self):
        pool = list(SCALAR_KEYS)
        if self.cfg.sections:
            pool += SECTION_KEYS
        if self.cfg.lists:
            pool += LIST_KEYS
        if self.cfg.templates:
            pool += TEMPLATE_KEYS
        return self.pick(pool)

    # ------------------------------------------------------------ expressions by type
    # types: 'scalar' (hashable JSON scalar or str), 'any', 'list' (JSON list), 'section' (dict)
    def expr(self, ty: str, depth: int) -> int:
        if self.shared and self.chance(0.12):
            cands = [n for t, n in self.shared if t == ty or (ty == "any")]
            if cands:
                return self.pick(cands)
        nid = self._expr(ty, depth)
        if self.chance(0.5):
            self.shared.append((ty, nid))
        return nid

    def leaf(self, ty: str) -> int:
        P = self.P
        r = self.rng.random()
        if ty == "list":
            if r < 0.5 or not self.cfg.lists:
                self.count("value")
                return P.value([self.pick(SCALARS) for _ in range(self.rng.randint(0, 3))])
            self.count("option")
            return P.option("L", dflt=P.value([1, 2]) if self.chance(0.5) else None)
        if ty == "section":
            if r < 0.4 or not self.cfg.sections:
                self.count("value")
                return P.value({"X": self.pick(SCALARS)})
            self.count("option")
            return P.option(self.pick(["S", "T", "S.U"]), dflt=P.value({}) if self.chance(0.4) else None)
        if r < 0.25:
            self.count("value")
            return P.value(self.pick(SCALARS))
        if ty == "any" and self.cfg.sections and r < 0.33:
            # an Option that reads a whole section (merged key by key under wrappers) or a nested container
            self.count("option")
            return P.option(self.pick(["S", "T", "S.U", "N"]), dflt=P.value({}) if self.chance(0.3) else None)
        return self.option(ty, 0)

    def plain_leaf(self) -> int:
        """a constant, or an Option without domain (constant default at most)"""
        P = self.P
        if self.chance(0.3):
            self.count("value")
            return P.value(self.pick(SCALARS))
        self.count("option")
        dflt = None
        if self.chance(0.3):
            c = self.pick(SCALARS)
            dflt = P.template(c) if isinstance(c, str) else P.value(c)
        return P.option(self.pick(SAFE_KEYS), dflt=dflt)

    def option(self, ty: str, depth: int) -> int:
        P = self.P
        self.count("option")
        key = self.scalar_key() if ty != "dispatch" else self.pick(DISPATCH_KEYS)
        dflt = None
        r = self.rng.random()
        if r < 0.25:
            c = self.pick(SCALARS if ty != "dispatch" else DISPATCH_VALUES)
            # a string default is a Template in the code
            dflt = P.template(c) if isinstance(c, str) else P.value(c)
        elif r < 0.33 and self.cfg.templates:
            dflt = P.template(self.pick(["{A}", "v{B}", "{S.X}{A}", "\\{A\\}"]))
        elif r < 0.42 and depth > 0:
            dflt = self.expr("scalar", depth - 1)
        elif r < 0.47:
            fv = P.fnvalue(P.const_fn(f"fac{self.n_fn}", self.pick(SCALARS)))
            self.n_fn += 1
            dflt = P.funapp(fv, factory=True)
        elif r < 0.55 and depth > 0 and self.cfg.datasets and ty != "dispatch":
            # a dataset as default: its body runs only when the key is absent and the value is needed
            dflt = self.dataset(max(depth - 2, 0))
        dom = None
        if self.cfg.domains and self.chance(0.3 if self.cfg.raising else 0.12):
            c = self.rng.random()
            if self.cfg.raising and c < 0.4:
                # a user predicate that raises on some supplied values
                self.n_fn += 1
                name = f"dom{self.n_fn}"
                P.const_fn(name, True, **{"raise": {"cls": self.pick(["KeyError", "ValueError", "LookupError", "RuntimeError", "NotImplementedError", "AssertionError"]),
                                                    "on": [self.pick(SCALARS) for _ in range(3)]}})
                dom = P.fnvalue(name)
            elif c < 0.5:
                dom = P.value([x for x in SCALARS if self.chance(0.7)])
            elif c < 0.8:
                dom = P.fnvalue(self.pick(["truthy", "not"])) if self.chance(0.5) else P.fnvalue("ne", self.pick(SCALARS))
            else:
                dom = P.option("ALLOWED", dflt=P.value(list(SCALARS)) if self.chance(0.5) else None)
        return P.option(key, dflt=dflt, dom=dom)

    def dispatch_expr(self, depth: int) -> int:
        """an expression yielding a hashable scalar used to choose a branch"""
        P = self.P
        r = self.rng.random()
        if self.cfg.catch_unsafe and depth > 0 and self.chance(0.3):
            r = 0.75
        if r < 0.45:
            self.count("option")
            return P.option(self.pick(DISPATCH_KEYS), bare=True)
        if r < 0.7:
            self.count("option")
            return P.option(self.pick(DISPATCH_KEYS), dflt=P.value(self.pick(DISPATCH_VALUES)) if self.chance(0.6) else None)
        if r < 0.8 and depth > 0 and self.cfg.catch_unsafe:
            # dispatch that can fail after reading a present key (F19 trigger)
            # a compound dispatch: it fails with an EvaluationError that is not a KeyNotFoundError when the key is absent
            self.count("apply")
            return P.apply(P.option(self.pick(DISPATCH_KEYS), dflt=P.value("x") if self.chance(0.4) else None),
                           P.fnvalue(self.fresh_fn("g") if self.chance(0.5) else "ident"))
        if r < 0.9 and depth > 0 and self.cfg.datasets:
            # a dataset as dispatch: constant body, nothing that can fail (no F19 trigger)
            self.count("dataset")
            self.n_fn += 1
            nid = P.dataset([], fn_name=P.const_fn(f"k{self.n_fn}", self.pick(DISPATCH_VALUES)))
            self.datasets.append(nid)
            return nid
        self.count("value")
        return P.value(self.pick(DISPATCH_VALUES))

    def fn_node(self, kind: str = "any") -> int:
        """a value node holding a one-argument callable"""
        P = self.P
        r = self.rng.random()
        if kind == "pred":
            c = self.pick(["truthy", "not", "eq", "ne", "isin"] if self.cfg.total_fns else ["truthy", "not", "eq", "ne", "lt", "gt", "isin"])
            if c in ("eq", "ne"):
                return P.fnvalue(c, self.pick(SCALARS))
            if c in ("lt", "gt"):
                return P.fnvalue(c, self.pick([0, 1, 2, 5, "y"]))
            if c == "isin":
                return P.fnvalue(c, [x for x in SCALARS if self.chance(0.5)])
            return P.fnvalue(c)
        if r < 0.4:
            return P.fnvalue(self.fresh_fn("g"))
        c = self.pick(["ident", "not", "tostr", "pair", "eq"] if self.cfg.total_fns else ["ident", "not", "tostr", "neg", "add", "pair", "len", "eq"])
        if c == "add":
            return P.fnvalue(c, self.pick([0, 1, 2, "x"]))
        if c in ("pair", "eq"):
            return P.fnvalue(c, self.pick(SCALARS))
        return P.fnvalue(c)

    def _expr(self, ty: str, depth: int) -> int:
        P, cfg = self.P, self.cfg
        if depth <= 0:
            return self.leaf(ty)
        choices: List[Tuple[str, float]] = [("leaf", 2.0), ("switch", 1.2), ("coalesce", 1.0), ("case", 0.8)]
        if ty in ("any", "scalar"):
            choices += [("apply", 1.2), ("template", 0.8 if cfg.templates else 0)]
        if ty == "any":
            choices += [("dataset", 2.0 if cfg.datasets else 0), ("collection", 1.0), ("funapp", 0.8),
                        ("map", cfg.map_weight if cfg.maps else 0), ("all", 0.2 if cfg.all_options else 0),
                        ("pipeline", 0.5), ("dictc", 0.3)]
        if ty == "list":
            choices += [("collection_list", 1.0)]
        if ty in ("any", "list") and not cfg.raising:
            choices += [("lazy_coalesce", 0.4)]
        if cfg.binds:
            choices.append(("bind", 0.5))
        if cfg.wrappers:
            choices.append(("with", 1.0))
        if cfg.cached:
            choices.append(("cached", 0.8))
        tot = sum(w for _, w in choices)
        x = self.rng.random() * tot
        kind = choices[-1][0]
        for k, w in choices:
            if x < w:
                kind = k
                break
            x -= w
        d = depth - 1
        if kind == "leaf":
            return self.leaf(ty)
        if kind == "switch":
            self.count("switch")
            disp = self.dispatch_expr(d)
            keys = self.distinct(DISPATCH_VALUES, self.rng.randint(1, 3))
            lookup = [(k, self.expr(ty, d)) for k in keys]
            dflt = self.expr(ty, d) if self.chance(0.6) else None
            return P.switch(disp, lookup, dflt)
        if kind == "coalesce":
            self.count("coalesce")
            n = self.rng.randint(1, 3)
            ms = []
            for i in range(n):
                if not cfg.catch_unsafe and i < n - 1:
                    # catch-safe member: fails only by an absent first lookup
                    ms.append(P.option(self.pick(SAFE_KEYS) if ty in ("any", "scalar") else ("L" if ty == "list" else "T")))
                    self.count("option")
                else:
                    ms.append(self.expr(ty, d))
            return P.coalesce(ms)
        if kind == "case":
            self.count("case")
            disp = self.expr("scalar", d)
            cases = [(self.fn_node("pred"), self.expr(ty, d)) for _ in range(self.rng.randint(1, 3))]
            for ci in range(len(cases)):
                if self.chance(0.25) and depth > 1:
                    # a condition whose parameter comes from an option (PartialApplication), at any position:
                    # conditions after the matching one must not be evaluated, the matching one is read
                    pk = P.partial(P.fnvalue(self.pick(["eq", "ne"] if cfg.total_fns else ["lt", "gt", "eq"])),
                                   args=[P.option(self.pick(SCALAR_KEYS), dflt=P.value(1) if self.chance(0.6) else None)])
                    cases[ci] = (pk, cases[ci][1])
                    self.count("partial")
            for ci in range(len(cases)):
                if self.chance(0.2) and depth > 1:
                    # a condition produced by a body (a function application returning the predicate): it runs only
                    # if the cases before it did not match
                    from pdl import fn as _fn
                    self.n_fn += 1
                    pred = self.pick([_fn("eq", self.pick(SCALARS)), _fn("ne", self.pick(SCALARS)), _fn("truthy"), _fn("not")])
                    mk = P.fnvalue(P.const_fn(f"mk{self.n_fn}", pred))
                    cases[ci] = (P.funapp(mk, [self.plain_leaf()] if self.chance(0.5) else []), cases[ci][1])
                    self.count("funapp")
            dflt = self.expr(ty, d) if self.chance(0.7) else None
            extra = {"ofirst": 1} if (dflt is not None and self.chance(0.3)) else {}
            return P.case(disp, cases, dflt, **extra)
        if kind == "apply":
            self.count("apply")
            return P.apply(self.expr("scalar", d), self.fn_node(), via=self.pick(["apply", "rshift"]))
        if kind == "template":
            self.count("template")
            if self.chance(0.5):
                return P.template(self.pick(["{A}", "a{B}b", "{S.X}/{A}", "{P}", "n\\{A\\}{B}", "{Q}!", "{L.0}", "{A}{A}"]))
            params = [("p", self.expr("scalar", d))]
            t = self.pick(["{:p:}", "x{:p:}y{A}", "{:p:}{:p:}", "{A}-{:p:}"])
            return P.template(t, params)
        if kind == "dataset":
            return self.dataset(d)
        if kind in ("collection", "collection_list"):
            self.count("collection")
            es = [self.expr("scalar" if self.chance(0.7) else "any", d) for _ in range(self.rng.randint(0, 3))]
            if kind == "collection_list":
                return P.collection("list", es)
            c = self.pick(["list", "tuple", "set"])
            if c == "set":
                es = [self.expr("scalar", d) for _ in range(self.rng.randint(0, 3))]
            return P.collection(c, es)
        if kind == "lazy_coalesce":
            # coalesce over *lazy* members (Iter evaluates to a generator), consumed by the enclosing apply
            self.count("coalesce"); self.count("iter")
            ms = []
            for _ in range(self.rng.randint(1, 3)):
                # leaves only: an element that validates also evaluates (no user code in between)
                ms.append(P.iter([self.plain_leaf() for _ in range(self.rng.randint(1, 3))]))
            if self.chance(0.5):
                ms.append(P.value([0]))
            return P.apply(P.coalesce(ms), P.fnvalue("py:list"))
        if kind == "dictc":
            self.count("collection")
            pairs = [P.iter([P.value(k), self.expr("any", d)]) for k in self.rng.sample(["a", "b", "c"], self.rng.randint(0, 2))]
            return P.apply(P.iter(pairs), P.fnvalue("py:dict"))
        if kind == "funapp":
            self.count("funapp")
            f = P.fnvalue(self.fresh_fn("h"))
            args = [self.expr("any", d) for _ in range(self.rng.randint(0, 2))]
            kw = [(n, self.expr("any", d)) for n in self.rng.sample(["u", "v", "w"], self.rng.randint(0, 2))]
            return P.funapp(f, args, kw)
        if kind == "map":
            self.count("map")
            keys = self.rng.sample(["A", "B", "S.X", "C"], self.rng.randint(1, 2))
            # sometimes the iterable reads the very key it maps (Map(e, {'A': Option('A')}): fan out over a list option)
            import dataclasses
            saved0 = self.cfg
            self.cfg = dataclasses.replace(saved0, maps=False)
            try:
                its = [(k, self.expr("list", min(d, 1))) for k in keys]
            finally:
                self.cfg = saved0
            if self.chance(self.cfg.self_map) and self.cfg.lists:
                its.append(("L", P.option("L")))     # well-typed: L always holds a list
            # no Map inside a Map: the inner one would iterate over what the outer one assigns (ill-typed)
            import dataclasses
            saved = self.cfg
            self.cfg = dataclasses.replace(saved, maps=False)
            try:
                if self.chance(0.3):
                    # the mapped object chooses what it reads from the mapped key: every element has its own key set
                    vals = self.distinct(["x", "y", "z", 1], self.rng.randint(2, 3))
                    its.append(("K", P.value(list(vals)) if self.chance(0.6) else P.option("KS", dflt=P.value(list(vals)))))
                    lookup = [(v, self.plain_leaf() if self.chance(0.6) else self.expr("scalar", max(d - 1, 0))) for v in vals[:-1]]
                    inner = P.switch(P.option("K", bare=True), lookup, self.plain_leaf())
                    self.count("switch")
                else:
                    inner = self.expr("any", d)
            finally:
                self.cfg = saved
            m = P.map(inner, its)
            return P.apply(m, P.fnvalue("py:list"))
        if kind == "all":
            self.count("all")
            return P.all_options()
        if kind == "pipeline":
            self.count("pipeline")
            steps = []
            for _ in range(self.rng.randint(1, 3)):
                if self.chance(0.5):
                    arg = self.dataset(0) if (cfg.datasets and self.chance(0.3)) else self.expr("scalar", min(d, 1))
                    steps.append(P.step(P.partial(P.fnvalue(self.pick(["pair", "eq"] if cfg.total_fns else ["add", "pair", "eq"])),
                                                  kw=[], args=[arg])))
                    self.count("partial")
                else:
                    steps.append(P.step(self.fn_node()))
            pl = None
            for s in steps:
                pl = P.pipeline(s, pl)
            return P.apply(self.expr("scalar", d), pl)
        if kind == "bind":
            self.count("bind")
            # continuations are user functions: they may treat `1` and `True` (equal, same hash) differently
            table = [(k, self.expr(ty, d)) for k in self.rng.sample(SCALARS, self.rng.randint(1, 4))]
            dflt = self.expr(ty, d) if (self.chance(0.7) or cfg.total_fns) else None
            return P.bind(self.expr("scalar", d), table, dflt, cls=self.pick(EXC_CLASSES))
        if kind == "with":
            self.count("with")
            p = self.preset()
            return P.with_options(self.expr(ty, d), p, force=self.chance(0.6))
        if kind == "cached":
            self.count("cached")
            inner = self.expr(ty, d)
            return P.cached(inner, P.new_cache("scripted" if (cfg.scripted_caches and self.chance(0.5)) else "memory"))
        return self.leaf(ty)

    def preset(self) -> Dict[str, Any]:
        """a pre-set / default dictionary overlapping the caller's universe inside sections"""
        d: Dict[str, Any] = {}
        for _ in range(self.rng.randint(1, 3)):
            k = self.pick(SCALAR_KEYS + DISPATCH_KEYS + (["S", "T", "S.U"] if self.cfg.sections else []) + (["P"] if self.cfg.templates else []))
            if k in ("S", "T"):
                d[k] = {sk: (self.pick(SCALARS) if sk != "U" else {"V": self.pick(SCALARS)})
                        for sk in self.rng.sample(["X", "Y", "Z", "U"], self.rng.randint(1, 2))}
            elif k == "S.U":
                d.setdefault("S", {})
                if isinstance(d["S"], dict):
                    d["S"]["U"] = {"V": self.pick(SCALARS)}
            elif k == "P":
                d[k] = self.pick(["{A}", "{B}x"])
            elif k in DISPATCH_KEYS:
                d[k] = self.pick(DISPATCH_VALUES)
            else:
                d[k] = self.pick(SCALARS)
        return d

    def dataset(self, depth: int, scalar_const=None) -> int:
        P, cfg = self.P, self.cfg
        self.count("dataset")
        params = [(n, self.expr("any" if self.chance(0.5) else "scalar", depth))
                  for n in self.rng.sample(["a", "b", "c"], self.rng.randint(0, 3))]
        kw: Dict[str, Any] = {}
        if scalar_const is not None:
            self.n_fn += 1
            name = P.const_fn(f"k{self.n_fn}", scalar_const)
            kw["fn_name"] = name
        else:
            kw["fn_name"] = self.fresh_fn("f")
        if cfg.overloads and self.chance(0.35):
            kw["dispatch"] = self.dispatch_expr(depth)
            kw["table"] = [(k, self.impl(depth)) for k in self.distinct(DISPATCH_VALUES, self.rng.randint(0, 2))]
            if self.chance(0.15):
                kw["abstract"] = True
        if cfg.wrappers and self.chance(0.25):
            kw["options"] = self.preset()
        if cfg.wrappers and self.chance(0.2):
            kw["default_options"] = self.preset()
        if cfg.callbacks and self.chance(0.2):
            kw["callback"] = self.fn_node()
        if cfg.effects and self.chance(0.2):
            effs = []
            for _ in range(self.rng.randint(1, 2)):
                if cfg.effect_reads_options and self.chance(0.5):
                    effs.append(P.partial(P.fnvalue("pair"), args=[P.option("OUT")]))
                else:
                    self.n_fn += 1
                    effs.append(P.fnvalue(P.free(f"eff{self.n_fn}")))
            kw["effects"] = effs
            if self.chance(0.2):
                kw["effects_disabled"] = True
        r = self.rng.random()
        if r < 0.15:
            kw["cache"] = P.new_cache("nocache")
        elif cfg.scripted_caches and r < 0.5:
            kw["cache"] = P.new_cache("scripted")
        nid = P.dataset(params, **kw)
        self.datasets.append(nid)
        return nid

    def impl(self, depth: int) -> int:
        """an overload implementation: another dataset, or a plain evaluatable"""
        if self.chance(0.6) and depth > 0:
            return self.dataset(depth - 1)
        return self.expr("any", max(depth - 1, 0))


# ---------------------------------------------------------------- option dictionaries

def base_options(rng: random.Random, cfg: Cfg) -> Dict[str, Any]:
    o: Dict[str, Any] = {}
    for k in SCALAR_KEYS:
        o[k] = rng.choice(SCALARS)
    if rng.random() < 0.3:
        del o["AB"]
    for k in DISPATCH_KEYS:
        o[k] = rng.choice(DISPATCH_VALUES)
    if cfg.sections:
        o["S"] = {"X": rng.choice(SCALARS), "Y": rng.choice(SCALARS), "U": {"V": rng.choice(SCALARS), "W": rng.choice(SCALARS)}}
        if rng.random() < 0.6:
            o["S"]["XY"] = rng.choice(SCALARS)
        o["T"] = {"X": rng.choice(SCALARS), "Z": rng.choice(SCALARS)}
    if cfg.lists:
        o["L"] = [rng.choice(SCALARS) for _ in range(rng.randint(1, 3))]
    if cfg.templates:
        o["P"] = rng.choice(["{A}", "{S.X}", "plain", "{B}{B}"])
        o["Q"] = rng.choice(["p{A}q{S.X}", "{A}-{B}", "q"])
        o["R"] = rng.choice(["{P}", "r{P}", "{Q}"])
    o["ALLOWED"] = [x for x in SCALARS if rng.random() < 0.8]
    if cfg.templates and cfg.containers_with_templates and rng.random() < 0.5:
        o["N"] = rng.choice([[{"p": "{B}"}, 2], {"k": [{"q": "{A}"}], "m": "{B}"}, [1, [2]]])
    return o


def perturb(rng: random.Random, cfg: Cfg, o: Dict[str, Any]) -> Dict[str, Any]:
    o = copy.deepcopy(o)
    for _ in range(rng.randint(0, 4)):
        r = rng.random()
        keys = list(o.keys())
        if not keys:
            break
        if r < 0.35:
            o.pop(rng.choice(keys), None)
        elif r < 0.6:
            k = rng.choice(SCALAR_KEYS + DISPATCH_KEYS)
            o[k] = rng.choice(SCALARS if k in SCALAR_KEYS else DISPATCH_VALUES)
        elif r < 0.7 and cfg.sections:
            s = rng.choice(["S", "T"])
            if isinstance(o.get(s), dict) and o[s]:
                if rng.random() < 0.5:
                    o[s].pop(rng.choice(list(o[s].keys())), None)
                else:
                    o[s][rng.choice(["X", "Y", "Z"])] = rng.choice(SCALARS)
            else:
                o[s] = {"X": rng.choice(SCALARS)}
        elif r < 0.78 and cfg.templates:
            # reference-closed or dangling, never cyclic: a key only references keys of lower rank
            k = rng.choice(["A", "B"])
            o[k] = rng.choice(["{B}", "t{C}", "\\{x\\}", "{D}{C}"] if k == "A" else ["{C}", "t{C}", "\\{x\\}"])
        elif r < 0.84 and cfg.templates and cfg.containers_with_templates:
            c = rng.random()
            if c < 0.3:
                o["L"] = rng.choice([["{A}", 1], ["{C}", 0, "{B}"]])
            elif c < 0.6:
                o["S"] = rng.choice([{"X": "{B}", "Y": 2}, {"X": 1, "Y": 0, "U": {"V": "{C}"}}])
            else:
                # nested containers holding templates; `N` is only ever read whole (never embedded in a template)
                o["N"] = rng.choice([[{"p": "{B}"}, 2], [["{C}"], 0], {"k": [{"q": "{A}"}], "m": "{B}"}, {"k": {"j": ["{C}"]}}])
        elif r < 0.88 and cfg.scalar_prefix:
            o[rng.choice(["S", "T", "L"])] = rng.choice([5, None, "str"])
        elif r < 0.92 and cfg.switches:
            sw = rng.choice([("CACHE", "DISABLED"), ("CACHE", "DISABLE"), ("EFFECTS", "DISABLED"), ("LOGGING", "DISABLED")])
            o.setdefault("LABREA", {}).setdefault(sw[0], {})[sw[1]] = rng.choice([True, False, 1, 0])
        elif r < 0.96:
            o["ZZ" + str(rng.randint(0, 3))] = rng.choice(SCALARS)   # never mentioned by any graph
    return sort_json(o)


def dict_family(rng: random.Random, cfg: Cfg, n: int) -> List[Dict[str, Any]]:
    base = base_options(rng, cfg)
    fam = [sort_json(base)]
    while len(fam) < n:
        src = rng.choice(fam) if rng.random() < 0.6 else base
        fam.append(perturb(rng, cfg, src))
    if rng.random() < 0.3:
        fam.append({})
    return fam


def random_program(rng: random.Random, cfg: Cfg, n_roots: int = 2, n_dicts: int = 4,
                   history: str = "all4") -> Tuple[Dict[str, Any], Dict[str, int]]:
    g = G(rng, cfg)
    roots = []
    for _ in range(n_roots):
        ty = rng.choice(["any", "any", "scalar"])
        roots.append(g.expr(ty, rng.randint(1, cfg.max_depth)))
    fam = dict_family(rng, cfg, n_dicts)
    P = g.P
    for o in fam:
        for r in roots:
            if history == "all4":
                P.all4(r, o)
            elif history == "eval":
                P.evaluate(r, o)
            if rng.random() < 0.3:
                P.evaluate(r, o)     # repeat: warm caches
        if g.datasets and rng.random() < 0.25:
            d = rng.choice(g.datasets)
            if P.node(P.ovs[P.ov_of(d) - 1]["dispatch"]).get("v") != {"$": "missing"}:
                P.register(d, rng.choice(DISPATCH_VALUES), g.impl(1))
    return P.to_json(), g.kinds

"""C13 — pipelines compose associatively; step parameters come from options and are keyed.

Lean:  lean/LabreaModel/PipelineLL.lean (the `(tail, rest)` linked list of labrea/pipeline.py),
       lean/LabreaModel/Helpers.lean (term language + interpreter for the helper steps of
       labrea/functions.py, hand-written `helperSpec`), theorems in lean/LabreaProps/C13.lean
       (steps_add, add_assoc, add_empty_left/right, transform_add, iter_order, apply_pipeline,
       pipeline_keys/explain, step_partial) and lean/LabreaProps/C13Helpers.lean
       (helper_table_matches: the table GENERATED from the current labrea/functions.py equals
       the hand-written specification, row by row).
Tie:   (0) harness/translate_functions.py regenerates lean/LabreaModel/Generated/HelperTable.lean
           from the current source when this module is imported (before `lake build`);
       (1) random / exhaustive bracketings of `+` over decorated steps with option-valued
           parameters, plain callables, helper steps, nested and empty pipelines are built on the
           real labrea and in the model (drv_pipeline); `list(p)`, `transform` on a typed value
           universe, `keys`, `explain`, `(e >> p)(o)` are compared;
       (2) every helper of labrea.functions is run on free symbolic operands / concrete
           containers with each parameter given as a constant and as an Option, and the result
           term, keys() and explain() are compared with the model's;
       (3) a directed family run in every run (`mutable_family`): steps whose parameters are
           written as constants of every kind (scalars, list / dict / set, containers nested in
           containers and in tuples), built through every public spelling (@pipeline_step on a
           def / keyword-only def / callable object / functools.partial, Value defaults,
           PartialApplication(...), PartialApplication.lift with and without keywords,
           labrea.functions.partial with keyword and positional arguments), whose bodies edit the
           objects they receive in place (append / extend / insert / pop / sort / reverse /
           clear / setdefault / update / ... at any depth); one step object used several times
           in a pipeline and by several pipelines; helpers taking container arguments followed
           by a step editing its input; helper function arguments that edit what they are called
           with.  A step's transform is a function of (x, options) only, so all of (1) applies,
           and the value a body received (logged by deep copy at entry) is the value written.
       (4) a directed family run in every run (`operand_family`): every helper of labrea.functions on
           every kind of container Python programs pass -- collections.Counter, defaultdict (with and
           without a factory), OrderedDict, ChainMap, dict / UserDict / ChainMap subclasses defining
           __missing__, types.MappingProxyType, UserDict / UserList / UserString, a collections.abc.Mapping
           subclass, deque, range, str / bytes / bytearray, named tuples, set / frozenset, dict views,
           generators, list iterators, map / chain objects, an iterator class, classes with only
           __getitem__ (old-style sequence protocol, with and without __len__, by index and by key), only
           __iter__, only __contains__ -- as the pipeline input and as the container parameter; get /
           get_from over every key / index situation (present, absent, 0, negative, -len, len, -len-1, far
           out of range, str index, unhashable key, empty container) with the default omitted, given as
           None, and given as a value; scalar parameters as constants and as Options.  Reference: the
           documented Python equivalent written without labrea (RUNNER.EQUIV; lazy where the builtin named
           by the docstring is lazy) evaluated on operands of its own built from the same description.
           Compared: the value with the types of its containers or the exception class, whether the
           result is the input object, what was pulled from each one-shot operand when the step returned
           and after the result was used up, and the input as the call left it (implementation-only:
           these operands are outside the model's value universe).
Oracle on the implementation alone: iteration order = application order; bracketing does not
change steps / transform / keys; empty pipelines are neutral; (a + b).transform = b after a;
(e >> p)(o) = p.transform(e(o), o); keys()/explain() = union over the steps and contain the
option keys of the parameters; every helper equals the plain Python operation its docstring
names, parameters as constants and as options.
"""
import sys
from pathlib import Path

sys.path.insert(0, str(Path(__file__).resolve().parent.parent))
from common import *  # noqa: F401,F403

import copy
import json
import random
import subprocess
from typing import Any, Dict, List, Optional, Tuple

import translate_functions

# (0) regenerate the helper table from the current source, before main_check builds anything
try:
    TRANSLATED_ROWS, TRANSLATOR_PROBLEMS = translate_functions.generate(write=True)
except Exception as _e:  # unreadable / unparsable source
    TRANSLATED_ROWS, TRANSLATOR_PROBLEMS = [], [f"translator crashed: {type(_e).__name__}: {_e}"]

SPEC = PropSpec(
    pid="C13",
    lean_modules=["LabreaProps.C13", "LabreaProps.C13Helpers"],
    model_files=["LabreaModel/PipelineLL.lean", "LabreaModel/PipelineLemmas.lean", "LabreaModel/Helpers.lean",
                 "LabreaModel/Generated/HelperTable.lean", "DrvPipeline.lean"],
    drivers=["drv_pipeline"],
    trusted_base=[
        "correspondence PipelineLL/Helpers <-> labrea/pipeline.py, application.py, functions.py is checked by "
        "differential execution (and, for functions.py, by the generated table), not proved",
        "harness/translate_functions.py (unverified): its beta-reduction of partial(FN, ...) and its "
        "option-capability analysis; the dynamic run of every helper with Option parameters re-checks both",
        "lean/DrvPipeline.lean JSON glue and the runner inside harness/props/C13.py (unverified glue); the "
        "Python functions used as step bodies are mirrored by hand in DrvPipeline.lean (`prims`)",
        "the Lean interpreter `Helpers.eval` is the meaning given to 'the corresponding Python operation'; it "
        "is compared with CPython on every generated case, not proved against it",
    ],
    assumptions=[
        "step bodies are functions of their arguments; values are "
        "None/bool/int/str/list/tuple/set/dict, records of uninterpreted functions and free symbols",
        "a body (or a function argument of a helper) that edits the objects it receives in place is modelled by the "
        "pure function of the values written in the step's definition: the model evaluates every parameter afresh "
        "at each evaluation, which is what 'evaluated from the same options at evaluation time' is read as; the "
        "bodies of the directed family compute their result from snapshots taken at entry and edit afterwards",
        "parameters are constants or Option(key[, default]) on flat keys with non-templated values; other "
        "Evaluatables behave through the same three methods (evaluate/keys/explain)",
        "all exceptions raised inside an evaluate request are observed as EvaluationError (their class "
        "only); exceptions of step bodies are observed by class name",
        "a step equal to Identity (PipelineStep(Value(_identity))) is the one `identity` step of the model; "
        "steps_add/add_assoc are stated for Pipeline operands (a *step* `Identity` appended to a non-empty "
        "pipeline stays in list(p); it is dropped when it becomes a pipeline of its own)",
        "float results (true division of numbers), str % x, int bit operations, ordering of containers and "
        "`in` on symbolic operands are outside the model (never generated for the model comparison; the "
        "implementation-only oracle covers true division)",
        "call_method's extra *args/**kwargs are constants (documented so)",
    ],
)

# ----------------------------------------------------------------------------- runner (subprocess)

RUNNER = r'''
import sys, json, functools, itertools, types, inspect, copy, collections, collections.abc
from collections.abc import Mapping
import labrea
import labrea.application
from labrea import Option
from labrea.pipeline import Pipeline, PipelineStep, pipeline_step, Identity, _identity
from labrea.types import Value, Evaluatable
from labrea._missing import MISSING
import labrea.functions as F


class Sym:
    """free symbolic operand: every operation builds a term"""
    __slots__ = ("op", "args", "kw")

    def __init__(self, op, args=(), kw=()):
        object.__setattr__(self, "op", op)
        object.__setattr__(self, "args", tuple(args))
        object.__setattr__(self, "kw", tuple(kw))

    def __repr__(self):
        return "Sym(%s)" % self.op if not self.args else "Sym(%s%r)" % (self.op, self.args)

    def __hash__(self):
        return id(self)

    def __deepcopy__(self, memo):
        return self

    def __copy__(self):
        return self

    def __bool__(self):
        raise TypeError("truth value of a symbolic operand")

    def __iter__(self):
        raise TypeError("iteration over a symbolic operand")

    def __len__(self):
        raise TypeError("len of a symbolic operand")

    def __contains__(self, x):
        raise TypeError("membership in a symbolic operand")

    def __neg__(self):
        return Sym("usub", (self,))

    def __getitem__(self, k):
        return Sym("getitem", (self, k))

    def __call__(self, *a, **k):
        return Sym("call", (self,) + a, tuple(k.items()))

    def __getattr__(self, name):
        if name.startswith("__"):
            raise AttributeError(name)
        return Sym("getattr", (self, name))


def _b(op):
    return lambda self, other: Sym(op, (self, other))


def _r(op):
    return lambda self, other: Sym(op, (other, self))


for _py, _op in [("add", "add"), ("sub", "sub"), ("mul", "mult"), ("truediv", "div"), ("floordiv", "floordiv"),
                 ("mod", "mod"), ("and", "bitand"), ("or", "bitor"), ("xor", "bitxor")]:
    setattr(Sym, "__%s__" % _py, _b(_op))
    setattr(Sym, "__r%s__" % _py, _r(_op))
for _py, _op in [("eq", "eq"), ("ne", "noteq"), ("lt", "lt"), ("le", "lte"), ("gt", "gt"), ("ge", "gte")]:
    setattr(Sym, "__%s__" % _py, _b(_op))


class Rec:
    """inert record returned by a free (uninterpreted) function"""

    def __init__(self, f, args, kw):
        self.f, self.args, self.kw = f, tuple(args), tuple(kw)

    def _key(self):
        return (self.f, enc_s(list(self.args)), enc_s([[k, v] for k, v in self.kw]))

    def __eq__(self, other):
        return isinstance(other, Rec) and self._key() == other._key()

    def __ne__(self, other):
        return not self.__eq__(other)

    def __hash__(self):
        return hash(self._key())

    def __repr__(self):
        return "Rec(%s, %r, %r)" % (self.f, self.args, self.kw)


class Mat:
    """2x2 integer matrix: a non-commutative `*` (implementation-only oracle)"""

    def __init__(self, a, b, c, d):
        self.m = (a, b, c, d)

    def __mul__(self, o):
        if not isinstance(o, Mat):
            return NotImplemented
        a, b, c, d = self.m
        e, f, g, h = o.m
        return Mat(a * e + b * g, a * f + b * h, c * e + d * g, c * f + d * h)

    def __eq__(self, o):
        return isinstance(o, Mat) and self.m == o.m

    def __hash__(self):
        return hash(self.m)

    def __repr__(self):
        return "Mat%r" % (self.m,)


class Obj:
    """object with an attribute and a method (get_attribute / call_method oracle)"""

    def __init__(self, value):
        self.value = value

    def meth(self, *a, **k):
        return ("meth", self.value, a, tuple(sorted(k.items())))

    def __eq__(self, o):
        return isinstance(o, Obj) and self.value == o.value

    def __hash__(self):
        return hash(("Obj", self.value))

    def __repr__(self):
        return "Obj(%r)" % (self.value,)


PRIMS = {
    "add": lambda x, k: x + k, "sub": lambda x, k: x - k, "rsub": lambda x, k: k - x,
    "mul": lambda x, k: x * k, "floordiv": lambda x, k: x // k, "neg": lambda x: -x,
    "len": lambda x: len(x), "wrap": lambda x: [x], "eqk": lambda x, k: x == k,
    "is_pos": lambda x: x > 0, "is_even": lambda x: x % 2 == 0, "inc": lambda x: x + 1,
    "dup": lambda x: [x, x], "plus": lambda a, b: a + b, "minus": lambda a, b: a - b,
    "kv_swap": lambda k, v: (v, k), "kv_inc": lambda k, v: (k, v + 1), "v_pos": lambda k, v: v > 0,
    "kw_pair": lambda a, b: (a, b),
}
FREE = {}
FN_NAMES = {}
for _n, _f in PRIMS.items():
    FN_NAMES[id(_f)] = "prim:" + _n


def free_fn(name):
    if name not in FREE:
        def f(*a, **k):
            return Rec(name, a, tuple(k.items()))
        f.__name__ = "free_" + name
        FREE[name] = f
        FN_NAMES[id(f)] = "free:" + name
    return FREE[name]


# ---- bodies that edit what they receive.  What such a body computes is a function of the values it was
# handed (snapshots taken at entry); afterwards it edits the very objects it was handed, in place.  The
# property's reading (and the model's): a parameter is evaluated afresh at every evaluation, so what a body is
# handed is always the constant as written / the option's value, whatever earlier evaluations did to theirs.
MUT = {"entries": 0, "checked": 0, "bad": []}
CUR = {"options": None}          # the dictionary of the evaluation in progress (set by run_pipe)
MFREE = {}


class EditFailed(Exception):
    pass


def scribble(v):
    """edit every container reachable from v, in place"""
    if isinstance(v, list):
        for e in list(v):
            scribble(e)
        v.append("#m")
    elif isinstance(v, dict):
        for e in list(v.values()):
            scribble(e)
        v["#m"] = v.get("#m", 0) + 1
    elif isinstance(v, set):
        v.add("#m%d" % len(v))
    elif isinstance(v, tuple):
        for e in v:
            scribble(e)


def mfree_fn(name):
    """the free function `name`, except that it scribbles over its arguments after reading them"""
    if name not in MFREE:
        def f(*a, **k):
            r = Rec(name, copy.deepcopy(a), tuple(copy.deepcopy(list(k.items()))))
            for v in a:
                scribble(v)
            for v in k.values():
                scribble(v)
            return r
        f.__name__ = "mfree_" + name
        MFREE[name] = f
        FN_NAMES[id(f)] = "free:" + name       # as a value it is the free function it denotes
    return MFREE[name]


def apply_edit(root, path, op, arg, x):
    node = root
    for k in path:
        node = node[k]
    if op == "scribble":
        return scribble(node)
    if isinstance(arg, dict) and "input" in arg:
        # `seen.append(x)`: the input when it is a scalar, else its type name (an implementation that hands out one
        # shared parameter object must not make the parameter contain ever larger copies of itself)
        arg = x if (x is None or isinstance(x, (bool, int, str))) else type(x).__name__
    else:
        arg = dec(arg)
    if op == "append":
        node.append(arg)
    elif op == "extend":
        node.extend(arg)
    elif op == "iadd":
        node += arg
    elif op == "insert":
        node.insert(0, arg)
    elif op == "pop":
        node.pop()
    elif op == "popkey":
        node.pop(arg)
    elif op == "popitem":
        node.popitem()
    elif op == "sort":
        node.sort()
    elif op == "reverse":
        node.reverse()
    elif op == "clear":
        node.clear()
    elif op == "setdefault":
        node.setdefault(arg[0], arg[1])
    elif op == "setitem":
        node[arg[0]] = arg[1]
    elif op == "delitem":
        del node[arg]
    elif op == "update":
        node.update(arg)
    elif op == "add":
        node.add(arg)
    elif op == "discard":
        node.remove(arg)
    else:
        raise ValueError("bad edit %r" % op)


def mut_core(tag, d):
    base = PRIMS[d["prim"]] if d["base"] == "dec" else free_fn(d["name"])
    params = d.get("params", [])
    names = [n for n, _ in params]
    spec = dict((n, b) for n, b in params)
    edits = d.get("edits", [])
    positional = d.get("via") == "fpartial_pos"
    written = dict((n, enc_s(dec(b["c"]))) for n, b in params if "c" in b)

    def core(x, got):
        MUT["entries"] += 1
        xs = copy.deepcopy(x)
        snap = [(n, copy.deepcopy(got[n])) for n in names]          # what the body received, logged at entry
        o = CUR["options"]
        for n, v in snap:
            b = spec[n]
            if "c" in b:
                want_s = written[n]
            elif o is not None and (b["o"] in o or "d" in b):
                want_s = enc_s(resolve_bparam(b, o))
            else:
                continue
            MUT["checked"] += 1
            got_s = enc_s(v)
            if got_s != want_s:
                if len(MUT["bad"]) < 50:
                    MUT["bad"].append({"step": tag, "parameter": n, "written": json.loads(want_s), "received": enc(v),
                                       "evaluation": MUT["entries"]})
                if len(got_s) > 20000:
                    raise EditFailed("parameter %s keeps growing" % n)
        exc = None
        try:
            r = base(*([v for _, v in snap] + [xs])) if positional else base(xs, **dict(snap))
        except Exception as e:
            exc = e
        for target, path, op, arg in edits:
            if target == "x":
                scribble(x)
                continue
            try:
                apply_edit(got[target], path, op, arg, xs)
            except Exception as e:
                raise EditFailed("%s of parameter %s: %s" % (op, target, type(e).__name__))
        if exc is not None:
            raise exc
        return r
    return core


def build_mut(tag, d):
    """every public spelling of a step with parameters: d["via"]"""
    core = mut_core(tag, d)
    params = d.get("params", [])
    names = [n for n, _ in params]
    vals = [bparam(b) for _, b in params]
    via = d.get("via", "dec")
    got = "{%s}" % ", ".join("%r: %s" % (n, n) for n in names)
    ns = {"core": core}
    if via in ("dec", "lift", "decvalue", "deckwonly", "deccallable"):
        for i, v in enumerate(vals):
            ns["_d%d" % i] = Value(v) if (via == "decvalue" and not isinstance(v, Evaluatable)) else v
        defaults = ["%s=_d%d" % (n, i) for i, n in enumerate(names)]
        sig = "x, *, " + ", ".join(defaults) if (via == "deckwonly" and names) else ", ".join(["x"] + defaults)
        if via == "deccallable":
            src = "class StepBody:\n    def __call__(self, %s):\n        return core(x, %s)\nf = StepBody()\n" % (sig, got)
        else:
            src = "def f(%s):\n    return core(x, %s)\n" % (sig, got)
        exec(src, ns)
        f = ns["f"]
        return PipelineStep(labrea.application.PartialApplication.lift(f)) if via == "lift" else pipeline_step(f)
    if via == "fpartial_pos":
        def f(*a):
            return core(a[-1], dict(zip(names, a[:-1])))
        return PipelineStep(F.partial(f, *vals))
    exec("def f(%s):\n    return core(x, %s)\n" % (", ".join(["x"] + names), got), ns)
    f = ns["f"]
    kw = dict(zip(names, vals))
    if via == "liftkw":
        return PipelineStep(labrea.application.PartialApplication.lift(f, **kw))
    if via == "pa":
        return PipelineStep(labrea.application.PartialApplication(f, **kw))
    if via == "decpartial":
        return pipeline_step(functools.partial(f, **kw))
    if via == "fpartial":
        return PipelineStep(F.partial(f, **kw))
    raise ValueError("bad spelling %r" % via)


TYPES = {"int": int, "str": str, "list": list, "tuple": tuple, "dict": dict, "set": set, "bool": bool,
         "Mapping": Mapping, "NoneType": type(None), "object": object}
TYPE_NAMES = {id(v): k for k, v in TYPES.items()}


def dec(j):
    if j is None or isinstance(j, (bool, int, str)):
        return j
    if isinstance(j, list):
        return [dec(x) for x in j]
    if "t" in j:
        return tuple(dec(x) for x in j["t"])
    if "s" in j:
        return set(dec(x) for x in j["s"])
    if "d" in j:
        return {dec(k): dec(v) for k, v in j["d"]}
    if "Y" in j:
        return Sym(j["Y"], [dec(x) for x in j.get("a", [])], [(k, dec(v)) for k, v in j.get("k", [])])
    if "R" in j:
        return Rec(j["R"], [dec(x) for x in j.get("a", [])], [(k, dec(v)) for k, v in j.get("k", [])])
    if "F" in j:
        name = j["F"]
        f = PRIMS[name[5:]] if name.startswith("prim:") else mfree_fn(name[6:]) if name.startswith("mfree:") else free_fn(name[5:])
        a = [dec(x) for x in j.get("a", [])]
        k = {n: dec(v) for n, v in j.get("k", [])}
        return functools.partial(f, *a, **k) if (a or k) else f
    if "M" in j:
        return MISSING
    if "T" in j:
        return TYPES[j["T"]]
    if "mat" in j:
        return Mat(*j["mat"])
    if "obj" in j:
        return Obj(dec(j["obj"]))
    if "float" in j:
        return float(j["float"])
    raise ValueError("bad value %r" % (j,))


ITER_TYPES = (map, filter, itertools.chain, zip, types.GeneratorType)


def enc(o):
    if o is None or isinstance(o, (bool, int, str)):
        return o
    if isinstance(o, float):
        return {"float": repr(o)}
    if isinstance(o, list):
        return [enc(x) for x in o]
    if isinstance(o, tuple):
        return {"t": [enc(x) for x in o]}
    if isinstance(o, (set, frozenset)):
        return {"s": sorted((enc(x) for x in o), key=enc_sortkey)}
    if isinstance(o, (dict, types.MappingProxyType)):
        return {"d": [[enc(k), enc(v)] for k, v in o.items()]}
    if isinstance(o, Sym):
        return {"Y": o.op, "a": [enc(x) for x in o.args], "k": [[k, enc(v)] for k, v in o.kw]}
    if isinstance(o, Rec):
        return {"R": o.f, "a": [enc(x) for x in o.args], "k": [[k, enc(v)] for k, v in o.kw]}
    if o is MISSING:
        return {"M": 1}
    if isinstance(o, functools.partial):
        return {"F": FN_NAMES.get(id(o.func), "?"), "a": [enc(x) for x in o.args],
                "k": [[k, enc(v)] for k, v in o.keywords.items()]}
    if id(o) in FN_NAMES:
        return {"F": FN_NAMES[id(o)], "a": [], "k": []}
    if id(o) in TYPE_NAMES:
        return {"T": TYPE_NAMES[id(o)]}
    if isinstance(o, ITER_TYPES) or type(o).__name__ in ("dict_items", "dict_keys", "dict_values"):
        return [enc(x) for x in o]
    if isinstance(o, (Mat, Obj)):
        return {"py": repr(o)}
    return {"py": type(o).__name__}


def enc_sortkey(e):
    return json.dumps(e, sort_keys=True)


def enc_s(o):
    return json.dumps(enc(o), sort_keys=True)


def bparam(j):
    if "c" in j:
        return dec(j["c"])
    if "d" in j:
        return Option(j["o"], dec(j["d"]))
    return Option(j["o"])


def helper_step(name, args):
    obj = getattr(F, name)
    if not inspect.isfunction(obj):
        if args:
            raise ValueError("%s takes no arguments" % name)
        return obj
    given = dict((n, b) for n, b in args)
    sig = inspect.signature(obj)
    pos, kw, keyword_mode = [], {}, False
    for p in sig.parameters.values():
        b = given.pop(p.name, None)
        if p.kind == p.VAR_POSITIONAL:
            if b is not None:
                pos.extend(bparam(x) for x in b["many"])
            keyword_mode = True
        elif p.kind == p.VAR_KEYWORD:
            if b is not None:
                for n, x in b["dict"]:
                    kw[n] = bparam(x)
        elif b is None:
            keyword_mode = True
        elif keyword_mode:
            kw[p.name] = bparam(b)
        else:
            pos.append(bparam(b))
    if given:
        raise ValueError("unknown parameters %r of %s" % (list(given), name))
    r = obj(*pos, **kw)
    # F.partial returns a bare Evaluatable yielding a callable: use it as `e >> F.partial(..)` does
    return r if isinstance(r, PipelineStep) else PipelineStep(r)


def make_dec(body, params):
    names = [n for n, _ in params]
    ns = {"body": body}
    for i, (n, b) in enumerate(params):
        ns["_d%d" % i] = bparam(b)
    src = "def f(x%s):\n    return body(x%s)\n" % (
        "".join(", %s=_d%d" % (n, i) for i, n in enumerate(names)),
        "".join(", %s=%s" % (n, n) for n in names))
    exec(src, ns)
    return pipeline_step(ns["f"])


class Build:
    def __init__(self, case):
        self.defs = {int(t): d for t, d in case.get("steps", [])}
        self.objs = {}          # tag -> the object used as operand
        self.ids = {}           # id(object) -> tag
        self.alias = {}         # tag -> the tag naming the same object

    def operand(self, tag, as_step):
        """the object for step `tag`: a PipelineStep when as_step, else the raw callable / Evaluatable"""
        key = (tag, as_step)
        if key in self.objs:
            return self.objs[key]
        d = self.defs[tag]
        k = d["k"]
        if k == "dec":
            o = make_dec(PRIMS[d["prim"]], d.get("params", []))
        elif k == "free":
            o = make_dec(free_fn(d["name"]), d.get("params", []))
        elif k in ("plain", "plainfree"):
            f0 = PRIMS[d["prim"]] if k == "plain" else free_fn(d["name"])
            f = (lambda g: (lambda x: g(x)))(f0)      # a callable object of its own for this operand
            self.ids[id(f)] = tag
            o = PipelineStep(Value(f)) if as_step else f
        elif k == "ident":
            if as_step:
                o = Identity if tag % 2 == 0 else PipelineStep(Value(_identity))
            else:
                o = _identity
        elif k == "optfn":
            e = Option(d["key"], dec(d["default"])) if "default" in d else Option(d["key"])
            self.ids[id(e)] = tag
            o = PipelineStep(e) if as_step else e
        elif k == "helper":
            o = helper_step(d["name"], d.get("args", []))
        elif k == "mut":
            o = build_mut(tag, d)
        elif k == "nested":
            o = PipelineStep(self.expr(d["expr"]))
        else:
            raise ValueError("bad step kind %r" % k)
        self.objs[key] = o
        # module-level helper steps (F.negate, ...) are one object however often they are used:
        # the first tag using an object names it
        first = self.ids.setdefault(id(o), tag)
        self.alias[tag] = first
        return o

    def expr(self, e):
        h = e[0]
        if h == "E":
            return Pipeline()
        if h == "S":
            return self.operand(e[1], True)
        if h == "C":
            d = self.defs[e[1]]
            return self.operand(e[1], d["k"] in ("dec", "free", "helper", "nested", "mut"))
        if h == "K":
            s = self.operand(e[1], True)
            return Pipeline(s, self.expr(e[2])) if len(e) > 2 else Pipeline(s)
        if h == "+":
            return self.expr(e[1]) + self.expr(e[2])
        raise ValueError("bad expr %r" % (e,))

    def as_pipeline(self, e):
        """the operand `e` as a pipeline of its own"""
        o = self.expr(e)
        return o if isinstance(o, Pipeline) else Pipeline() + o

    def leaves(self, e):
        h = e[0]
        if h == "+":
            return self.leaves(e[1]) + self.leaves(e[2])
        if h == "K":
            return (self.leaves(e[2]) if len(e) > 2 else []) + [["S", e[1]]]
        return [e]

    def ident(self, s):
        if isinstance(s, PipelineStep) and s == Identity:
            return "Id"
        if id(s) in self.ids:
            return self.ids[id(s)]
        if isinstance(s, PipelineStep):
            if id(s.step) in self.ids:
                return self.ids[id(s.step)]
            if isinstance(s.step, Value) and id(s.step.value) in self.ids:
                return self.ids[id(s.step.value)]
        return "?"


def res(thunk):
    try:
        return {"ok": enc(thunk())}
    except Exception as e:
        return {"err": type(e).__name__}


def keyres(thunk):
    try:
        return {"ok": sorted(set(thunk()))}
    except Exception as e:
        return {"err": type(e).__name__}


def same(a, b):
    """two outcomes agree: equal values, or both raise (the class may differ, see the C13 theorems)"""
    if "ok" in a and "ok" in b:
        return json.dumps(a["ok"], sort_keys=True) == json.dumps(b["ok"], sort_keys=True)
    return "err" in a and "err" in b


def option_keys(b, case, acc):
    """the option keys named by the parameters of the steps of expression leaves"""
    def of_bparam(p):
        if "o" in p:
            acc.append((p["o"], "d" in p))
    def of_binding(x):
        if "many" in x:
            for p in x["many"]:
                of_bparam(p)
        elif "dict" in x:
            for _, p in x["dict"]:
                of_bparam(p)
        else:
            of_bparam(x)
    def of_step(tag):
        d = b.defs[tag]
        if d["k"] in ("dec", "free", "mut"):
            for _, p in d.get("params", []):
                of_bparam(p)
        elif d["k"] == "helper":
            for _, x in d.get("args", []):
                of_binding(x)
        elif d["k"] == "optfn":
            acc.append((d["key"], "default" in d))
        elif d["k"] == "nested":
            of_expr(d["expr"])
    def of_expr(e):
        if e[0] == "+":
            of_expr(e[1]); of_expr(e[2])
        elif e[0] == "K":
            of_step(e[1])
            if len(e) > 2:
                of_expr(e[2])
        elif e[0] in ("S", "C"):
            of_step(e[1])
    of_expr(case["expr"])


def run_pipe(case):
    MUT.update(entries=0, checked=0, bad=[])
    b = Build(case)
    options = {k: dec(v) for k, v in case.get("options", [])}
    CUR["options"] = options
    inputs = [dec(x) for x in case.get("inputs", [])]
    p = b.expr(case["expr"])
    out = {"iter": [b.ident(s) for s in p], "empty": bool(p.empty),
           "tf": [res(lambda x=x: p.transform(copy.deepcopy(x), options)) for x in inputs],
           "keys": keyres(lambda: p.keys(options)), "explain": keyres(lambda: p.explain(options))}
    oracle = []
    src = None
    if "source" in case:
        sj = case["source"]
        src = Value(dec(sj["c"])) if "c" in sj else bparam(sj)
        ep = src >> p
        out["apply"] = res(lambda: ep(options))
        out["akeys"] = keyres(lambda: ep.keys(options))
        out["aexplain"] = keyres(lambda: ep.explain(options))
        # (e >> p)(o) == p.transform(e(o), o)
        direct = res(lambda: p.transform(src(options), options))
        if not same(out["apply"], direct):
            oracle.append({"what": "(e >> p)(o) differs from p.transform(e(o), o)",
                           "detail": {"apply": out["apply"], "direct": direct}})
    # iteration order is application order
    for x, r in zip(inputs, out["tf"]):
        def fold(x=x):
            y = copy.deepcopy(x)
            for s in p:
                y = s.transform(y, options)
            return y
        fr = res(fold)
        if not same(r, fr):
            oracle.append({"what": "applying the steps in iteration order differs from transform",
                           "detail": {"input": enc(x), "transform": r, "fold": fr}})
    # keys / explain are the union over the steps
    for name in ("keys", "explain"):
        def union(name=name):
            acc = set()
            for s in p:
                acc |= getattr(s, name)(options)
            return acc
        ur = keyres(union)
        if not same(out[name], ur):
            oracle.append({"what": "%s() is not the union of the steps' %s()" % (name, name),
                           "detail": {name: out[name], "union": ur}})
    # option-valued parameters are reported
    named = []
    option_keys(b, case, named)
    if "ok" in out["keys"]:
        missing = sorted({k for k, _ in named if k in options} - set(out["keys"]["ok"]))
        if missing:
            oracle.append({"what": "option keys of step parameters missing from keys()", "detail": {"missing": missing, "keys": out["keys"]}})
    if "ok" in out["explain"]:
        missing = sorted({k for k, has_default in named if (k in options or not has_default)} - set(out["explain"]["ok"]))
        if missing:
            oracle.append({"what": "option keys of step parameters missing from explain()", "detail": {"missing": missing, "explain": out["explain"]}})
    # bracketing: the left-nested chain of the same operands, each as a pipeline of its own
    leaves = b.leaves(case["expr"])
    ref = Pipeline()
    for leaf in leaves:
        ref = ref + b.as_pipeline(leaf)
    strip = lambda xs: [t for t in xs if t != "Id"]
    ref_iter = [b.ident(s) for s in ref]
    if strip(ref_iter) != strip(out["iter"]):
        oracle.append({"what": "list(p) depends on the bracketing of +", "detail": {"iter": out["iter"], "left_nested": ref_iter}})
    expect = []
    for leaf in leaves:
        if leaf[0] in ("S", "C") and b.defs[leaf[1]]["k"] != "ident":
            expect.append(b.alias.get(leaf[1], leaf[1]))
    if strip(out["iter"]) != expect:
        oracle.append({"what": "list(p) is not the sequence of composed steps", "detail": {"iter": out["iter"], "operands": expect}})
    for x, r in zip(inputs, out["tf"]):
        rr = res(lambda x=x: ref.transform(copy.deepcopy(x), options))
        if not same(r, rr):
            oracle.append({"what": "transform depends on the bracketing of + / on empty pipelines",
                           "detail": {"input": enc(x), "transform": r, "left_nested": rr}})
    for name in ("keys", "explain"):
        rr = keyres(lambda name=name: getattr(ref, name)(options))
        if not same(out[name], rr):
            oracle.append({"what": "%s() depends on the bracketing of +" % name, "detail": {name: out[name], "left_nested": rr}})
    # (a + b).transform(x, o) == b.transform(a.transform(x, o), o) at the top-level +
    e = case["expr"]
    if e[0] == "+":
        a, c = b.as_pipeline(e[1]), b.as_pipeline(e[2])
        ab = a + c
        for x in inputs:
            lhs = res(lambda x=x: ab.transform(copy.deepcopy(x), options))
            rhs = res(lambda x=x: c.transform(a.transform(copy.deepcopy(x), options), options))
            if not same(lhs, rhs):
                oracle.append({"what": "(p + q).transform(x, o) differs from q.transform(p.transform(x, o), o)",
                               "detail": {"input": enc(x), "lhs": lhs, "rhs": rhs}})
        # empty pipeline on either side
        for name, q in (("p + Pipeline()", ab + Pipeline()), ("Pipeline() + p", Pipeline() + ab)):
            if [b.ident(s) for s in q] != [b.ident(s) for s in ab]:
                oracle.append({"what": "%s changes list(p)" % name,
                               "detail": {"p": [b.ident(s) for s in ab], "with_empty": [b.ident(s) for s in q]}})
    # history independence: a long-lived pipeline evaluated on other dictionaries in between (a defaulted parameter's
    # key absent, then present, or the other way round) gives what a freshly built one gives; and, after all the
    # evaluations above (of p and of the other pipelines sharing its step objects), evaluating it on the same
    # dictionary once more gives what a freshly built one gives
    others = []
    for k, has_default in sorted(set(named)):
        if not has_default:
            continue
        o2 = dict(options)
        if k in o2:
            del o2[k]
        else:
            o2[k] = 7
        others.append(o2)
    if case.get("family") == "mut" or any(d["k"] == "mut" for d in b.defs.values()):
        others = [dict(options)] + others[:1]
    for o2 in others:
        CUR["options"] = o2
        fresh = Build(case).expr(case["expr"])
        for x in inputs:
            warm = res(lambda x=x: p.transform(copy.deepcopy(x), o2))
            cold = res(lambda x=x: fresh.transform(copy.deepcopy(x), o2))
            if not same(warm, cold):
                oracle.append({"what": "transform depends on what the pipeline was evaluated with earlier",
                               "detail": {"input": enc(x), "first": enc_s(options), "then": enc_s(o2), "got": warm, "fresh": cold}})
        CUR["options"] = options
        for x, r in zip(inputs, out["tf"]):
            again = res(lambda x=x: p.transform(copy.deepcopy(x), options))
            if not same(again, r):
                oracle.append({"what": "transform on the same dictionary changed after the pipeline was evaluated on another one",
                               "detail": {"input": enc(x), "options": enc_s(options), "between": enc_s(o2), "before": r, "after": again}})
    # what a step body received for a parameter is the constant as written (the option's value), every time
    if MUT["bad"]:
        oracle.insert(0, {"what": "a step body received a parameter value other than the one written in the step's definition",
                          "detail": {"first": MUT["bad"][0], "count": len(MUT["bad"])}})
    out["mut"] = {"entries": MUT["entries"], "checked": MUT["checked"]}
    out["oracle"] = oracle
    out["alias"] = {str(t): a for t, a in b.alias.items() if t != a}
    return out


# the plain Python operation named by each helper's docstring: f(input, **parameters)
def _get(x, k, default=MISSING):
    try:
        return x[k]
    except (KeyError, IndexError):
        if default is MISSING:
            raise
        return default


def _ensure(x, pred, msg=MISSING):
    assert pred(x)
    return x


ORACLE = {
    "partial": lambda x, __func, args=(), kwargs={}: __func(*args, x, **kwargs),
    "map": lambda x, func: [func(a) for a in x],
    "filter": lambda x, func: [a for a in x if func(a)],
    "reduce": lambda x, func, initial=MISSING: functools.reduce(func, x) if initial is MISSING else functools.reduce(func, x, initial),
    "into": lambda x, func: func(**x) if isinstance(x, Mapping) else func(*x),
    "flatten": lambda x: [b for a in x for b in a],
    "flatmap": lambda x, func: [b for a in x for b in func(a)],
    "map_items": lambda x, func: dict(func(k, v) for k, v in x.items()),
    "map_keys": lambda x, func: {func(k): v for k, v in x.items()},
    "map_values": lambda x, func: {k: func(v) for k, v in x.items()},
    "filter_items": lambda x, func: {k: v for k, v in x.items() if func(k, v)},
    "filter_keys": lambda x, func: {k: v for k, v in x.items() if func(k)},
    "filter_values": lambda x, func: {k: v for k, v in x.items() if func(v)},
    "concat": lambda x, iterable: list(x) + list(iterable),
    "append": lambda x, item: list(x) + [item],
    "intersect": lambda x, collection: set(x) & set(collection),
    "union": lambda x, collection: set(x) | set(collection),
    "difference": lambda x, collection: set(x) - set(collection),
    "symmetric_difference": lambda x, collection: set(x) ^ set(collection),
    "get": lambda x, __x, default=MISSING: _get(x, __x, default),
    "get_from": lambda x, __x, default=MISSING: _get(__x, x, default),
    "add": lambda x, __x: x + __x,
    "subtract": lambda x, __x: x - __x,
    "multiply": lambda x, __x: x * __x,
    "left_multiply": lambda x, __x: __x * x,
    "divide_by": lambda x, __x: x / __x,
    "divide_into": lambda x, __x: __x / x,
    "negate": lambda x: -x,
    "modulo": lambda x, __x: x % __x,
    "merge": lambda x, mapping: {**x, **mapping},
    "length": lambda x: len(x),
    "instance_of": lambda x, types=(): isinstance(x, tuple(types)),
    "all": lambda x, funcs=(): all(f(x) for f in funcs),
    "any": lambda x, funcs=(): any(f(x) for f in funcs),
    "invert": lambda x, func=(lambda a: a): not func(x),
    "eq": lambda x, value: x == value,
    "ne": lambda x, value: x != value,
    "gt": lambda x, value: x > value,
    "ge": lambda x, value: x >= value,
    "lt": lambda x, value: x < value,
    "le": lambda x, value: x <= value,
    "has_remainder": lambda x, divisor, reminder: x % divisor == reminder,
    "positive": lambda x: x > 0,
    "negative": lambda x: x < 0,
    "non_positive": lambda x: x <= 0,
    "non_negative": lambda x: x >= 0,
    "even": lambda x: x % 2 == 0,
    "odd": lambda x: x % 2 == 1,
    "is_none": lambda x: x is None,
    "is_not_none": lambda x: x is not None,
    "is_in": lambda x, container: x in container,
    "is_not_in": lambda x, container: x not in container,
    "one_of": lambda x, items=(): x in tuple(items),
    "none_of": lambda x, items=(): x not in tuple(items),
    "contains": lambda x, value: value in x,
    "does_not_contain": lambda x, value: value not in x,
    "intersects": lambda x, iterable: bool(set(x) & set(iterable)),
    "disjoint_from": lambda x, iterable: not (set(x) & set(iterable)),
    "ensure": lambda x, __predicate, __msg=MISSING: _ensure(x, __predicate, __msg),
    "get_attribute": lambda x, __name: getattr(x, __name),
    "call_method": lambda x, __name, args=(), kwargs={}: getattr(x, __name)(*args, **kwargs),
}


def resolve_bparam(p, options):
    """the value a parameter binding denotes under the options (harness-side, independent of labrea)"""
    if "c" in p:
        return dec(p["c"])
    if p["o"] in options:
        return options[p["o"]]
    if "d" in p:
        return dec(p["d"])
    raise KeyError(p["o"])


def resolve_binding(x, options):
    if "many" in x:
        return tuple(resolve_bparam(p, options) for p in x["many"])
    if "dict" in x:
        return {n: resolve_bparam(p, options) for n, p in x["dict"]}
    return resolve_bparam(x, options)


def binding_keys(x):
    ps = x["many"] if "many" in x else [p for _, p in x["dict"]] if "dict" in x else [x]
    return [(p["o"], "d" in p) for p in ps if "o" in p]


def run_helper(case):
    name = case["name"]
    options = {k: dec(v) for k, v in case.get("options", [])}
    x = dec(case["input"])
    step = helper_step(name, case.get("args", []))
    out = {"tf": res(lambda: step.transform(copy.deepcopy(x), options)),
           "keys": keyres(lambda: step.keys(options)), "explain": keyres(lambda: step.explain(options))}
    oracle = []
    # the same step object evaluated again (and once through >>) gives the same value
    again = res(lambda: step.transform(copy.deepcopy(x), options))
    piped = res(lambda: (Value(x) >> step)(options))
    for how, r in (("evaluated a second time", again), ("applied with >>", piped)):
        if not same(out["tf"], r):
            oracle.append({"what": "helper %s gives another value when %s" % (name, how),
                           "detail": {"first": out["tf"], "then": r}})
    named = [k for _, b in case.get("args", []) for k in binding_keys(b)]
    if "ok" in out["keys"]:
        missing = sorted({k for k, _ in named if k in options} - set(out["keys"]["ok"]))
        if missing:
            oracle.append({"what": "helper %s: option keys of its parameters missing from keys()" % name,
                           "detail": {"missing": missing, "keys": out["keys"]}})
    elif all((k in options or d) for k, d in named):
        oracle.append({"what": "helper %s: keys() raises although every parameter can be evaluated" % name,
                       "detail": {"keys": out["keys"]}})
    if "ok" in out["explain"]:
        missing = sorted({k for k, d in named if (k in options or not d)} - set(out["explain"]["ok"]))
        if missing:
            oracle.append({"what": "helper %s: option keys of its parameters missing from explain()" % name,
                           "detail": {"missing": missing, "explain": out["explain"]}})
    if case.get("oracle", True) and name in ORACLE:
        def expected():
            try:
                vals = {n: resolve_binding(b, options) for n, b in case.get("args", [])}
            except KeyError:
                raise labrea.exceptions.EvaluationError("parameter cannot be evaluated", None)
            return ORACLE[name](copy.deepcopy(x), **vals)
        er = res(expected)
        ok = same(out["tf"], er) and (("ok" in er) or er["err"] == out["tf"].get("err"))
        if not ok:
            oracle.append({"what": "helper %s does not compute the documented Python operation" % name,
                           "detail": {"got": out["tf"], "expected": er}})
    out["oracle"] = oracle
    return out


# ---- the operand kinds of the directed family `operand_family`: the containers Python programs hand to the helper
# steps, written {"K": kind, "v": payload} in the case language and built afresh for every evaluation
TRACK = []          # one counter per one-shot operand built for the evaluation in progress: items pulled from it


def _counting(items):
    slot = [0]
    TRACK.append(slot)

    def g():
        for it in items:
            slot[0] += 1
            yield it
    return g()


def _same(a):
    return a


class IterClass:
    """an iterator written as a class; copies (labrea copies constants it can copy) count into the same slot"""

    def __init__(self, items):
        self.items, self.pos, self.slot = list(items), 0, len(TRACK)
        TRACK.append([0])

    def __iter__(self):
        return self

    def __next__(self):
        if self.pos >= len(self.items):
            raise StopIteration
        self.pos += 1
        if self.slot < len(TRACK):
            TRACK[self.slot][0] += 1
        return self.items[self.pos - 1]


class DictMissing(dict):
    def __missing__(self, key):
        return ("missing", key)


class DictMissingRaises(dict):
    def __missing__(self, key):
        raise KeyError(key)


class UserDictMissing(collections.UserDict):
    def __missing__(self, key):
        return ("missing", key)


class ChainMapMissing(collections.ChainMap):
    def __missing__(self, key):
        return ("missing", key)


class AbcMapping(Mapping):
    def __init__(self, pairs):
        self._d = dict(pairs)

    def __getitem__(self, k):
        return self._d[k]

    def __iter__(self):
        return iter(self._d)

    def __len__(self):
        return len(self._d)


class GetItemOnly:
    """the old-style sequence protocol: __getitem__ on 0, 1, ... until IndexError; nothing else"""

    def __init__(self, items):
        self._items = list(items)

    def __getitem__(self, i):
        if not isinstance(i, int):
            raise TypeError("indices must be integers")
        if i < 0 or i >= len(self._items):
            raise IndexError(i)
        return self._items[i]


class GetItemLen(GetItemOnly):
    def __len__(self):
        return len(self._items)


class IterOnly:
    def __init__(self, items):
        self._items = list(items)

    def __iter__(self):
        return iter(self._items)


class ContainsOnly:
    def __init__(self, items):
        self._items = list(items)

    def __contains__(self, x):
        return x in self._items


class KeyedGetItemOnly:
    """a record: __getitem__ by key (KeyError when absent); nothing else"""

    def __init__(self, pairs):
        self._d = dict(pairs)

    def __getitem__(self, k):
        return self._d[k]


_NT = {}


def _namedtuple(items):
    n = len(items)
    if n not in _NT:
        _NT[n] = collections.namedtuple("Row%d" % n, ["f%d" % i for i in range(n)])
    return _NT[n](*items)


def _pairs(v):
    return [(dec(k), dec(x)) for k, x in v]


def _items(v):
    return [dec(x) for x in v]


def _chain(cls, v):
    p = _pairs(v)
    return cls(dict(p[:1]), dict(p[1:]))


KINDS = {
    "dict": lambda v: dict(_pairs(v)),
    "counter": lambda v: collections.Counter(dict(_pairs(v))),
    "defaultdict_list": lambda v: collections.defaultdict(list, _pairs(v)),
    "defaultdict_int": lambda v: collections.defaultdict(int, _pairs(v)),
    "defaultdict_nofactory": lambda v: collections.defaultdict(None, _pairs(v)),
    "ordereddict": lambda v: collections.OrderedDict(_pairs(v)),
    "chainmap": lambda v: _chain(collections.ChainMap, v),
    "chainmap_missing": lambda v: _chain(ChainMapMissing, v),
    "dict_missing": lambda v: DictMissing(_pairs(v)),
    "dict_missing_raises": lambda v: DictMissingRaises(_pairs(v)),
    "mappingproxy": lambda v: types.MappingProxyType(dict(_pairs(v))),
    "userdict": lambda v: collections.UserDict(dict(_pairs(v))),
    "userdict_missing": lambda v: UserDictMissing(dict(_pairs(v))),
    "abc_mapping": lambda v: AbcMapping(_pairs(v)),
    "keyed_getitem_only": lambda v: KeyedGetItemOnly(_pairs(v)),
    "list": lambda v: _items(v),
    "tuple": lambda v: tuple(_items(v)),
    "str": lambda v: str(v),
    "bytes": lambda v: v.encode("latin1"),
    "bytearray": lambda v: bytearray(v.encode("latin1")),
    "range": lambda v: range(*v),
    "deque": lambda v: collections.deque(_items(v)),
    "userlist": lambda v: collections.UserList(_items(v)),
    "userstring": lambda v: collections.UserString(v),
    "namedtuple": lambda v: _namedtuple(_items(v)),
    "set": lambda v: set(_items(v)),
    "frozenset": lambda v: frozenset(_items(v)),
    "dict_keys": lambda v: dict(_pairs(v)).keys(),
    "dict_values": lambda v: dict(_pairs(v)).values(),
    "dict_items": lambda v: dict(_pairs(v)).items(),
    "generator": lambda v: _counting(_items(v)),
    "list_iterator": lambda v: iter(_items(v)),
    "map_object": lambda v: map(_same, _counting(_items(v))),
    "chain_object": lambda v: itertools.chain(_counting(_items(v))),
    "iterator_class": lambda v: IterClass(_items(v)),
    "getitem_only": lambda v: GetItemOnly(_items(v)),
    "getitem_len": lambda v: GetItemLen(_items(v)),
    "iter_only": lambda v: IterOnly(_items(v)),
    "contains_only": lambda v: ContainsOnly(_items(v)),
}
SHOWN = {
    "dict": "%s", "counter": "collections.Counter(%s)", "defaultdict_list": "collections.defaultdict(list, %s)",
    "defaultdict_int": "collections.defaultdict(int, %s)", "defaultdict_nofactory": "collections.defaultdict(None, %s)",
    "ordereddict": "collections.OrderedDict(%s)", "mappingproxy": "types.MappingProxyType(%s)",
    "userdict": "collections.UserDict(%s)", "list": "%s", "str": "%s", "userstring": "collections.UserString(%s)",
    "deque": "collections.deque(%s)", "userlist": "collections.UserList(%s)", "set": "set(%s)",
    "frozenset": "frozenset(%s)", "dict_keys": "%s.keys()", "dict_values": "%s.values()", "dict_items": "%s.items()",
    "generator": "(a for a in %s)", "list_iterator": "iter(%s)", "map_object": "map(lambda a: a, (a for a in %s))",
    "chain_object": "itertools.chain((a for a in %s))", "tuple": "tuple(%s)",
    "namedtuple": "Row(*%s)  # Row = collections.namedtuple('Row', 'f0 f1 ...')",
    "dict_missing": "DictMissing(%s)  # class DictMissing(dict): __missing__ = lambda self, key: ('missing', key)",
    "dict_missing_raises": "DictMissingRaises(%s)  # a dict subclass whose __missing__ raises KeyError(key)",
    "userdict_missing": "UserDictMissing(%s)  # a collections.UserDict subclass with __missing__ = lambda self, key: ('missing', key)",
    "abc_mapping": "AbcMapping(%s)  # a collections.abc.Mapping subclass over a dict (__getitem__, __iter__, __len__)",
    "keyed_getitem_only": "KeyedGetItemOnly(%s)  # a class with only __getitem__(key) over a dict",
    "iterator_class": "IterClass(%s)  # a class with __iter__ returning self and __next__",
    "getitem_only": "GetItemOnly(%s)  # a class with only __getitem__(int), IndexError past the end",
    "getitem_len": "GetItemLen(%s)  # a class with only __getitem__(int) and __len__",
    "iter_only": "IterOnly(%s)  # a class with only __iter__",
    "contains_only": "ContainsOnly(%s)  # a class with only __contains__",
}
for _t, _n in [("Sequence", collections.abc.Sequence), ("Iterable", collections.abc.Iterable),
               ("Iterator", collections.abc.Iterator), ("Set", collections.abc.Set), ("Sized", collections.abc.Sized),
               ("Hashable", collections.abc.Hashable), ("Container", collections.abc.Container),
               ("Counter", collections.Counter), ("frozenset", frozenset), ("bytes", bytes)]:
    TYPES[_t] = _n
    TYPE_NAMES[id(_n)] = _t
# functions defined on operands of every type (the operand family's function arguments)
PRIM_SRC = {
    "pair": "lambda a: (a, a)", "ident": "lambda a: a", "box": "lambda a: [a]", "gen2": "lambda a: (b for b in (a, a))",
    "keep": "lambda a: a not in (10, 'a', 1, 97, ('a', 1), (1, 10))", "nest": "lambda acc, b: (acc, b)",
    "capture": "lambda *a, **k: ('call', a, tuple(sorted(k.items())))", "kv_box": "lambda k, v: ((k,), [v])",
    "k_tuple": "lambda k: (k,)", "kv_keep": "lambda k, v: k not in ('a', 1)", "truthy": "lambda a: bool(a)",
    "longer": "lambda a: len(a) > 1",
}
for _n, _src in PRIM_SRC.items():
    _f = eval(_src)
    PRIMS[_n] = _f
    FN_NAMES[id(_f)] = "prim:" + _n


def show(j):
    """a case-language value as Python source (for the reproducer printed with a finding)"""
    if j is None or isinstance(j, (bool, int, str)):
        return repr(j)
    if isinstance(j, list):
        return "[%s]" % ", ".join(show(x) for x in j)
    if "K" in j:
        k, v = j["K"], j["v"]
        if k in ("bytes", "bytearray"):
            return ("%r" if k == "bytes" else "bytearray(%r)") % v.encode("latin1")
        if k == "range":
            return "range(%s)" % ", ".join(str(a) for a in v)
        if k in ("chainmap", "chainmap_missing"):
            return "%s(%s, %s)" % ("collections.ChainMap" if k == "chainmap" else "ChainMapMissing",
                                   show({"d": v[:1]}), show({"d": v[1:]}))
        inner = repr(v) if isinstance(v, str) else show({"d": v}) if k in PAIR_KINDS else show(v)
        return SHOWN[k] % inner
    if "t" in j:
        return "(%s)" % "".join(show(x) + ", " for x in j["t"])
    if "s" in j:
        return "{%s}" % ", ".join(show(x) for x in j["s"]) if j["s"] else "set()"
    if "d" in j:
        return "{%s}" % ", ".join("%s: %s" % (show(k), show(v)) for k, v in j["d"])
    if "F" in j:
        return "(%s)" % PRIM_SRC[j["F"][5:]] if j["F"][5:] in PRIM_SRC else j["F"]
    if "T" in j:
        return j["T"]
    return json.dumps(j)


PAIR_KINDS = {"dict", "counter", "defaultdict_list", "defaultdict_int", "defaultdict_nofactory", "ordereddict", "chainmap",
              "chainmap_missing", "dict_missing", "dict_missing_raises", "mappingproxy", "userdict", "userdict_missing",
              "abc_mapping", "keyed_getitem_only", "dict_keys", "dict_values", "dict_items"}
_dec_plain = dec


def dec(j):          # noqa: F811  (the case language plus operand kinds)
    if isinstance(j, dict) and "K" in j:
        return KINDS[j["K"]](j["v"])
    return _dec_plain(j)


def enc2(o, depth=0):
    """a result with the types of its containers (a Counter is not a dict, a chain object is not a list);
    iterators are drained: {"iterator": [...]} plus the class of the exception that ended it, if any"""
    if depth > 8:
        return {"py": "deep"}
    if o is None or isinstance(o, (bool, int, str)):
        return o
    if isinstance(o, float):
        return {"float": repr(o)}
    t = type(o)
    e = lambda a: enc2(a, depth + 1)      # noqa: E731
    if t is list:
        return [e(a) for a in o]
    if t is tuple:
        return {"t": [e(a) for a in o]}
    if t is dict:
        return {"d": [[e(k), e(v)] for k, v in o.items()]}
    if isinstance(o, (bytes, bytearray)):
        return {"T": t.__name__, "v": bytes(o).decode("latin1")}
    if isinstance(o, range):
        return {"T": "range", "v": [o.start, o.stop, o.step]}
    if isinstance(o, (set, frozenset)) or t.__name__ in ("dict_keys", "dict_items"):
        try:
            return {"T": t.__name__, "v": sorted((e(a) for a in o), key=enc_sortkey)}
        except Exception as x:
            return {"T": t.__name__, "raised": type(x).__name__}
    if isinstance(o, collections.ChainMap):
        return {"T": t.__name__, "maps": [e(m) for m in o.maps]}
    if isinstance(o, collections.defaultdict):
        return {"T": t.__name__, "factory": getattr(o.default_factory, "__name__", None), "d": [[e(k), e(v)] for k, v in o.items()]}
    if isinstance(o, (dict, types.MappingProxyType, collections.UserDict, AbcMapping)):
        return {"T": t.__name__, "d": [[e(k), e(o[k])] for k in list(o)]}
    if isinstance(o, (GetItemOnly, IterOnly, ContainsOnly)):
        return {"T": t.__name__, "v": [e(a) for a in o._items]}
    if isinstance(o, KeyedGetItemOnly):
        return {"T": t.__name__, "d": [[e(k), e(v)] for k, v in o._d.items()]}
    if isinstance(o, collections.UserString):
        return {"T": t.__name__, "v": o.data}
    if isinstance(o, (list, tuple, collections.deque, collections.UserList)) or t.__name__ == "dict_values":
        return {"T": t.__name__, "v": [e(a) for a in o]}
    if isinstance(o, (Sym, Rec)) or o is MISSING:
        return enc(o)
    if isinstance(o, type):
        return {"type": o.__name__}
    if hasattr(o, "__next__"):
        got, it = [], iter(o)
        while len(got) < 200:
            try:
                got.append(e(next(it)))
            except StopIteration:
                return {"iterator": got}
            except Exception as x:
                return {"iterator": got, "raised": type(x).__name__}
        return {"iterator": got, "unbounded": True}
    if id(o) in FN_NAMES:
        return {"F": FN_NAMES[id(o)]}
    return {"py": t.__name__}


_ABSENT = object()


def _item(x, k, default=_ABSENT):
    try:
        return x[k]
    except (KeyError, IndexError):
        if default is _ABSENT:
            raise
        return default


def _assert(x, pred):
    assert pred(x)
    return x


# the documented Python equivalent of every helper, written without labrea: f(input, **parameters).  Lazy where the
# builtin the docstring names is lazy (map, filter, itertools.chain), so that what is pulled from a one-shot
# operand, and when, is part of the comparison
EQUIV = {
    "partial": lambda x, __func, args=(), kwargs={}: functools.partial(__func, *args, **kwargs)(x),
    "map": lambda x, func: map(func, x),
    "filter": lambda x, func: filter(func, x),
    "reduce": lambda x, func, initial=_ABSENT: functools.reduce(func, x) if initial is _ABSENT else functools.reduce(func, x, initial),
    "into": lambda x, func: func(**x) if isinstance(x, Mapping) else func(*x),
    "flatten": lambda x: itertools.chain.from_iterable(x),
    "flatmap": lambda x, func: itertools.chain.from_iterable(map(func, x)),
    "map_items": lambda x, func: types.MappingProxyType(dict(func(k, v) for k, v in x.items())),
    "map_keys": lambda x, func: types.MappingProxyType(dict((func(k), v) for k, v in x.items())),
    "map_values": lambda x, func: types.MappingProxyType(dict((k, func(v)) for k, v in x.items())),
    "filter_items": lambda x, func: types.MappingProxyType(dict((k, v) for k, v in x.items() if func(k, v))),
    "filter_keys": lambda x, func: types.MappingProxyType(dict((k, v) for k, v in x.items() if func(k))),
    "filter_values": lambda x, func: types.MappingProxyType(dict((k, v) for k, v in x.items() if func(v))),
    "concat": lambda x, iterable: itertools.chain(x, iterable),
    "append": lambda x, item: itertools.chain(x, (item,)),
    "intersect": lambda x, collection: set(x) & set(collection),
    "union": lambda x, collection: set(x) | set(collection),
    "difference": lambda x, collection: set(x) - set(collection),
    "symmetric_difference": lambda x, collection: set(x) ^ set(collection),
    "get": lambda x, __x, default=_ABSENT: _item(x, __x, default),
    "get_from": lambda x, __x, default=_ABSENT: _item(__x, x, default),
    "add": lambda x, __x: x + __x,
    "subtract": lambda x, __x: x - __x,
    "multiply": lambda x, __x: x * __x,
    "left_multiply": lambda x, __x: __x * x,
    "divide_by": lambda x, __x: x / __x,
    "divide_into": lambda x, __x: __x / x,
    "negate": lambda x: -x,
    "modulo": lambda x, __x: x % __x,
    "merge": lambda x, mapping: {**x, **mapping},
    "length": lambda x: len(x),
    "instance_of": lambda x, types=(): isinstance(x, tuple(types)),
    "all": lambda x, funcs=(): all(f(x) for f in funcs),
    "any": lambda x, funcs=(): any(f(x) for f in funcs),
    "invert": lambda x, func=_same: not func(x),
    "eq": lambda x, value: x == value,
    "ne": lambda x, value: x != value,
    "gt": lambda x, value: x > value,
    "ge": lambda x, value: x >= value,
    "lt": lambda x, value: x < value,
    "le": lambda x, value: x <= value,
    "has_remainder": lambda x, divisor, reminder: x % divisor == reminder,
    "positive": lambda x: x > 0,
    "negative": lambda x: x < 0,
    "non_positive": lambda x: x <= 0,
    "non_negative": lambda x: x >= 0,
    "even": lambda x: x % 2 == 0,
    "odd": lambda x: x % 2 == 1,
    "is_none": lambda x: x is None,
    "is_not_none": lambda x: x is not None,
    "is_in": lambda x, container: x in container,
    "is_not_in": lambda x, container: x not in container,
    "one_of": lambda x, items=(): x in tuple(items),
    "none_of": lambda x, items=(): x not in tuple(items),
    "contains": lambda x, value: value in x,
    "does_not_contain": lambda x, value: value not in x,
    "intersects": lambda x, iterable: bool(set(x) & set(iterable)),
    "disjoint_from": lambda x, iterable: not (set(x) & set(iterable)),
    "ensure": lambda x, __predicate, __msg=_ABSENT: _assert(x, __predicate),
    "get_attribute": lambda x, __name: getattr(x, __name),
    "call_method": lambda x, __name, args=(), kwargs={}: getattr(x, __name)(*args, **kwargs),
}


def show_binding(b):
    def one(p):
        if "c" in p:
            return show(p["c"])
        return "Option(%r, %s)" % (p["o"], show(p["d"])) if "d" in p else "Option(%r)" % p["o"]
    if "many" in b:
        return ", ".join(one(p) for p in b["many"])
    if "dict" in b:
        return ", ".join("%s=%s" % (n, one(p)) for n, p in b["dict"])
    return one(b)


def run_operand(case):
    """one helper on one operand: the real step against the documented Python equivalent, each on operands of
    its own built from the same description.  Compared: the value with the types of its containers (or the class
    of the exception), whether the result is the input object itself, what had been pulled from every one-shot
    operand when the step returned and after the result was used up, and the input as the call left it"""
    name = case["name"]
    args = case.get("args", [])

    def one(real):
        del TRACK[:]
        options = {k: dec(v) for k, v in case.get("options", [])}
        x = dec(case["input"])
        if real:
            step = helper_step(name, args)
            call = lambda: step.transform(x, options)      # noqa: E731
        else:
            vals = {n: resolve_binding(b, options) for n, b in args}
            call = lambda: EQUIV[name](x, **vals)          # noqa: E731
        out = {}
        try:
            r = call()
        except Exception as e:
            out["err"] = type(e).__name__
        else:
            out["pulled_at_return"] = [s[0] for s in TRACK]
            out["result_is_the_input"] = r is x
            out["ok"] = enc2(r)
        out["pulled_in_all"] = [s[0] for s in TRACK]
        out["input_afterwards"] = enc2(x)
        return out

    got, want = one(True), one(False)
    oracle = []
    if got != want:
        diff = sorted(k for k in set(got) | set(want) if got.get(k) != want.get(k))
        call = "F.%s" % name if not inspect.isfunction(getattr(F, name)) else \
            "F.%s(%s)" % (name, ", ".join(("" if n.startswith("__") or "many" in b or "dict" in b else n + "=") + show_binding(b)
                                             for n, b in args))
        opts = "{%s}" % ", ".join("%r: %s" % (k, show(v)) for k, v in case.get("options", []))
        oracle.append({"what": "helper %s on a %s operand does not compute the documented Python operation"
                               % (name, case.get("operand", {}).get("kind", "?")),
                       "detail": {"differs_in": diff, "got": got, "expected": want, "operand": case.get("operand"),
                                  "python": "%s.transform(%s, %s)" % (call, show(case["input"]), opts)}})
    return {"tf": {"ok": got["ok"]} if "ok" in got else {"err": got["err"]}, "oracle": oracle}


def main():
    for line in sys.stdin:
        line = line.strip()
        if not line:
            continue
        case = json.loads(line)
        try:
            out = run_pipe(case) if case["kind"] == "pipe" else run_operand(case) if case.get("family") == "operand" \
                else run_helper(case)
        except Exception as e:     # building the objects failed: an observation of its own
            import traceback
            out = {"build_error": type(e).__name__, "msg": str(e)[:300], "tb": traceback.format_exc()[-600:], "oracle": []}
        sys.stdout.write(json.dumps(out) + "\n")
        sys.stdout.flush()


main()
'''

# ----------------------------------------------------------------------------- case language helpers

def C(v):
    return {"c": v}


def O(key, default=None, has_default=False):
    return {"o": key, "d": default} if has_default else {"o": key}


def SYM(name):
    return {"Y": name, "a": [], "k": []}


def FN(name):
    return {"F": name, "a": [], "k": []}


def TY(name):
    return {"T": name}


def TUP(*xs):
    return {"t": list(xs)}


def DICT(*kvs):
    return {"d": [list(kv) for kv in kvs]}


def leaves_of(e) -> List[list]:
    if e[0] == "+":
        return leaves_of(e[1]) + leaves_of(e[2])
    if e[0] == "K":
        return (leaves_of(e[2]) if len(e) > 2 else []) + [["S", e[1]]]
    return [e]


# ----------------------------------------------------------------------------- helper corpus

X = SYM("X")
# name -> list of (args, input, flags); args: [(param, value-or-binding)]; every plain value is tried
# as a constant and as an Option.  flags: "sym" (symbolic operands), "model" (compare with the model),
# "oracle" (compare with the plain Python operation)
F1, G2 = FN("free:f"), FN("free:g")


def _bin(name, param="__x"):
    """operator helpers: symbolic operands + concrete pairs"""
    return [([(param, SYM("P"))], X, "sym model"),
            ([(param, 3)], 10, "model oracle"), ([(param, 10)], 3, "model oracle"),
            ([(param, "b")], "a", "model oracle")]


HELPER_CASES: Dict[str, List[Tuple[list, Any, str]]] = {
    "partial": [([("__func", F1), ("args", {"many": [1, 2]}), ("kwargs", {"dict": [["z", 3]]})], 9, "model oracle"),
                ([("__func", FN("prim:sub")), ("kwargs", {"dict": [["k", 3]]})], 10, "model oracle"),
                ([("__func", FN("prim:minus")), ("args", {"many": [10]})], 3, "model oracle"),
                ([("__func", SYM("Fn")), ("args", {"many": [SYM("A1")]}), ("kwargs", {"dict": [["z", SYM("K1")]]})], X, "sym model")],
    "map": [([("func", F1)], [1, 2, 3], "model oracle"), ([("func", FN("prim:inc"))], TUP(1, 5), "model oracle"),
            ([("func", F1)], [], "model oracle")],
    "filter": [([("func", FN("prim:is_pos"))], [1, -2, 3, 0], "model oracle"),
               ([("func", FN("prim:is_even"))], TUP(1, 2, 4), "model oracle")],
    "reduce": [([("func", G2)], [1, 2, 3], "model oracle"), ([("func", G2), ("initial", 0)], [1, 2], "model oracle"),
               ([("func", FN("prim:minus"))], [10, 2, 3], "model oracle"),
               ([("func", FN("prim:minus")), ("initial", 100)], [1, 2], "model oracle"),
               ([("func", G2), ("initial", 7)], [], "model oracle"), ([("func", G2)], [], "model oracle")],
    "into": [([("func", F1)], [1, 2], "model oracle"), ([("func", F1)], DICT(["a", 1], ["b", 2]), "model oracle"),
             ([("func", FN("prim:minus"))], TUP(10, 3), "model oracle"),
             ([("func", FN("prim:minus"))], DICT(["b", 10], ["a", 3]), "model oracle")],
    "flatten": [([], [[1], [2, 3], []], "model oracle"), ([], TUP([1, 2], TUP(3)), "model oracle")],
    "flatmap": [([("func", FN("prim:dup"))], [1, 2], "model oracle"), ([("func", FN("prim:wrap"))], [1, "a"], "model oracle")],
    "map_items": [([("func", FN("prim:kv_swap"))], DICT(["a", 1], ["b", 2]), "model oracle"),
                  ([("func", FN("prim:kv_inc"))], DICT([1, 2], [3, 4]), "model oracle")],
    "map_keys": [([("func", F1)], DICT(["a", 1], ["b", 2]), "model oracle"),
                 ([("func", FN("prim:inc"))], DICT([1, 2], [3, 4]), "model oracle")],
    "map_values": [([("func", F1)], DICT(["a", 1], ["b", 2]), "model oracle"),
                   ([("func", FN("prim:inc"))], DICT([1, 2], [3, 4]), "model oracle")],
    "filter_items": [([("func", FN("prim:v_pos"))], DICT(["a", 1], ["b", -2], ["c", 3]), "model oracle")],
    "filter_keys": [([("func", FN("prim:is_even"))], DICT([1, 2], [2, 3], [4, 5]), "model oracle")],
    "filter_values": [([("func", FN("prim:is_even"))], DICT([1, 2], [2, 3], [4, 6]), "model oracle")],
    "concat": [([("iterable", [4, 5])], [1, 2, 3], "model oracle"), ([("iterable", TUP(1))], TUP(2, 3), "model oracle")],
    "append": [([("item", 4)], [1, 2, 3], "model oracle"), ([("item", [9])], TUP(1), "model oracle")],
    "intersect": [([("collection", [1, 2, 3])], [2, 3, 4], "model oracle")],
    "union": [([("collection", [1, 2, 3])], [2, 3, 4], "model oracle")],
    "difference": [([("collection", [1, 2, 3])], [2, 3, 4], "model oracle"),
                   ([("collection", [2, 3, 4])], [1, 2, 3], "model oracle")],
    "symmetric_difference": [([("collection", [1, 2, 3])], [2, 3, 4], "model oracle")],
    "get": [([("__x", SYM("P"))], X, "sym model"),
            ([("__x", 1)], ["a", "b", "c"], "model oracle"), ([("__x", "k")], DICT(["k", 1]), "model oracle"),
            ([("__x", 7)], ["a"], "model oracle"), ([("__x", 7), ("default", "dflt")], ["a"], "model oracle"),
            ([("__x", "z"), ("default", 0)], DICT(["k", 1]), "model oracle"), ([("__x", "z")], DICT(["k", 1]), "model oracle"),
            ([("__x", -1), ("default", None)], ["a", "b"], "model oracle"), ([("__x", "k")], 5, "model oracle")],
    "get_from": [([("__x", SYM("P"))], X, "sym model"),
                 ([("__x", ["a", "b", "c"])], 1, "model oracle"), ([("__x", DICT(["k", 1]))], "k", "model oracle"),
                 ([("__x", ["a"])], 7, "model oracle"), ([("__x", ["a"]), ("default", "dflt")], 7, "model oracle"),
                 ([("__x", DICT(["k", 1])), ("default", 0)], "z", "model oracle")],
    "add": _bin("add") + [([("__x", [3])], [1, 2], "model oracle"), ([("__x", "s")], 1, "model oracle")],
    "subtract": _bin("subtract")[:3] + [([("__x", 1)], "a", "model oracle")],
    "multiply": _bin("multiply")[:3] + [([("__x", 3)], "ab", "model oracle"), ([("__x", {"mat": [0, 1, 0, 0]})], {"mat": [0, 0, 1, 0]}, "oracle")],
    "left_multiply": _bin("left_multiply")[:3] + [([("__x", "ab")], 3, "model oracle"),
                                                    ([("__x", {"mat": [0, 1, 0, 0]})], {"mat": [0, 0, 1, 0]}, "oracle")],
    "divide_by": [([("__x", SYM("P"))], X, "sym model"), ([("__x", 2)], 6, "oracle"), ([("__x", 6)], 2, "oracle"),
                  ([("__x", 0)], 1, "model oracle")],
    "divide_into": [([("__x", SYM("P"))], X, "sym model"), ([("__x", 2)], 6, "oracle"), ([("__x", 6)], 2, "oracle"),
                    ([("__x", 1)], 0, "model oracle")],
    "negate": [([], X, "sym model"), ([], 5, "model oracle"), ([], "a", "model oracle")],
    "modulo": [([("__x", SYM("P"))], X, "sym model"), ([("__x", 3)], 10, "model oracle"), ([("__x", 10)], 3, "model oracle"),
               ([("__x", 3)], -7, "model oracle"), ([("__x", 0)], 3, "model oracle")],
    "merge": [([("mapping", DICT(["B", 2], ["C", 3]))], DICT(["A", 0], ["B", 1]), "model oracle")],
    "length": [([], [1, 2, 3], "model oracle"), ([], "abcd", "model oracle"), ([], 5, "model oracle")],
    "instance_of": [([("types", {"many": [TY("int")]})], 1, "model oracle"), ([("types", {"many": [TY("int")]})], "a", "model oracle"),
                    ([("types", {"many": [TY("str"), TY("list")]})], [1], "model oracle"),
                    ([("types", {"many": [TY("int")]})], True, "model oracle")],
    "all": [([("funcs", {"many": [FN("prim:is_pos"), FN("prim:is_even")]})], 4, "model oracle"),
            ([("funcs", {"many": [FN("prim:is_pos"), FN("prim:is_even")]})], 3, "model oracle"),
            ([("funcs", {"many": [FN("prim:is_pos"), FN("prim:len")]})], -1, "model oracle"),
            ([("funcs", {"many": []})], 3, "model oracle")],
    "any": [([("funcs", {"many": [FN("prim:is_pos"), FN("prim:is_even")]})], -3, "model oracle"),
            ([("funcs", {"many": [FN("prim:is_pos"), FN("prim:is_even")]})], -4, "model oracle"),
            ([("funcs", {"many": [FN("prim:is_pos"), FN("prim:len")]})], 1, "model oracle"),
            ([("funcs", {"many": []})], 3, "model oracle")],
    "invert": [([("func", FN("prim:is_pos"))], 5, "model oracle"), ([("func", FN("prim:is_pos"))], -5, "model oracle"),
               ([], True, "model oracle"), ([], 0, "model oracle")],
    "eq": _bin("eq", "value") + [([("value", 1)], True, "model oracle")],
    "ne": _bin("ne", "value"),
    "gt": _bin("gt", "value") + [([("value", 1)], "a", "model oracle")],
    "ge": _bin("ge", "value") + [([("value", 3)], 3, "model oracle")],
    "lt": _bin("lt", "value"),
    "le": _bin("le", "value") + [([("value", 3)], 3, "model oracle")],
    "has_remainder": [([("divisor", SYM("D")), ("reminder", SYM("R"))], X, "sym model"),
                      ([("divisor", 2), ("reminder", 1)], 3, "model oracle"), ([("divisor", 3), ("reminder", 2)], 8, "model oracle"),
                      ([("divisor", 2), ("reminder", 3)], 8, "model oracle")],
    "positive": [([], X, "sym model"), ([], 1, "model oracle"), ([], 0, "model oracle"), ([], -1, "model oracle")],
    "negative": [([], X, "sym model"), ([], 1, "model oracle"), ([], 0, "model oracle"), ([], -1, "model oracle")],
    "non_positive": [([], X, "sym model"), ([], 1, "model oracle"), ([], 0, "model oracle"), ([], -1, "model oracle")],
    "non_negative": [([], X, "sym model"), ([], 1, "model oracle"), ([], 0, "model oracle"), ([], -1, "model oracle")],
    "even": [([], X, "sym model"), ([], 4, "model oracle"), ([], 3, "model oracle")],
    "odd": [([], X, "sym model"), ([], 4, "model oracle"), ([], 3, "model oracle"), ([], -3, "model oracle")],
    "is_none": [([], X, "sym model"), ([], None, "model oracle"), ([], 0, "model oracle")],
    "is_not_none": [([], X, "sym model"), ([], None, "model oracle"), ([], 0, "model oracle")],
    "is_in": [([("container", [1, 2, 3])], 2, "model oracle"), ([("container", [1, 2, 3])], 4, "model oracle"),
              ([("container", DICT(["a", 1]))], "a", "model oracle"), ([("container", 5)], 1, "model oracle")],
    "is_not_in": [([("container", [1, 2, 3])], 2, "model oracle"), ([("container", TUP(1, 2))], 4, "model oracle")],
    "one_of": [([("items", {"many": [1, 2, 3]})], 2, "model oracle"), ([("items", {"many": [1, 2, 3]})], 4, "model oracle"),
               ([("items", {"many": []})], 4, "model oracle")],
    "none_of": [([("items", {"many": [1, 2, 3]})], 2, "model oracle"), ([("items", {"many": [1, "a"]})], 4, "model oracle")],
    "contains": [([("value", 2)], [1, 2, 3], "model oracle"), ([("value", 4)], [1, 2, 3], "model oracle"),
                 ([("value", [1])], 1, "model oracle")],
    "does_not_contain": [([("value", 2)], [1, 2, 3], "model oracle"), ([("value", 4)], TUP(1, 2), "model oracle")],
    "intersects": [([("iterable", [1, 2, 3])], [2, 3, 4], "model oracle"), ([("iterable", [1, 2, 3])], [4, 5], "model oracle")],
    "disjoint_from": [([("iterable", [1, 2, 3])], [2, 3, 4], "model oracle"), ([("iterable", [1, 2, 3])], [4, 5], "model oracle")],
    "ensure": [([("__predicate", FN("prim:is_pos"))], 1, "model oracle"), ([("__predicate", FN("prim:is_pos"))], -1, "model oracle"),
               ([("__predicate", FN("prim:is_pos")), ("__msg", "must be positive")], -1, "model oracle"),
               ([("__predicate", F1)], X, "sym model")],
    "get_attribute": [([("__name", "foo")], X, "sym model"), ([("__name", "value")], {"obj": 5}, "oracle"),
                      ([("__name", "nope")], {"obj": 5}, "oracle")],
    "call_method": [([("__name", "foo"), ("args", {"many": [1, "a"]}), ("kwargs", {"dict": [["z", 3]]})], X, "sym model"),
                    ([("__name", "foo")], X, "sym model"),
                    ([("__name", "meth"), ("args", {"many": [1]}), ("kwargs", {"dict": [["z", 3]]})], {"obj": 5}, "oracle")],
}
NOT_CAPABLE = {("call_method", "args"), ("call_method", "kwargs")}


def _as_bparam(v, how: str, key: str):
    """how: c constant | o option present | d option absent with the value as default | m option missing"""
    if how == "c":
        return C(v), []
    if how == "o":
        return O(key), [[key, v]]
    if how == "d":
        return O(key, v, True), []
    return O(key), []


def helper_variants(name: str, args, inp, flags: str) -> List[Dict[str, Any]]:
    """each parameter once as a constant and once as an Option (plus absent-with-default / missing)"""
    out = []
    plain = [i for i, (p, v) in enumerate(args) if (name, p) not in NOT_CAPABLE]
    modes: List[Tuple[str, ...]] = [tuple("c" for _ in args)]
    for i in plain:
        for how in ("o", "d", "m"):
            modes.append(tuple(how if j == i else "c" for j in range(len(args))))
    if len(plain) > 1:
        modes.append(tuple("o" if j in plain else "c" for j in range(len(args))))
    for mode in modes:
        bargs, options = [], []
        for (p, v), how in zip(args, mode):
            key = f"K_{p.strip('_')}"
            if isinstance(v, dict) and "many" in v:
                items = []
                for n, e in enumerate(v["many"]):
                    # only the first member varies; the others stay constants
                    b, o = _as_bparam(e, how if n == 0 else "c", key)
                    items.append(b); options += o
                bargs.append([p, {"many": items}])
            elif isinstance(v, dict) and "dict" in v:
                items = []
                for n, (kn, e) in enumerate(v["dict"]):
                    b, o = _as_bparam(e, how if n == 0 else "c", key)
                    items.append([kn, b]); options += o
                bargs.append([p, {"dict": items}])
            else:
                if isinstance(v, str) and how == "d":
                    how = "o"        # a str default of an Option is a Template: keep to plain values
                b, o = _as_bparam(v, how, key)
                bargs.append([p, b]); options += o
        case = {"kind": "helper", "name": name, "args": bargs, "options": options, "input": inp,
                "oracle": "oracle" in flags, "model": "model" in flags, "mode": "".join(mode)}
        out.append(case)
    # dedupe (modes collapse when there is no capable parameter / an empty *args)
    seen, uniq = set(), []
    for c in out:
        k = json.dumps(c, sort_keys=True)
        if k not in seen:
            seen.add(k); uniq.append(c)
    return uniq


def helper_corpus() -> List[Dict[str, Any]]:
    cases = []
    for name, lst in HELPER_CASES.items():
        for args, inp, flags in lst:
            cases += helper_variants(name, args, inp, flags)
    return cases


# ----------------------------------------------------------------------------- pipeline generator

UNIVERSE = [0, 1, -3, 7, 2, "ab", "", "x", [1, 2], [], None, True, ["a"], 10]
DEC2 = ["add", "sub", "rsub", "mul", "floordiv", "eqk"]
DEC1 = ["neg", "len", "wrap", "inc"]
KVALS = [1, 2, 3, -1, 0, "ab", [1]]
PIPE_HELPERS = [
    ("add", [("__x", KVALS)]), ("subtract", [("__x", [1, 2, 5])]), ("multiply", [("__x", [2, 3, 0])]),
    ("left_multiply", [("__x", [2, "ab"])]), ("negate", []), ("length", []), ("eq", [("value", [1, "ab"])]),
    ("get", [("__x", [0, 1]), ("default", [None, 0])]), ("is_none", []),
    ("is_not_none", []), ("positive", []), ("contains", [("value", [1, "a"])]),
    ("is_in", [("container", [[1, 2, "ab"], []])]), ("gt", [("value", [0, 5])]),
]


class Gen:
    def __init__(self, rng: random.Random):
        self.rng = rng

    def bparam(self, keys: List[str], vals) -> Tuple[dict, Optional[str]]:
        r = self.rng.random()
        v = self.rng.choice(vals)
        if r < 0.35:
            return C(v), None
        key = self.rng.choice(keys)
        if r < 0.75:
            return O(key), key
        if isinstance(v, str):
            v = 1
        return O(key, v, True), key

    def step(self, keys: List[str], depth: int = 0) -> dict:
        r = self.rng.random()
        if r < 0.30:
            prim = self.rng.choice(DEC2)
            p, _ = self.bparam(keys, KVALS)
            return {"k": "dec", "prim": prim, "params": [["k", p]]}
        if r < 0.38:
            return {"k": "dec", "prim": self.rng.choice(DEC1), "params": []}
        if r < 0.55:
            n = self.rng.randint(0, 2)
            return {"k": "free", "name": self.rng.choice(["f", "g", "h"]),
                    "params": [[nm, self.bparam(keys, KVALS)[0]] for nm in ["a", "b"][:n]]}
        if r < 0.65:
            return {"k": "plain", "prim": self.rng.choice(DEC1)}
        if r < 0.72:
            return {"k": "plainfree", "name": self.rng.choice(["u", "w"])}
        if r < 0.77:
            return {"k": "ident"}
        if r < 0.82:
            d = {"k": "optfn", "key": self.rng.choice(["FN1", "FN2"])}
            if self.rng.random() < 0.4:
                d["default"] = FN("prim:" + self.rng.choice(DEC1))
            return d
        if r < 0.95 or depth > 0:
            name, ps = self.rng.choice(PIPE_HELPERS)
            args = []
            for pn, vals in ps:
                if pn == "default" and self.rng.random() < 0.5:
                    continue
                args.append([pn, self.bparam(keys, vals)[0]])
            return {"k": "helper", "name": name, "args": args}
        return {"k": "nested", "expr": None}      # filled by the caller

    def tree(self, leaves: List[list]) -> list:
        """a uniformly random split bracketing of the operands"""
        if len(leaves) == 1:
            return leaves[0]
        i = self.rng.randint(1, len(leaves) - 1)
        return ["+", self.tree(leaves[:i]), self.tree(leaves[i:])]

    def case(self, n: int) -> dict:
        keys = ["A", "B", "Cc"]
        steps: List[list] = []
        leaves: List[list] = []

        def new_step(depth=0) -> int:
            tag = len(steps) + 1
            d = self.step(keys, depth)
            steps.append([tag, d])
            if d["k"] == "nested":
                m = self.rng.randint(1, 2)
                inner = [["S", new_step(1)] for _ in range(m)]
                d["expr"] = fix_left(["+", ["E"], self.tree(inner)] if self.rng.random() < 0.5 else self.tree([["E"]] + inner))
            return tag

        for _ in range(n):
            r = self.rng.random()
            if r < 0.10:
                leaves.append(["E"])
                continue
            tag = new_step()
            k = steps[tag - 1][1]["k"]
            if r < 0.18:
                leaves.append(["K", tag])
            elif k in ("plain", "plainfree", "ident", "optfn") and self.rng.random() < 0.6:
                leaves.append(["C", tag])
            else:
                leaves.append(["S", tag])
        expr = fix_left(self.tree(leaves))
        if expr[0] not in ("+", "E", "K"):
            expr = ["+", ["E"], expr]
        if self.rng.random() < 0.1 and expr[0] == "+":
            # Pipeline(step, rest) built with the constructor
            tag = new_step()
            if steps[tag - 1][1]["k"] != "nested":
                expr = ["K", tag, expr]
        options = []
        for key in keys:
            if self.rng.random() < 0.7:
                options.append([key, self.rng.choice(KVALS)])
        for key in ("FN1", "FN2"):
            if self.rng.random() < 0.6:
                options.append([key, FN("prim:" + self.rng.choice(DEC1)) if self.rng.random() < 0.7 else FN("free:o")])
        inputs = self.rng.sample(UNIVERSE, 4)
        src = self.rng.choice([C(self.rng.choice(UNIVERSE)), O("SRC"), O("SRC", 5, True), O("A")])
        if self.rng.random() < 0.6:
            options.append(["SRC", self.rng.choice(UNIVERSE)])
        return {"kind": "pipe", "steps": steps, "expr": expr, "options": options, "inputs": inputs, "source": src}


def fix_left(e):
    """a plain callable cannot be the left operand of +: turn left-child `C` leaves into steps"""
    if e[0] == "+":
        left = fix_left(e[1])
        if left[0] == "C":
            left = ["S", left[1]]
        return ["+", left, fix_left(e[2])]
    if e[0] == "K" and len(e) > 2:
        return ["K", e[1], fix_left(e[2])]
    return e


def all_trees(leaves: List[list]) -> List[list]:
    if len(leaves) == 1:
        return [leaves[0]]
    out = []
    for i in range(1, len(leaves)):
        for l in all_trees(leaves[:i]):
            for r in all_trees(leaves[i:]):
                out.append(["+", l, r])
    return out


def pipe_corpus() -> List[dict]:
    """hand-written tricky cases (every situation the property text names)"""
    add = lambda k: {"k": "dec", "prim": "add", "params": [["k", k]]}     # noqa: E731
    mul = lambda k: {"k": "dec", "prim": "mul", "params": [["k", k]]}     # noqa: E731
    sub = lambda k: {"k": "dec", "prim": "sub", "params": [["k", k]]}     # noqa: E731
    fr = lambda n, *ps: {"k": "free", "name": n, "params": [list(p) for p in ps]}   # noqa: E731
    base = {"kind": "pipe", "inputs": [1, "ab", [1], None], "source": O("SRC", 4, True)}
    cs = []

    def case(steps, expr, options=(), **kw):
        c = dict(base)
        c.update({"steps": [[i + 1, s] for i, s in enumerate(steps)], "expr": expr, "options": [list(o) for o in options]})
        c.update(kw)
        cs.append(c)

    # the docstring example: add + multiply with option-valued parameters
    case([add(O("AMOUNT", 1, True)), mul(O("FACTOR", 2, True))], ["+", ["S", 1], ["S", 2]])
    case([add(O("AMOUNT", 1, True)), mul(O("FACTOR", 2, True))], ["+", ["S", 1], ["S", 2]], [("AMOUNT", 2), ("FACTOR", 3)])
    # the empty pipeline, alone and on both sides
    case([], ["E"])
    case([add(C(1))], ["+", ["E"], ["S", 1]])
    case([add(C(1))], ["+", ["+", ["E"], ["S", 1]], ["E"]])
    case([add(C(1))], ["+", ["E"], ["+", ["E"], ["+", ["S", 1], ["E"]]]])
    case([], ["+", ["E"], ["E"]])
    # Identity as a step / `_identity` as a callable / Pipeline(Identity)
    case([{"k": "ident"}], ["+", ["E"], ["S", 1]])
    case([{"k": "ident"}], ["+", ["E"], ["C", 1]])
    case([{"k": "ident"}, {"k": "ident"}], ["+", ["S", 1], ["S", 2]])
    case([add(C(1)), {"k": "ident"}], ["+", ["S", 1], ["S", 2]])
    case([add(C(1)), {"k": "ident"}], ["+", ["S", 1], ["K", 2]])
    case([add(C(1)), {"k": "ident"}, sub(C(5))], ["+", ["+", ["S", 1], ["S", 2]], ["S", 3]])
    case([add(C(1)), {"k": "ident"}, sub(C(5))], ["+", ["S", 1], ["+", ["S", 2], ["S", 3]]])
    case([{"k": "ident"}, add(C(1))], ["K", 1, ["+", ["E"], ["S", 2]]])
    case([add(C(1)), {"k": "ident"}], ["K", 1, ["K", 2]])
    # 3+-step right operands (the recursive case of __add__), non-commutative bodies
    case([add(C(1)), mul(C(2)), sub(C(3)), fr("f"), fr("g", ("a", O("A")))],
         ["+", ["S", 1], ["+", ["S", 2], ["+", ["S", 3], ["+", ["S", 4], ["S", 5]]]]], [("A", 7)])
    case([add(C(1)), mul(C(2)), sub(C(3)), fr("f"), fr("g", ("a", O("A")))],
         ["+", ["+", ["S", 1], ["S", 2]], ["+", ["+", ["S", 3], ["S", 4]], ["S", 5]]], [("A", 7)])
    # plain callables and Evaluatables yielding callables as right operands
    case([add(C(1)), {"k": "plain", "prim": "neg"}, {"k": "plainfree", "name": "u"}], ["+", ["+", ["S", 1], ["C", 2]], ["C", 3]])
    case([{"k": "optfn", "key": "FN1"}, add(C(1))], ["+", ["+", ["E"], ["C", 1]], ["S", 2]], [("FN1", FN("prim:neg"))])
    case([{"k": "optfn", "key": "FN1"}, add(C(1))], ["+", ["+", ["E"], ["C", 1]], ["S", 2]])
    case([{"k": "optfn", "key": "FN1", "default": FN("prim:wrap")}, add(C([2]))], ["+", ["S", 1], ["S", 2]])
    # a missing option parameter: evaluation fails before any body runs, keys() raises, explain() names it
    case([fr("f"), sub(O("MISSING_K"))], ["+", ["S", 1], ["S", 2]])
    case([sub(C(1)), add(O("MISSING_K"))], ["+", ["S", 1], ["S", 2]], inputs=["ab", 1])
    # nested pipelines as steps
    case([add(C(1)), mul(O("F")), {"k": "nested", "expr": ["+", ["S", 1], ["S", 2]]}, sub(O("S"))],
         ["+", ["+", ["E"], ["S", 3]], ["S", 4]], [("F", 3), ("S", 1)])
    case([{"k": "nested", "expr": ["E"]}, add(C(1))], ["+", ["S", 1], ["S", 2]])
    # helper steps with option-valued parameters
    case([{"k": "helper", "name": "subtract", "args": [["__x", O("A")]]},
          {"k": "helper", "name": "left_multiply", "args": [["__x", O("B", 2, True)]]},
          {"k": "helper", "name": "negate", "args": []}], ["+", ["S", 1], ["+", ["S", 2], ["S", 3]]], [("A", 1)],
         inputs=[5, "ab", [1]])
    # Pipeline(tail, rest) with an empty rest
    case([add(C(1))], ["K", 1, ["E"]])
    case([add(C(1)), mul(C(2))], ["K", 1, ["K", 2, ["E"]]])
    # source failing / source option
    case([add(C(1))], ["+", ["E"], ["S", 1]], source=O("NOPE"))
    case([add(C(1))], ["+", ["E"], ["S", 1]], [("SRC", "zz")], source=O("SRC"))
    return cs


def exhaustive(max_n: int) -> List[dict]:
    """every bracketing of n distinguishable operands (free steps, one option-valued, one empty pipeline)"""
    cs = []
    pool = [{"k": "free", "name": "f", "params": []},
            {"k": "dec", "prim": "sub", "params": [["k", O("A")]]},
            {"k": "free", "name": "g", "params": [["a", O("B", 0, True)]]},
            {"k": "plainfree", "name": "u"},
            {"k": "dec", "prim": "mul", "params": [["k", C(2)]]},
            {"k": "helper", "name": "subtract", "args": [["__x", O("Cc")]]}]
    for n in range(1, max_n + 1):
        steps = [[i + 1, pool[i]] for i in range(n)]
        for with_empty in (False, True):
            leaves = [["S", i + 1] for i in range(n)]
            if with_empty:
                if n >= 5:
                    continue
                leaves = leaves[: n // 2] + [["E"]] + leaves[n // 2:]
            for t in all_trees(leaves):
                e = fix_left(t)
                if e[0] not in ("+", "E", "K"):
                    e = ["+", ["E"], e]
                cs.append({"kind": "pipe", "steps": steps, "expr": e, "options": [["A", 1], ["B", 5], ["Cc", 2]],
                           "inputs": [10, "ab"], "source": O("A")})
    return cs



# ----------------------------------------------------------------------------- steps that edit what they receive

# constants a parameter default can be written as: (kind, the constant in the case language)
MUT_CONSTS: List[Tuple[str, Any]] = [
    ("scalar", 0), ("scalar", 1), ("scalar", "ab"), ("scalar", None), ("scalar", True),
    ("list", []), ("list", [3, 1, 2]), ("list", ["b", "a"]),
    ("dict", DICT()), ("dict", DICT(["k", 1], ["j", 2])),
    ("set", {"s": [1, 2]}),
    ("list-in-list", [[1], [2, 3]]), ("list-in-dict", DICT(["k", [1]], ["e", []])),
    ("dict-in-list", [DICT(["n", 0])]), ("list-in-tuple", TUP(1, [2])), ("dict-in-tuple", TUP(DICT(["n", 0]), "s")),
    ("depth-4", DICT(["a", [DICT(["b", [1, 2]])]])),
]
# the public spellings of a step with parameters (RUNNER.build_mut)
MUT_VIAS = ["dec", "deckwonly", "deccallable", "decvalue", "decpartial", "lift", "liftkw", "pa", "fpartial", "fpartial_pos"]


def container_nodes(j, path=()) -> List[Tuple[list, str, Any]]:
    """[(path, kind, node)] for the containers inside a constant of the case language"""
    out = []
    if isinstance(j, list):
        out.append((list(path), "list", j))
        for i, e in enumerate(j):
            out += container_nodes(e, path + (i,))
    elif isinstance(j, dict) and "t" in j:
        for i, e in enumerate(j["t"]):
            out += container_nodes(e, path + (i,))
    elif isinstance(j, dict) and "d" in j:
        out.append((list(path), "dict", j))
        for k, e in j["d"]:
            out += container_nodes(e, path + (k,))
    elif isinstance(j, dict) and "s" in j:
        out.append((list(path), "set", j))
    return out


def edit_menu(kind: str, node) -> List[Tuple[str, Any]]:
    """in-place operations that are valid on the node as written and change it"""
    if kind == "list":
        ops = [("append", 9), ("append", {"input": 1}), ("extend", [7, 8]), ("iadd", [6]), ("insert", "i")]
        if len(node) >= 1:
            ops += [("pop", None), ("clear", None), ("delitem", 0)]
        if len(node) >= 2 and node != node[::-1]:
            ops.append(("reverse", None))
        if len(node) >= 2 and all(isinstance(e, int) for e in node) and node != sorted(node):
            ops.append(("sort", None))
        if len(node) >= 2 and all(isinstance(e, str) for e in node) and node != sorted(node):
            ops.append(("sort", None))
        return ops
    if kind == "dict":
        ops = [("setdefault", ["#k", 1]), ("setdefault", ["#l", [0]]), ("setitem", ["#k", [0]]), ("update", DICT(["#u", 2]))]
        if node["d"]:
            first = node["d"][0][0]
            ops += [("popitem", None), ("clear", None), ("popkey", first), ("setitem", [first, "changed"])]
        return ops
    ops = [("add", 99)]
    if node["s"]:
        ops += [("discard", node["s"][0]), ("clear", None)]
    return ops


def edits_for(rng: random.Random, name: str, const) -> List[list]:
    """edits of the containers of one constant parameter: always the deepest one, and some of the others;
    children before parents, so that every path is valid when its edit runs"""
    nodes = container_nodes(const)
    if not nodes:
        return []
    nodes.sort(key=lambda n: -len(n[0]))
    chosen = [nodes[0]] + [n for n in nodes[1:] if rng.random() < 0.5]
    out = []
    for path, kind, node in chosen:
        op, arg = rng.choice(edit_menu(kind, node))
        out.append([name, path, op, arg])
    return out


def mut_step(rng: random.Random, kind_const: Tuple[str, Any], via: str, keys: List[str]) -> dict:
    """a step with a parameter written as the given constant whose body edits every parameter it receives"""
    ckind, const = kind_const
    if via not in ("fpartial", "fpartial_pos") and rng.random() < 0.25:
        # a two-argument Python body: x + k, x == k, ...
        d = {"k": "mut", "base": "dec", "prim": rng.choice(["add", "eqk", "mul", "rsub"]), "via": via,
             "params": [["k", C(const)]], "edits": edits_for(rng, "k", const)}
    else:
        names = ["seen", "acc", "cfg"]
        rng.shuffle(names)
        n = rng.choice([1, 1, 2, 3])
        where = rng.randrange(n)
        params, edits = [], []
        for i, nm in enumerate(names[:n]):
            if i == where:
                params.append([nm, C(const)])
                edits += edits_for(rng, nm, const)
                continue
            r = rng.random()
            if r < 0.35:
                other = rng.choice(MUT_CONSTS)[1]
                params.append([nm, C(other)])
                edits += edits_for(rng, nm, other)
            elif r < 0.7:
                params.append([nm, O(rng.choice(keys))])
                edits.append([nm, [], "scribble", None])
            else:
                params.append([nm, O(rng.choice(keys), rng.choice([[1], 2, DICT(["k", [1]])]), True)])
                edits.append([nm, [], "scribble", None])
        d = {"k": "mut", "base": "free", "name": rng.choice(["f", "g", "h"]), "via": via, "params": params, "edits": edits}
    if rng.random() < 0.3:
        d["edits"].append(["x", [], "scribble", None])
    d["const_kind"] = ckind
    return d


def mutable_family(seed: int, thorough: bool) -> List[dict]:
    """directed family, run in every run: steps whose parameters are written as constants of every kind, built
    through every public spelling, with bodies that edit what they receive; a step object used twice in a
    pipeline and in several pipelines (run_pipe builds several from the same objects and then compares the
    long-lived one with a freshly built one); helpers taking container arguments"""
    rng = random.Random(1000003 * seed + 13)
    g = Gen(rng)
    keys = ["A", "B", "Cc"]
    cs: List[dict] = []

    def options():
        o = [[k, rng.choice(KVALS)] for k in keys if rng.random() < 0.7]
        if rng.random() < 0.6:
            o.append(["SRC", rng.choice(UNIVERSE)])
        return o

    def source():
        return rng.choice([C(rng.choice(UNIVERSE)), O("SRC"), O("SRC", 5, True), C([1, 2]), C([])])

    def inputs():
        return rng.sample(UNIVERSE, 2) + [rng.choice([[5], [], [[1]]])]

    # (a) every constant x every spelling, the shapes in rotation
    i = 0
    for rep in range(3 if thorough else 1):
        for kc in MUT_CONSTS:
            for via in MUT_VIAS:
                m = mut_step(rng, kc, via, keys)
                q = mut_step(rng, rng.choice(MUT_CONSTS), rng.choice(MUT_VIAS), keys) if rng.random() < 0.5 \
                    else {"k": "free", "name": "u", "params": [["a", g.bparam(keys, KVALS)[0]]]}
                steps = [[1, m], [2, q]]
                shape = i % 6
                i += 1
                if shape == 0:
                    expr = ["+", ["S", 1], ["S", 1]]
                elif shape == 1:
                    expr = ["+", ["+", ["S", 1], ["S", 2]], ["S", 1]]
                elif shape == 2:
                    expr = ["+", ["S", 1], ["+", ["S", 2], ["+", ["E"], ["S", 1]]]]
                elif shape == 3:
                    steps.append([3, {"k": "nested", "expr": ["+", ["S", 1], ["S", 2]]}])
                    expr = ["+", ["+", ["E"], ["S", 1]], ["S", 3]]
                elif shape == 4:
                    expr = ["K", 1, ["+", ["E"], ["S", 1]]]
                else:
                    expr = ["+", ["+", ["S", 2], ["S", 1]], ["E"]]
                cs.append({"kind": "pipe", "steps": steps, "expr": expr, "options": options(), "inputs": inputs(),
                           "source": source(), "family": "mut"})
    # (b) such steps among the steps of the random generator, any bracketing, some used several times
    for _ in range(600 if thorough else 80):
        c = g.case(rng.choice([1, 2, 3, 4]))
        c["inputs"] = c["inputs"][:3]
        leaves = leaves_of(c["expr"])
        for _ in range(rng.choice([1, 1, 2])):
            tag = len(c["steps"]) + 1
            c["steps"].append([tag, mut_step(rng, rng.choice(MUT_CONSTS), rng.choice(MUT_VIAS), keys)])
            for _ in range(rng.choice([1, 2, 2, 3])):
                leaves.insert(rng.randint(0, len(leaves)), ["S", tag])
        c["expr"] = fix_left(g.tree(leaves))
        if c["expr"][0] not in ("+", "E", "K"):
            c["expr"] = ["+", ["E"], c["expr"]]
        c["family"] = "mut"
        cs.append(c)
    # (c) helpers handing out (parts of) a container argument, followed by a step editing its input in place
    scrib = {"k": "mut", "base": "free", "name": "h", "via": "dec", "params": [], "edits": [["x", [], "scribble", None]],
             "const_kind": "none"}
    handing = [("get_from", [("__x", [[1], [2]])], [0, 1, 5]),
               ("get_from", [("__x", DICT(["k", [1]]))], ["k", "z"]),
               ("get", [("__x", 5), ("default", [0])], [[1], []]),
               ("get", [("__x", "z"), ("default", DICT(["n", [1]]))], [DICT(["k", 1]), DICT()]),
               ("merge", [("mapping", DICT(["k", [1]]))], [DICT(["a", [2]]), DICT()]),
               ("concat", [("iterable", [[4], [5]])], [[[1]], []]),
               ("append", [("item", [9])], [[1], []]),
               ("add", [("__x", [[3]])], [[[1]], []]),
               ("reduce", [("func", FN("mfree:g")), ("initial", [0])], [[1, 2], []]),
               ("reduce", [("func", FN("mfree:g")), ("initial", DICT(["n", [0]]))], [[1], [2, 3]]),
               ("partial", [("__func", FN("mfree:f")), ("args", {"many": [C([1, 2]), C(DICT(["k", [1]]))]}),
                            ("kwargs", {"dict": [["z", C([3])]]})], [9, [1]]),
               ("map", [("func", FN("mfree:f"))], [[[1], [2]], []])]
    for name, args, ins in handing:
        for how in ("c", "d"):
            bargs = []
            for pn, v in args:
                if isinstance(v, dict) and ("many" in v or "dict" in v):
                    bargs.append([pn, v])
                elif how == "d" and not isinstance(v, str):
                    bargs.append([pn, O("K_" + pn.strip("_"), v, True)])
                else:
                    bargs.append([pn, C(v)])
            h = {"k": "helper", "name": name, "args": bargs}
            # (the lazy helpers -- chain / map objects -- fail on a record only when the result is consumed)
            lazy = name in ("concat", "append", "map")
            for expr in [["+", ["S", 1], ["S", 2]]] + ([] if lazy else [["+", ["+", ["S", 1], ["S", 2]], ["+", ["S", 1], ["S", 2]]]]):
                cs.append({"kind": "pipe", "steps": [[1, h], [2, scrib]], "expr": expr, "options": [], "inputs": ins,
                           "source": C(ins[0]), "family": "mut"})
    # (d) the helper table on container arguments with function arguments that edit what they are called with
    for name, lst in HELPER_MUT_CASES.items():
        for args, inp, flags in lst:
            for c in helper_variants(name, args, inp, flags):
                # observed on the unchanged source, kept out of the oracle: an option VALUE that is (or holds) a
                # tuple or a set is handed to the body as the caller's own object (lists and dicts are rebuilt),
                # so a body editing it edits the caller's options dictionary
                if any(holds_tuple_or_set(v) for _, v in c["options"]):
                    continue
                c["family"] = "mut"
                cs.append(c)
    return cs


def holds_tuple_or_set(j) -> bool:
    if isinstance(j, list):
        return any(holds_tuple_or_set(x) for x in j)
    if isinstance(j, dict):
        if "t" in j or "s" in j:
            return True
        return any(holds_tuple_or_set(v) for v in j.values())
    return False


HELPER_MUT_CASES: Dict[str, List[Tuple[list, Any, str]]] = {
    "partial": [([("__func", FN("mfree:f")), ("args", {"many": [[1, 2], DICT(["k", [1]])]}), ("kwargs", {"dict": [["z", [3]]]})],
                 9, "model oracle"),
                ([("__func", FN("mfree:f")), ("kwargs", {"dict": [["acc", TUP(1, [2])], ["cfg", DICT()]]})], [1], "model oracle")],
    "reduce": [([("func", FN("mfree:g")), ("initial", [0])], [1, 2], "model oracle"),
               ([("func", FN("mfree:g")), ("initial", DICT(["n", [0]]))], [1], "model oracle"),
               ([("func", FN("mfree:g")), ("initial", TUP([1], 2))], [[3]], "model oracle")],
    "map": [([("func", FN("mfree:f"))], [[1], [2]], "model oracle")],
    "flatmap": [([("func", FN("mfree:f"))], [], "model oracle")],
    "into": [([("func", FN("mfree:f"))], [[1], 2], "model oracle"), ([("func", FN("mfree:f"))], DICT(["a", [1]]), "model oracle")],
    "map_values": [([("func", FN("mfree:f"))], DICT(["a", [1]]), "model oracle")],
}


def mut_histogram(cases: List[dict], stats: Dict[str, int]) -> Dict[str, Any]:
    """what the directed family of this run was made of (counted on the cases, not constants)"""
    kinds: Dict[str, int] = {}
    vias: Dict[str, int] = {}
    ops: Dict[str, int] = {}
    depth: Dict[str, int] = {}
    twice = several = pipes = helpers = mfree = 0
    for c in cases:
        if c.get("family") != "mut":
            continue
        if '"mfree:' in json.dumps(c):
            mfree += 1
        if c["kind"] == "helper":
            helpers += 1
            continue
        pipes += 1
        defs = dict((t, d) for t, d in c["steps"])
        uses: Dict[int, int] = {}

        def count(e):
            if e[0] == "+":
                count(e[1]); count(e[2])
            elif e[0] in ("S", "C", "K"):
                if defs[e[1]]["k"] == "nested":
                    count(defs[e[1]]["expr"])
                else:
                    uses[e[1]] = uses.get(e[1], 0) + 1
                if e[0] == "K" and len(e) > 2:
                    count(e[2])
        count(c["expr"])
        muts = [t for t in uses if defs[t]["k"] == "mut"]
        if any(uses[t] >= 2 for t in muts):
            twice += 1
        if muts:
            several += 1
        for t in muts:
            d = defs[t]
            kinds[d.get("const_kind", "?")] = kinds.get(d.get("const_kind", "?"), 0) + 1
            vias[d["via"]] = vias.get(d["via"], 0) + 1
            for target, path, op, _ in d["edits"]:
                ops[op] = ops.get(op, 0) + 1
                if target != "x":
                    depth[str(len(path))] = depth.get(str(len(path)), 0) + 1
    return {"pipeline_cases": pipes, "helper_cases": helpers, "cases_with_a_step_used_twice_in_one_pipeline": twice,
            "cases_whose_step_objects_are_shared_by_several_pipelines": several,
            "cases_with_function_arguments_that_edit_their_arguments": mfree,
            "steps_by_kind_of_written_default": kinds, "steps_by_spelling": vias, "edits_by_operation": ops,
            "edits_by_depth_inside_the_default": depth,
            "body_entries_logged": stats.get("entries", 0),
            "received_parameters_compared_with_the_written_value": stats.get("checked", 0),
            "kept_out_of_the_oracle": "option VALUES that are or hold a tuple or a set, received by a body that edits "
                                      "them: such a value is handed out as the caller's own object (observed on the "
                                      "unchanged source; lists and dicts are rebuilt), so the edit changes the caller's "
                                      "options dictionary",
            "oracle": "every law of the check (bracketing, (p+q).transform, >>, iteration order, keys/explain, history "
                      "independence against a freshly built pipeline, model agreement) plus: the value a body receives "
                      "for a parameter equals the value written in the step's definition"}

# ----------------------------------------------------------------------------- helpers on the containers programs pass

def KD(kind: str, v) -> dict:
    """an operand of the given kind (built afresh by the runner for every evaluation: RUNNER.KINDS)"""
    return {"K": kind, "v": v}


OP_MAPPINGS = ["dict", "counter", "defaultdict_list", "defaultdict_int", "defaultdict_nofactory", "ordereddict", "chainmap",
               "chainmap_missing", "dict_missing", "dict_missing_raises", "mappingproxy", "userdict", "userdict_missing",
               "abc_mapping"]
OP_SEQUENCES = ["list", "tuple", "str", "bytes", "bytearray", "range", "deque", "userlist", "userstring", "namedtuple"]
OP_SETS = ["set", "frozenset", "dict_keys", "dict_values", "dict_items"]
OP_ONESHOT = ["generator", "list_iterator", "map_object", "chain_object", "iterator_class"]
OP_PROTOCOLS = ["getitem_only", "getitem_len", "iter_only", "contains_only", "keyed_getitem_only"]
OP_SCALARS = ["int", "none"]
OP_KINDS = OP_MAPPINGS + OP_SEQUENCES + OP_SETS + OP_ONESHOT + OP_PROTOCOLS + OP_SCALARS

_OP_PAIRS = {"strs": [["a", 1], ["b", 2]], "ints": [[1, 10], [2, 20]], "nested": [["a", [1, 2]], ["b", [3]]], "empty": [],
             "other": [[2, 5], ["b", 7]]}
_OP_ITEMS = {"strs": ["a", "b"], "ints": [10, 20, 30], "nested": [[1, 2], [3]], "empty": [], "other": [20, 40]}
_OP_TEXT = {"strs": "ab", "ints": "abc", "nested": "ab", "empty": "", "other": "bd"}
_OP_SPECIAL = {
    "range": {"ints": [10, 40, 10], "empty": [0], "other": [20, 60, 20]},
    "bytes": {k: v for k, v in _OP_TEXT.items() if k != "strs"},
    "bytearray": {k: v for k, v in _OP_TEXT.items() if k != "strs"},
    "set": {**_OP_ITEMS, "nested": [TUP(1, 2), TUP(3)]},
    "frozenset": {**_OP_ITEMS, "nested": [TUP(1, 2), TUP(3)]},
    "dict_keys": {"ints": [[10, 1], [20, 2], [30, 3]], "strs": [["a", 1], ["b", 2]], "nested": [[TUP(1, 2), 0], [TUP(3), 0]],
                  "empty": [], "other": [[20, 1], [40, 2]]},
    "dict_values": {"ints": [["a", 10], ["b", 20], ["c", 30]], "strs": [[1, "a"], [2, "b"]], "nested": [["a", [1, 2]], ["b", [3]]],
                    "empty": [], "other": [["a", 20], ["b", 40]]},
    "dict_items": {"ints": [[1, 10], [2, 20]], "strs": [["a", 1], ["b", 2]], "nested": [["a", 1], ["b", 2]], "empty": [],
                   "other": [[2, 20], [3, 7]]},
    "generator": {**_OP_ITEMS, "nested": [KD("generator", [1, 2]), [3], KD("list_iterator", [4])]},
    "int": {"ints": 5, "other": 3, "empty": 0},
    "none": {"ints": None},
}


def op_content(kind: str, tag: str):
    """(found, operand of the kind with the tagged content) -- not every kind can hold every content"""
    if kind in _OP_SPECIAL:
        t = _OP_SPECIAL[kind]
        if tag not in t:
            return False, None
        return True, (t[tag] if kind in OP_SCALARS else KD(kind, t[tag]))
    if kind in OP_MAPPINGS or kind == "keyed_getitem_only":
        return True, KD(kind, _OP_PAIRS[tag])
    if kind in ("str", "userstring"):
        return True, KD(kind, _OP_TEXT[tag])
    return True, KD(kind, _OP_ITEMS[tag])


SAME, OTHER = {"same": 1}, {"other": 1}      # "an operand of the same kind with the same / with other content"


def PK(name: str) -> dict:
    return FN("prim:" + name)


# (helper, [(parameter, value, may be given as an Option)], contents of the input operand, is a scalar helper)
OP_INPUT_ROWS: List[Tuple[str, list, List[str], bool]] = [
    ("map", [("func", PK("pair"), 0)], ["ints", "strs", "empty"], False),
    ("filter", [("func", PK("keep"), 0)], ["ints", "strs"], False),
    ("reduce", [("func", PK("nest"), 0)], ["ints", "empty"], False),
    ("reduce", [("func", PK("nest"), 0), ("initial", 0, 1)], ["ints", "empty"], False),
    ("reduce", [("func", PK("nest"), 0), ("initial", None, 0)], ["ints", "empty"], False),
    ("into", [("func", PK("capture"), 0)], ["ints", "strs", "empty"], False),
    ("flatten", [], ["nested", "strs", "ints"], False),
    ("flatmap", [("func", PK("pair"), 0)], ["ints"], False),
    ("flatmap", [("func", PK("gen2"), 0)], ["strs"], False),
    ("flatmap", [("func", PK("ident"), 0)], ["nested"], False),
    ("map_items", [("func", PK("kv_box"), 0)], ["ints", "strs"], False),
    ("map_keys", [("func", PK("k_tuple"), 0)], ["ints", "strs"], False),
    ("map_values", [("func", PK("box"), 0)], ["ints", "strs"], False),
    ("filter_items", [("func", PK("kv_keep"), 0)], ["ints", "strs"], False),
    ("filter_keys", [("func", PK("keep"), 0)], ["ints", "strs"], False),
    ("filter_values", [("func", PK("keep"), 0)], ["ints", "strs"], False),
    ("concat", [("iterable", [8, 9], 0)], ["ints", "empty"], False),
    ("concat", [("iterable", KD("generator", [8, 9]), 0)], ["ints"], False),
    ("append", [("item", 9, 1)], ["ints", "empty"], False),
    ("append", [("item", [9], 0)], ["strs"], False),
    ("length", [], ["ints", "empty"], False),
    ("contains", [("value", 20, 1)], ["ints"], False), ("contains", [("value", 1, 1)], ["ints"], False),
    ("contains", [("value", "a", 1)], ["strs"], False), ("contains", [("value", "zz", 1)], ["strs"], False),
    ("contains", [("value", [1], 0)], ["ints"], False),
    ("does_not_contain", [("value", 20, 1)], ["ints"], False), ("does_not_contain", [("value", "a", 1)], ["strs"], False),
    ("does_not_contain", [("value", [1], 0)], ["ints"], False),
    ("merge", [("mapping", DICT(["b", 9], ["z", 0]), 0)], ["strs", "ints", "empty"], False),
    ("merge", [("mapping", DICT([2, 9], [7, 0]), 0)], ["strs", "ints"], False),
    ("merge", [("mapping", DICT(), 0)], ["strs"], False),
] + [(n, [(p, [20, 30, "a", 1], 0)], ["ints", "strs"], False)
     for n, p in [("intersect", "collection"), ("union", "collection"), ("difference", "collection"),
                  ("symmetric_difference", "collection"), ("intersects", "iterable"), ("disjoint_from", "iterable")]] + [
    ("add", [("__x", OTHER, 0)], ["ints"], True), ("add", [("__x", [1], 0)], ["ints"], True), ("add", [("__x", 2, 1)], ["ints"], True),
    ("subtract", [("__x", OTHER, 0)], ["ints"], True), ("subtract", [("__x", 2, 1)], ["ints"], True),
    ("multiply", [("__x", 2, 1)], ["ints"], True), ("multiply", [("__x", OTHER, 0)], ["ints"], True),
    ("left_multiply", [("__x", 2, 1)], ["ints"], True), ("left_multiply", [("__x", OTHER, 0)], ["ints"], True),
    ("divide_by", [("__x", 2, 1)], ["ints"], True), ("divide_by", [("__x", OTHER, 0)], ["ints"], True),
    ("divide_into", [("__x", 2, 1)], ["ints"], True),
    ("modulo", [("__x", 2, 1)], ["ints"], True), ("modulo", [("__x", OTHER, 0)], ["ints", "strs"], True),
    ("has_remainder", [("divisor", 2, 1), ("reminder", 0, 1)], ["ints"], True),
] + [(n, [], ["ints"], True) for n in ("negate", "positive", "negative", "non_positive", "non_negative", "even", "odd",
                                       "is_none", "is_not_none")] + [
    (n, [("value", v, 0)], ["ints"], True) for n in ("eq", "ne", "gt", "ge", "lt", "le") for v in (SAME, OTHER, [10, 20, 30])
] + [
    ("instance_of", [("types", {"many": [TY("Mapping")]}, 0)], ["ints"], True),
    ("instance_of", [("types", {"many": [TY("list"), TY("tuple"), TY("Sequence")]}, 0)], ["ints"], True),
    ("instance_of", [("types", {"many": [TY("Iterator"), TY("Set")]}, 0)], ["ints"], True),
    ("instance_of", [("types", {"many": [TY("dict")]}, 0)], ["ints"], True),
    ("all", [("funcs", {"many": [PK("truthy"), PK("longer")]}, 0)], ["ints", "empty"], True),
    ("any", [("funcs", {"many": [PK("longer"), PK("truthy")]}, 0)], ["ints", "empty"], True),
    ("invert", [], ["ints", "empty"], True), ("invert", [("func", PK("longer"), 0)], ["ints"], True),
    ("ensure", [("__predicate", PK("truthy"), 0)], ["ints", "empty"], True),
    ("ensure", [("__predicate", PK("truthy"), 0), ("__msg", "must hold something", 1)], ["empty"], True),
    ("get_attribute", [("__name", "__class__", 1)], ["ints"], True), ("get_attribute", [("__name", "nope", 1)], ["ints"], True),
    ("get_attribute", [("__name", "data", 1)], ["ints"], True), ("get_attribute", [("__name", "default_factory", 1)], ["ints"], True),
    ("call_method", [("__name", "get", 1), ("args", {"many": ["a", "D"]}, 0)], ["strs"], True),
    ("call_method", [("__name", "count", 1), ("args", {"many": [20]}, 0)], ["ints"], True),
    ("call_method", [("__name", "__len__", 1)], ["ints"], True), ("call_method", [("__name", "copy", 1)], ["ints"], True),
    ("call_method", [("__name", "items", 1)], ["strs"], True),
    ("partial", [("__func", PK("capture"), 0), ("args", {"many": [[1], KD("counter", [["a", 1]])]}, 0),
                 ("kwargs", {"dict": [["z", 3]]}, 0)], ["ints"], True),
]
# (helper, the parameter holding the operand, its contents, the other parameters, the plain inputs)
OP_PARAM_ROWS: List[Tuple[str, str, List[str], list, list]] = [
    ("concat", "iterable", ["ints", "empty"], [], [[1, 2], KD("generator", [1, 2])]),
    ("append", "item", ["ints"], [], [[1, 2]]),
    ("is_in", "container", ["ints"], [], [20, 1, [1], 99]), ("is_in", "container", ["strs"], [], ["a", "zz"]),
    ("is_not_in", "container", ["ints"], [], [20, [1]]), ("is_not_in", "container", ["strs"], [], ["a", "zz"]),
    ("merge", "mapping", ["strs", "ints", "empty"], [], [DICT(["a", 0], ["q", 5]), DICT([1, 0], [9, 5])]),
    ("eq", "value", ["ints"], [], [[10, 20, 30], DICT([1, 10], [2, 20])]),
    ("add", "__x", ["ints"], [], [[1]]),
    ("left_multiply", "__x", ["ints"], [], [2]),
    ("reduce", "initial", ["ints"], [("func", PK("nest"), 0)], [[1, 2]]),
    ("one_of", "items", ["ints"], [], [SAME, OTHER, 5]), ("none_of", "items", ["ints"], [], [SAME, 5]),
] + [(n, p, ["ints", "strs"], [], [[20, 30, "a", 1]])
     for n, p in [("intersect", "collection"), ("union", "collection"), ("difference", "collection"),
                  ("symmetric_difference", "collection"), ("intersects", "iterable"), ("disjoint_from", "iterable")]]
# one_of / none_of on scalars: membership is by ==, items need not be hashable, nor the input
OP_ITEM_ROWS = [(n, items, x) for n in ("one_of", "none_of")
                for items in ([1, "a", [1]], [1, "a"], [TUP(1, 2), DICT(["k", 1])])
                for x in (1, "a", [1], 2, True, DICT(["k", 1]), TUP(1, 2))]
# the key / index situations of get and get_from, by the operand's class
OP_DEFAULTS = [("no default", None), ("default None", C(None)), ("default 0", 0), ("default 'dflt'", "dflt")]
OP_GET_SITUATIONS = {
    "mapping": [("strs", "a", "key present"), ("strs", "zz", "key absent"), ("ints", 1, "int key present"),
                ("ints", 7, "int key absent"), ("ints", -1, "negative int key absent"), ("ints", 0, "key 0 absent"),
                ("strs", [1], "unhashable key"), ("empty", "a", "empty, key absent")],
    "sequence": [("ints", 0, "index 0"), ("ints", 2, "last index"), ("ints", -1, "index -1"), ("ints", -3, "index -len"),
                 ("ints", 3, "index len"), ("ints", -4, "index -len-1"), ("ints", 99, "index far out of range"),
                 ("ints", "a", "str index"), ("empty", 0, "empty, index 0"), ("empty", -1, "empty, index -1")],
    "other": [("ints", 0, "index 0"), ("ints", 5, "index out of range"), ("ints", -1, "index -1"), ("ints", "a", "str key")],
}


def op_class(kind: str) -> str:
    return "mapping" if kind in OP_MAPPINGS or kind == "keyed_getitem_only" else "sequence" if kind in OP_SEQUENCES else "other"


def operand_family(seed: int, thorough: bool) -> List[dict]:
    """directed family, run in every run: every helper of labrea.functions on every kind of container Python
    programs pass (collections.Counter / defaultdict / OrderedDict / ChainMap, dict subclasses with __missing__,
    mappingproxy, UserDict / UserList / UserString, deque, range, bytes, named tuples, sets and dict views,
    generators and other one-shot iterators, classes with only __getitem__ / __iter__ / __contains__), as the
    input and as the container parameter; get / get_from over every key / index situation with the default
    omitted, None, and given.  Reference: the documented Python equivalent, computed by the runner without labrea
    (RUNNER.EQUIV) on operands of its own.  The seed moves which cases give their scalar parameters as Options
    (and, in the quick tier, which quarter of the kinds each scalar helper row visits; the quick tier also leaves
    out the second contents of the single-input parameter rows and the `default=0` column of get / get_from)."""
    cs: List[dict] = []
    modes = ("c", "o", "c", "d")

    def put(name, args, inp, kind, role, situation):
        """args: [(parameter, value or {"many"/"dict"}, may be an Option)]"""
        n = len(cs) + seed
        bargs, options, mode = [], [], ""
        for j, (p, v, optable) in enumerate(args):
            how = modes[(n + j) % 4] if optable else "c"
            if how == "d" and isinstance(v, str):
                how = "o"
            mode += how
            if isinstance(v, dict) and "many" in v:
                items = []
                for m, x in enumerate(v["many"]):        # the first member varies, the others stay constants
                    h = how if (m == 0 and not (how == "d" and isinstance(x, str))) else "o" if (m == 0 and how == "d") else "c"
                    b, o = _as_bparam(x, h, "K_" + p.strip("_"))
                    items.append(b); options += o
                bargs.append([p, {"many": items}])
            elif isinstance(v, dict) and "dict" in v:
                bargs.append([p, {"dict": [[kn, C(x)] for kn, x in v["dict"]]}])
            elif isinstance(v, dict) and set(v) == {"c"}:
                bargs.append([p, v])
            else:
                b, o = _as_bparam(v, how, "K_" + p.strip("_"))
                bargs.append([p, b]); options += o
        cs.append({"kind": "helper", "family": "operand", "name": name, "args": bargs, "options": options, "input": inp,
                   "oracle": True, "model": False, "mode": mode,
                   "operand": {"kind": kind, "role": role, "situation": situation}})

    def resolve(v, kind, tag):
        """SAME / OTHER stand for an operand of the kind under test"""
        if v is SAME or v is OTHER:
            return op_content(kind, tag if v is SAME else "other")
        if isinstance(v, dict) and "many" in v:
            xs = [resolve(x, kind, tag) for x in v["many"]]
            return all(f for f, _ in xs), {"many": [x for _, x in xs]}
        return True, v

    # (1) every helper with the operand as its input
    for ri, (name, args, tags, scalar) in enumerate(OP_INPUT_ROWS):
        for ki, kind in enumerate(OP_KINDS):
            if scalar and not thorough and (ri + ki + seed) % 4:
                continue
            for tag in tags:
                found, inp = op_content(kind, tag)
                if not found:
                    continue
                rs = [(p,) + resolve(v, kind, tag) + (o,) for p, v, o in args]
                if not all(f for _, f, _, _ in rs):
                    continue
                put(name, [(p, v, o) for p, _, v, o in rs], inp, kind, "input", tag)
    # (2) the operand as the container parameter
    for name, pname, tags, others, inputs in OP_PARAM_ROWS:
        for kind in OP_KINDS:
            for tag in tags[:None if thorough or len(inputs) > 1 else 1]:
                found, operand = op_content(kind, tag)
                if not found:
                    continue
                for x in inputs:
                    f2, x2 = resolve(x, kind, tag)
                    if not f2:
                        continue
                    pv = {"many": [operand, 5]} if name in ("one_of", "none_of") else operand
                    put(name, others + [(pname, pv, 0)], x2, kind, "parameter " + pname, tag)
    for name, items, x in OP_ITEM_ROWS:
        put(name, [("items", {"many": items}, 1)], x, "scalars", "parameter items", "items %d" % len(items))
    # (3) get / get_from: key / index situation x default situation
    for kind in OP_KINDS:
        for tag, key, situation in OP_GET_SITUATIONS[op_class(kind)]:
            found, operand = op_content(kind, tag)
            if not found:
                continue
            for dlabel, dv in OP_DEFAULTS:
                if not thorough and dlabel == "default 0":
                    continue
                dargs = [] if dv is None else [("default", dv, 0 if isinstance(dv, dict) else 1)]
                key_optable = 0 if isinstance(key, list) else 1
                put("get", [("__x", key, key_optable)] + dargs, operand, kind, "input", situation + ", " + dlabel)
                put("get_from", [("__x", operand, 0)] + dargs, key, kind, "parameter __x", situation + ", " + dlabel)
    return cs


def operand_histogram(cases: List[dict]) -> Dict[str, Any]:
    """what the operand family of this run was made of (counted on the cases)"""
    per: Dict[str, Dict[str, int]] = {}
    kinds: Dict[str, int] = {}
    roles: Dict[str, int] = {}
    gets: Dict[str, int] = {}
    n = 0
    for c in cases:
        if c.get("family") != "operand":
            continue
        n += 1
        o = c["operand"]
        per.setdefault(c["name"], {})
        per[c["name"]][o["kind"]] = per[c["name"]].get(o["kind"], 0) + 1
        kinds[o["kind"]] = kinds.get(o["kind"], 0) + 1
        roles[o["role"].split()[0]] = roles.get(o["role"].split()[0], 0) + 1
        if c["name"] in ("get", "get_from"):
            for part, label in zip(("key or index: ", "default: "), o["situation"].rsplit(", ", 1)):
                gets[part + label] = gets.get(part + label, 0) + 1
    return {"cases": n, "helpers": len(per), "operand_kinds": len([k for k in kinds if k != "scalars"]),
            "cases_by_operand_kind": kinds, "cases_by_role_of_the_operand": roles,
            "cases_by_helper_and_operand_kind": per, "get_and_get_from_cases_by_key_and_default_situation": gets,
            "reference": "the documented Python equivalent of the helper (RUNNER.EQUIV, written without labrea), evaluated "
                         "on operands of its own built from the same description",
            "compared": "value with the types of its containers, or exception class; whether the result is the input "
                        "object; items pulled from every one-shot operand when the step returns and after the result is "
                        "used up; the input operand as the call left it"}

# ----------------------------------------------------------------------------- running both sides

def run_impl(cases: List[dict]) -> List[Dict[str, Any]]:
    env = {"PYTHONPATH": str(REPO), "PYTHONHASHSEED": "0", "PYTHONDONTWRITEBYTECODE": "1"}
    r = sh([PY, "-B", "-c", RUNNER], inp="\n".join(json.dumps(c) for c in cases) + "\n", env=env, timeout=1500)
    lines = [l for l in r.stdout.splitlines() if l.strip()]
    if r.returncode != 0 or len(lines) != len(cases):
        raise Infra(f"runner failed (rc={r.returncode}, {len(lines)}/{len(cases)} lines): {r.stderr[-1500:]}")
    return [json.loads(l) for l in lines]


def to_model(j):
    """the case as the model reads it: a step whose body edits what it receives denotes the pure function of the
    values written in its definition (its spelling decides which constructor of the model it is); a function
    constant that scribbles over its arguments denotes the free function of the same name"""
    if isinstance(j, list):
        return [to_model(x) for x in j]
    if not isinstance(j, dict):
        return j
    if j.get("k") == "mut":
        params = to_model(j.get("params", []))
        if j.get("via") == "fpartial_pos":
            return {"k": "helper", "name": "partial", "args": [["__func", C(FN("free:" + j["name"]))],
                                                               ["args", {"many": [b for _, b in params]}]]}
        if j.get("via") == "fpartial":
            return {"k": "helper", "name": "partial", "args": [["__func", C(FN("free:" + j["name"]))],
                                                               ["kwargs", {"dict": params}]]}
        if j["base"] == "dec":
            return {"k": "dec", "prim": j["prim"], "params": params}
        return {"k": "free", "name": j["name"], "params": params}
    if isinstance(j.get("F"), str) and j["F"].startswith("mfree:"):
        return {**{k: to_model(v) for k, v in j.items()}, "F": "free:" + j["F"][6:]}
    return {k: to_model(v) for k, v in j.items()}


def run_model(cases: List[dict]) -> List[Dict[str, Any]]:
    lines = run_driver("drv_pipeline", [json.dumps(to_model(c)) for c in cases])
    if len(lines) != len(cases):
        raise Infra(f"drv_pipeline printed {len(lines)} lines for {len(cases)} cases")
    return [json.loads(l) for l in lines]


def canon(j):
    """canonical form of an observation: sets and key lists sorted, duplicates removed"""
    if isinstance(j, list):
        return [canon(x) for x in j]
    if isinstance(j, dict):
        if set(j) == {"s"}:
            xs = [canon(x) for x in j["s"]]
            uniq = {json.dumps(x, sort_keys=True): x for x in xs}
            return {"s": [uniq[k] for k in sorted(uniq)]}
        return {k: canon(v) for k, v in j.items()}
    return j


def canon_keys(r):
    if isinstance(r, dict) and "ok" in r:
        return {"ok": sorted(set(r["ok"]))}
    return r


FACETS_PIPE = ["iter", "empty", "tf", "keys", "explain", "apply", "akeys", "aexplain"]
FACETS_HELPER = ["tf", "keys", "explain"]


def project(obs: Dict[str, Any], kind: str) -> Dict[str, Any]:
    out = {}
    for f in (FACETS_PIPE if kind == "pipe" else FACETS_HELPER):
        if f in obs:
            v = obs[f]
            out[f] = canon_keys(v) if f in ("keys", "explain", "akeys", "aexplain") else canon(v)
    for f in ("build_error", "driver_error"):
        if f in obs:
            out[f] = obs[f]
    return out


def judge(case: dict, impl: Dict[str, Any], model: Optional[Dict[str, Any]]) -> List[Tuple[str, str, Dict[str, Any]]]:
    """[(kind, what, detail)]"""
    out = []
    for o in impl.get("oracle", []):
        out.append(("failing-input", o["what"], o.get("detail", {})))
    if "build_error" in impl:
        out.append(("failing-input", f"building the case on the implementation raised {impl['build_error']}: "
                                     f"{impl.get('msg', '')}", {"tb": impl.get("tb")}))
    if model is not None:
        pi, pm = project(impl, case["kind"]), project(model, case["kind"])
        alias = impl.get("alias") or {}
        if alias and "iter" in pm:
            pm["iter"] = [alias.get(str(t), t) for t in pm["iter"]]
        if "driver_error" in pm:
            raise Infra(f"driver rejected a case: {pm['driver_error']} :: {json.dumps(case)[:400]}")
        if model_limit(pm):
            raise Infra(f"generator produced a case outside the model (ModelLimit/ModelFuel): {json.dumps(case)[:400]}")
        if pi != pm:
            diff = [f for f in set(pi) | set(pm) if pi.get(f) != pm.get(f)]
            out.append(("correspondence", f"implementation and model disagree on {sorted(diff)} "
                                          f"({describe(case)})", {"impl": pi, "model": pm}))
    return out


def model_limit(pm) -> bool:
    s = json.dumps(pm)
    return '"ModelLimit"' in s or '"ModelFuel"' in s


def describe(case: dict) -> str:
    if case["kind"] == "helper":
        return f"helper {case['name']} mode={case.get('mode')}"
    return f"pipeline of {len(leaves_of(case['expr']))} operands"


def evaluate(cases: List[dict], with_model: bool = True,
             stats: Optional[Dict[str, int]] = None) -> List[List[Tuple[str, str, Dict[str, Any]]]]:
    impl = run_impl(cases)
    if stats is not None:
        for o in impl:
            for k, v in (o.get("mut") or {}).items():
                stats[k] = stats.get(k, 0) + v
    want = [i for i, c in enumerate(cases) if with_model and c.get("model", True)]
    model_out: Dict[int, Dict[str, Any]] = {}
    if want:
        ms = run_model([cases[i] for i in want])
        model_out = dict(zip(want, ms))
    return [judge(c, impl[i], model_out.get(i)) for i, c in enumerate(cases)]


# ----------------------------------------------------------------------------- shrinking

def prune_steps(case: dict) -> dict:
    """drop the definitions of steps no longer referenced"""
    used = set()

    def walk(e):
        if e[0] == "+":
            walk(e[1]); walk(e[2])
        elif e[0] in ("S", "C", "K"):
            used.add(e[1])
            d = dict((t, s) for t, s in case["steps"]).get(e[1])
            if d and d["k"] == "nested":
                walk(d["expr"])
            if e[0] == "K" and len(e) > 2:
                walk(e[2])
    walk(case["expr"])
    c = dict(case)
    c["steps"] = [[t, s] for t, s in case["steps"] if t in used]
    return c


def drop_leaf(e, idx: int, counter: List[int]):
    """the expression without its idx-th leaf (None when nothing is left)"""
    if e[0] == "+":
        l = drop_leaf(e[1], idx, counter)
        r = drop_leaf(e[2], idx, counter)
        if l is None:
            return r
        if r is None:
            return l
        return ["+", l, r]
    if e[0] == "K" and len(e) > 2:
        r = drop_leaf(e[2], idx, counter)
        me = counter[0]; counter[0] += 1
        if me == idx:
            return r
        return ["K", e[1], r] if r is not None else ["K", e[1]]
    me = counter[0]; counter[0] += 1
    return None if me == idx else e


def variants(case: dict) -> List[dict]:
    out = []
    if case["kind"] == "pipe":
        n = len(leaves_of(case["expr"]))
        for i in range(n):
            e = drop_leaf(case["expr"], i, [0])
            if e is None:
                continue
            e = fix_left(e)
            if e[0] not in ("+", "E", "K"):
                e = ["+", ["E"], e]
            c = dict(case); c["expr"] = e
            out.append(prune_steps(c))
        for i in range(len(case.get("inputs", []))):
            if len(case["inputs"]) > 1:
                c = dict(case); c["inputs"] = case["inputs"][:i] + case["inputs"][i + 1:]
                out.append(c)
        for i in range(len(case.get("options", []))):
            c = dict(case); c["options"] = case["options"][:i] + case["options"][i + 1:]
            out.append(c)
        if "source" in case:
            c = dict(case); c.pop("source"); out.append(c)
    return out


def shrink(case: dict, kind: str, rounds: int = 8) -> dict:
    cur = case
    for _ in range(rounds):
        vs = variants(cur)
        if not vs:
            break
        try:
            js = evaluate(vs)
        except Infra:
            break
        nxt = None
        for v, j in zip(vs, js):
            if any(k == kind for k, _, _ in j):
                nxt = v
                break
        if nxt is None:
            break
        cur = nxt
    return cur


def classify(payload: Dict[str, Any]) -> Optional[str]:
    return None


# ----------------------------------------------------------------------------- explore

def nontrivial(case: dict) -> bool:
    """rule: a pipeline case with >= 2 step operands and a '+', or a helper case with a parameter/input"""
    if case["kind"] == "helper":
        return True
    ls = [l for l in leaves_of(case["expr"]) if l[0] != "E"]
    return len(ls) >= 2


def histogram(cases: List[dict], impl_errs: Dict[str, int]) -> Dict[str, Any]:
    kinds: Dict[str, int] = {}
    sizes: Dict[str, int] = {}
    helpers: Dict[str, int] = {}
    modes: Dict[str, int] = {}
    for c in cases:
        if c["kind"] == "helper":
            helpers[c["name"]] = helpers.get(c["name"], 0) + 1
            for ch in c.get("mode", ""):
                modes[ch] = modes.get(ch, 0) + 1
            continue
        ls = leaves_of(c["expr"])
        sizes[str(len(ls))] = sizes.get(str(len(ls)), 0) + 1
        defs = dict((t, s) for t, s in c["steps"])
        for l in ls:
            k = "empty" if l[0] == "E" else defs[l[1]]["k"] + ("/callable" if l[0] == "C" else "")
            kinds[k] = kinds.get(k, 0) + 1
    return {"operand_kinds": kinds, "pipeline_sizes": sizes, "helpers_covered": len(helpers),
            "helper_cases_per_helper_min": min(helpers.values()) if helpers else 0,
            "helper_param_modes(c=const,o=option,d=default,m=missing)": modes, "outcome_classes": impl_errs}


def build_cases(ctx: Ctx, scale: float = 1.0) -> List[dict]:
    rng = random.Random(ctx.seed)
    g = Gen(rng)
    thorough = ctx.tier == "thorough"
    cases = pipe_corpus()
    cases += exhaustive(6 if thorough else 5)
    cases += helper_corpus()
    cases += mutable_family(ctx.seed, thorough)
    cases += operand_family(ctx.seed, thorough)
    n_random = int((25000 if thorough else 2500) * scale)
    for i in range(n_random):
        cases.append(g.case(rng.choice([1, 2, 2, 3, 3, 4, 4, 5, 5, 6, 6])))
    return cases


def coverage_problems() -> List[str]:
    """every public helper of the current source must have a corpus entry (and vice versa)"""
    probs = []
    names = [r["name"] for r in TRANSLATED_ROWS]
    for n in names:
        if n not in HELPER_CASES:
            probs.append(f"helper {n} of labrea/functions.py has no case in the C13 corpus")
    for n in HELPER_CASES:
        if names and n not in names:
            probs.append(f"helper {n} of the C13 corpus is no longer defined by labrea/functions.py")
    on_operands = {r[0] for r in OP_INPUT_ROWS} | {r[0] for r in OP_PARAM_ROWS} | {r[0] for r in OP_ITEM_ROWS} | {"get", "get_from"}
    for n in names:
        if n not in on_operands:
            probs.append(f"helper {n} of labrea/functions.py has no row in the C13 operand family")
    return probs


def explore_core(ctx: Ctx, with_model: bool, scale: float = 1.0) -> Tuple[List[Finding], Dict[str, Any]]:
    cases = build_cases(ctx, scale)
    findings: List[Finding] = []
    for p in TRANSLATOR_PROBLEMS + coverage_problems():
        findings.append(Finding("translator", p, {"source": str(REPO / "labrea" / "functions.py")}))
    judged: List[List[Tuple[str, str, Dict[str, Any]]]] = []
    CH = 1500
    stats: Dict[str, int] = {}
    i = 0
    while i < len(cases):       # the operand-family cases are light (one step, one call, no model run): ten count as one
        j, w = i, 0.0
        while j < len(cases) and w < CH:
            w += 0.1 if cases[j].get("family") == "operand" else 1.0
            j += 1
        judged += evaluate(cases[i:j], with_model, stats)
        i = j
    seen_what = set()
    disagreements = 0
    errs: Dict[str, int] = {}
    for c, js in zip(cases, judged):
        for kind, what, detail in js:
            disagreements += 1
            key = (kind, what.split("(")[0][:80])
            if key in seen_what or len(findings) > 12:
                continue
            seen_what.add(key)
            small = shrink(c, kind) if c["kind"] == "pipe" else c
            if small is not c:
                again = [j for j in evaluate([small], with_model)[0] if j[0] == kind]
                same_what = [j for j in again if j[1].split("(")[0][:80] == key[1]]
                if same_what or again:
                    what, detail = (same_what or again)[0][1:3]
                else:
                    small = c
            key2 = (kind, what.split("(")[0][:80])
            if key2 != key and key2 in seen_what:
                continue
            seen_what.add(key2)
            findings.append(Finding(kind, what, {"case": small, "detail": detail, "repo": str(REPO)}))
    distinct = {json.dumps(c, sort_keys=True) for c in cases if nontrivial(c)}
    samples = [json.dumps(c)[:300] for c in (cases[0], cases[len(pipe_corpus()) + 3], cases[-1])]
    hc = [c for c in cases if c["kind"] == "helper"]
    if hc:
        samples.append(json.dumps(hc[len(hc) // 2])[:300])
    mc = [c for c in cases if c.get("family") == "mut" and c["kind"] == "pipe"]
    if mc:
        samples.append(json.dumps(mc[len(mc) // 3])[:600])
    cov = {"evaluations": len(cases), "distinct_nontrivial": len(distinct),
           "rule": "pipeline cases with >= 2 non-empty operands of +, and every helper case",
           "programs": len(cases), "disagreements_checked": disagreements, "samples": samples,
           "distribution": histogram(cases, errs),
           "steps_editing_their_parameters": mut_histogram(cases, stats),
           "helpers_on_the_containers_programs_pass": operand_histogram(cases),
           "translator": {"rows": len(TRANSLATED_ROWS), "problems": TRANSLATOR_PROBLEMS}}
    return findings, cov


def explore(ctx: Ctx) -> Exploration:
    findings, cov = explore_core(ctx, with_model=True)
    return Exploration(findings, cov)


def failing_input_search(ctx: Ctx, why: str) -> List[Finding]:
    """the Lean side is broken (e.g. the generated table no longer matches the specification):
    look for a concrete failing input with the implementation-only oracle (and the model when the
    driver can still be built)"""
    for p in TRANSLATOR_PROBLEMS:
        print(f"TRANSLATOR: {p}")
    try:
        findings, _ = explore_core(ctx, with_model=driver_path("drv_pipeline").exists(), scale=2.0)
    except Infra as e:
        print(f"(failing-input search with the model failed: {e}; retrying with the oracle only)")
        findings, _ = explore_core(ctx, with_model=False, scale=2.0)
    return [f for f in findings if f.kind == "failing-input"]


def replay(ctx: Ctx, payload: Dict[str, Any]) -> int:
    case = payload.get("case")
    if case is None:
        print("this replay file carries no input (a broken theorem / translator finding): "
              "re-run ./check C13; what was recorded:")
        print(json.dumps({k: payload.get(k) for k in ("kind", "what", "all_broken")}, indent=1)[:3000])
        err = lean_build(SPEC.lean_modules)
        print("lake build of the C13 theorems:", "ok" if err is None else "FAILS\n" + err[-1500:])
        return 1 if (err or TRANSLATOR_PROBLEMS) else 0
    impl = run_impl([case])[0]
    model = None
    if case.get("model", True):
        try:
            model = run_model([case])[0]
        except Infra as e:
            print(f"(model not available: {e})")
    print("case:   ", json.dumps(case))
    print("impl:   ", json.dumps(project(impl, case["kind"])))
    if model is not None:
        print("model:  ", json.dumps(project(model, case["kind"])))
    js = judge(case, impl, model)
    for kind, what, detail in js:
        print(f"{kind}: {what}")
        print("   ", json.dumps(detail)[:1500])
    bad = [j for j in js if j[0] in ("failing-input", "correspondence")]
    print("verdict:", "STILL FAILING" if bad else "passes now")
    return 1 if bad else 0


if __name__ == "__main__":
    sys.exit(main_check(SPEC, explore, failing_input_search, replay))

"""C18 — every core operation is an interceptable request; pass-through changes nothing.

Parts of the check (see lean/LabreaModel/Hook.lean, lean/LabreaProps/C18.lean):
  0. translator: labrea/*.py -> lean/LabreaModel/Generated/ClassTable.lean (before the Lean build)
  1. reflection over the real package vs the class table / the Lean model (`drv_hook table`)
  2. synthetic subclass chains made with type() on the real ABCs vs the Lean model (`drv_hook`)
  3. pass-through recording handlers on a corpus of real expression graphs (implementation oracle)
  4. substitution handler for one dataset (implementation oracle)
  5. USER-DEFINED node classes: a directed family of class shapes (`user_family`, the same in every run; the
     seed only rotates the option dictionaries of the quick tier), one shape for every hook-bearing base
     (Evaluatable, Validatable, Cacheable, Explainable, Effect = Validatable+Explainable) x operation x the way
     the implementation reaches the class:
        body                   defined in the class body
        mixin_before           inherited from a plain (non-labrea) mixin listed BEFORE the labrea base
        mixin_after            ... listed AFTER a labrea base: reachable only when the base that hooks the method
                               comes later still (`class N(Explainable, Mix, Validatable)`); directly after the
                               hooking base the base's abstract method shadows it and the class cannot be
                               instantiated (observed, `mixin_after_shadowed`)
        parent                 inherited from a user-defined labrea subclass
        override               overridden again in a sub-subclass, not calling the parent
        override_chain_slot    overridden, calling the parent's implementation as Base.__labrea_m__(self, options)
        mixin_before_parent    a plain mixin listed before a user-defined labrea subclass that defines the method
        mixed                  some operations from one or two mixins / a mixin's parent, the others from the body
                               or a parent; body shadowing a mixin; parent built on a mixin; diamond
        builtin_*              subclasses of Option, Switch, WithOptions, Cached, Logged, Value overriding one
                               operation (body / mixin listed before / chaining to the built-in's slot)
     Classes are created with type(name, bases, namespace) (= what a class statement does; a class decorator
     that returns a rebuilt subclass is the same thing). Every function of a recipe logs that its code ran.
     Each node is used alone, as a direct and indirect dependency of datasets, as a dataset effect (Effect
     shapes) and inside every combinator of the corpus language (one graph holding all of them in the quick
     tier; also one graph per combinator in the thorough tier), with
       (a) the recording pass-through handlers of part 3 for all request types: results and the sequence of
           user functions run are the same as without handlers, and for every hooked operation the number of
           executions of the implementation the class designates (first definition along CPython's MRO,
           computed from the recipe, not from what the hooks did) equals the number of requests of that type
           seen for that object; nothing else of the recipe ran in its place; called directly, each operation
           returns what that implementation returns;
       (b) substituting handlers: for EvaluateRequest through the graph shapes of part 4 (`dep`), and for each
           of the four request types called directly / as node(options) / through a dataset (`u_subst_ops`):
           the caller gets the substituted result, the handler was consulted, the node's own code did not run.
     Lean side: the hook theorems speak about single-inheritance chains of class bodies; a function found on a
     plain mixin listed before the parent is, for the hooks (first own-dict entry along the MRO of the new
     class), the same as that function bound in the body, and a mixin after a parent that defines the method is
     invisible. Part 2 therefore creates real mixin classes for the chain tokens m<j>/n<j> and hands the model
     the chain with p<j>/- in their place (`chain_to_model`): these chains are further instances of `hook_total`
     (columns ok/intended of drv_hook) and are compared observation by observation; the def-only oracle of
     part 2 covers them too. Shapes the model has no words for (a mixin between two hook roots, built-in
     parents with constructors, slot chaining at call time) are judged by the oracle (a)/(b) alone.
     KEPT OUT OF THE ORACLE (observed in every run, reported in the evidence under user_class_family.per_shape):
       override_chain_super   `super().m(options)` in an override of a routed method: the parent's attribute is
                              the wrapper, which issues a new request for the same object, whose default handler
                              runs the override again -> unbounded recursion (RecursionError) on the unchanged
                              package, with and without handlers;
       setattr_after          `Cls.m = f` after class creation (a mutating class decorator): the hooks only run
                              at class creation, the new function is called directly, no request is issued.

  6. PUBLIC ENTRY POINTS other than evaluate / validate / keys / explain through which the library evaluates a
     node on the caller's behalf (`ep_rows`: the table entry point -> equivalent direct form, where a direct form
     only calls the four operations on nodes, node constructors and plain Python). Reflection lists, for every
     node class of the package, its public callables and properties (names not starting with `_`, plus __call__,
     __rshift__, __add__, __iter__) and the public names of the package / of labrea.functions; every one of them
     is either a row of the table or shows up in the evidence under entry_points.uncovered_members. Rows:
        node(o), node(), node(None)          == node.evaluate(o or {})          (every node class)
        step.transform(x, o) / (x) / kw      == step.evaluate(o or {})(x)       (PipelineStep, Pipeline, every
                                                                                 helper of labrea.functions)
        effect.transform(x, o)               == callback.evaluate(o or {})(x) / member effects / one LogRequest
        node >> f, node.apply(f), .bind(g)   == Apply / Bind built directly, and == f(node.evaluate(o)) /
                                                g(node.evaluate(o)).evaluate(o) (`core` form: same outcome, a
                                                substitution for node honoured alike, node.evaluate(o)'s requests
                                                are part of the entry point's, in order) -- on every node class,
                                                dataset classes included (DC >> f, DC.apply(f), DC.bind(g))
        step + other, pipeline + other       == Pipeline(...) built directly; iteration / .empty: no request
        node.result, ensure, unit, fingerprint, Map.values, Dataset.default / with_options / with_default_options /
        register / overload / set_dispatch / set_cache / add_effect(s) / disable_effects / enable_effects /
        is_abstract, Option.set / namespace / auto, Namespace members, Overloaded.register / switch, CaseWhen.when /
        otherwise, FunctionApplication.lift / PartialApplication.lift, dataset-class instantiation DC(o), and the
        helper constructors cached, switch, case, coalesce, WithDefaultOptions, evaluatable_list/tuple/set/dict,
        arguments, pipeline_step, dataset.
     Every row runs on every subject it applies to (`ep_subjects`: one fresh graph per node class, the helpers of
     labrea.functions with option-valued arguments, some user-defined class shapes of part 5; plus, drawn from the
     seed, random graphs and random pipelines for the inherited rows). For each (row, subject, options), both
     forms on fresh subjects:
       (a) under pass-through recording handlers for ALL request types the sequence of requests (kind, target:
           the subject's name for declared nodes / the class for temporary ones, digest of the options handed
           over) and the outcome (value or exception chain with the error sources) must be equal;
       (b) under an EvaluateRequest handler that answers a substitute for the node itself / for a dependency the
           outcome and the request sequence must be equal again (so the entry point honours a substitution
           exactly where the direct form does).
     The directed family is the same in every run; the seed rotates the option dictionaries in the quick tier.
     OBSERVED ONLY, BY DESIGN (evidence: entry_points.observed_only_by_design and .observed_only; there is no
     known bypass of a routed operation: entry_points.known_bypasses_kept_out_of_the_oracle is empty):
       dataset-class instantiation          `DC(options)` is the CONSTRUCTOR of the dataset class (type.__call__:
                                            `type` precedes Evaluatable in the bases of the metaclass), not an
                                            alias of DC.evaluate: it is what DC.evaluate runs once its
                                            EvaluateRequest has been handled, so it issues the requests of
                                            DC.evaluate(options) minus that one request for DC, and a handler
                                            substituting DC does not apply to it. Rows DatasetClass.instantiate,
                                            :member: with that one request removed from the direct form the two
                                            forms must still agree (judged); the substitution for DC itself is
                                            observed. (Until /repo e6a9737 Apply / Bind called their source as
                                            source(options), which made DC >> f, DC.apply(f), DC.bind(g) skip the
                                            request too: repaired, those rows are judged in full.)

The implementation always runs in a subprocess of PY with PYTHONPATH=REPO (worker mode of this file); the two
family jobs of part 5 and the job of part 6 run in their own worker processes concurrently with parts 1-4.
"""
import sys
from pathlib import Path

sys.path.insert(0, str(Path(__file__).resolve().parent.parent))
from common import *          # noqa: F401,F403
import json
import os
import random

METHS = ["evaluate", "validate", "keys", "explain"]
ML = {"evaluate": "e", "validate": "v", "keys": "k", "explain": "x"}
LM = {v: k for k, v in ML.items()}

SPEC = PropSpec(
    pid="C18",
    lean_modules=["LabreaProps.C18", "LabreaProps.C18Core"],
    model_files=["LabreaModel/Hook.lean", "LabreaModel/HookLemmas.lean", "LabreaModel/Generated/ClassTable.lean",
                 "LabreaModel/Value.lean", "LabreaModel/Dotted.lean", "LabreaModel/Resolve.lean", "LabreaModel/Expr.lean",
                 "LabreaModel/Eval.lean"],
    drivers=["drv_hook", "driver"],
    trusted_base=[
        "harness/translate_classes.py (ast -> ClassTable.lean); its output is cross-checked against reflection "
        "over the imported package (same classes, same MRO, same functions by qualname and line)",
        "CPython class creation as abstracted in LabreaModel/Hook.lean (own-dict lookup along the MRO, cooperative "
        "__init_subclass__ in reverse MRO order); tied to the real interpreter by synthetic type() chains",
        "the recording handlers and the monkeypatched slot/cache/logging counters of harness/props/C18.py",
        "user-defined class family: CPython's MRO decides which recipe function a class designates; chain tokens "
        "m<j>/n<j> (real mixin classes) are presented to the Hook model as p<j>/- (chain_to_model)",
        "entry-point table (part 6): the direct form of every public entry point is written by hand in ep_rows; the list of "
        "members it has to cover comes from reflection over the imported package",
    ],
    assumptions=[
        "Generic/Protocol/ABC __init_subclass__ call super() (checked: they are the only foreign ones in any MRO)",
        "bases outside the class table define none of the eight names (checked by reflection on every MRO)",
        "instance-level and metaclass-instance-level shadowing of the four method names is out of scope "
        "(a dataset class with a member called `evaluate`)",
        "parts 3/4/5 are implementation-side oracles; the core evaluator model's request log is an extension point "
        "(core_request_log)",
        "user-defined classes: super().m(options) inside an override of a routed method (unbounded recursion on the "
        "unchanged package) and assignment of a method after class creation (not routed) are observed, not judged",
        "entry points (part 6): calling a dataset class, DC(options), is its constructor and not evaluate(): by design it "
        "issues no EvaluateRequest for DC (observed; the rest of its request sequence is judged against DC.evaluate). "
        "DC >> f / DC.apply / DC.bind are judged like on every other node class. Request targets that are temporary "
        "nodes are compared by class, not identity",
    ],
)

_TRANSLATION = {"info": None, "problems": None}


# ----------------------------------------------------------------------------------------------
# EXTENSION POINT (coordinator): the core evaluator model's prediction of the request log.
# Return None while the model is not hooked in; otherwise a list of [request_kind, node_label]
# in issue order for `evaluate` of the named corpus graph under `options`; it is compared with the
# recorded log of part 3 (declared nodes only).
# ----------------------------------------------------------------------------------------------
def core_request_log(graph, options):
    return None


def run_worker(job, timeout=900):
    """Run one job in the implementation subprocess (labrea imported from REPO)."""
    env = {"PYTHONPATH": str(REPO), "PYTHONHASHSEED": "0", "PYTHONWARNINGS": "ignore"}
    r = sh([PY, "-B", str(Path(__file__).resolve()), "--worker"], inp=json.dumps(job), timeout=timeout, env=env)
    if r.returncode != 0:
        raise Infra(f"C18 worker failed ({job.get('job')}): {r.stderr[-2500:]}")
    try:
        return json.loads(r.stdout)
    except Exception:
        raise Infra(f"C18 worker produced no JSON ({job.get('job')}): {r.stdout[-800:]} {r.stderr[-800:]}")


def translation():
    if _TRANSLATION["info"] is None:
        from translate_classes import write_class_table
        info, problems = write_class_table(REPO, LEAN)
        _TRANSLATION["info"], _TRANSLATION["problems"] = info, problems
    return _TRANSLATION["info"], _TRANSLATION["problems"]


# ==============================================================================================
# WORKER SIDE (runs under PY with labrea imported from REPO)
# ==============================================================================================
class W:
    """Lazily initialised worker state."""
    ready = False


def w_init(info):
    import importlib
    import pkgutil
    import labrea
    import labrea.types as T
    import labrea.runtime as RT
    if W.ready:
        return
    for mi in pkgutil.iter_modules(labrea.__path__):
        importlib.import_module("labrea." + mi.name)
    W.labrea = labrea
    W.T = T
    W.RT = RT
    W.ROOT = {"validate": T.Validatable, "keys": T.Cacheable, "explain": T.Explainable, "evaluate": T.Evaluatable}
    W.REQ = {"evaluate": T.EvaluateRequest, "validate": T.ValidateRequest, "keys": T.KeysRequest,
             "explain": T.ExplainRequest}
    W.TARGET = {"evaluate": "evaluatable", "validate": "validatable", "keys": "cacheable", "explain": "explainable"}
    W.info = info
    W.cls_by_id = {}
    W.id_by_cls = {}
    if info is not None:
        for c in info["classes"]:
            mod = sys.modules.get(c["module"])
            obj = getattr(mod, c["qualname"], None) if mod else None
            if isinstance(obj, type):
                W.cls_by_id[c["id"]] = obj
                W.id_by_cls[obj] = c["id"]
    W.names = {}       # id(function object) -> canonical name
    W.keep = []
    if info is not None:
        byqual = {(c["module"], c["qualname"]): c["id"] for c in info["classes"]}
        for cid, K in W.cls_by_id.items():
            for name in METHS + [f"__labrea_{m}__" for m in METHS]:
                obj = vars(K).get(name)
                if obj is None:
                    continue
                W.names.setdefault(id(obj), w_name_of(obj, byqual))
                W.keep.append(obj)
        for k, dotted in (info.get("ext_functions") or {}).items():
            modname, _, fn = dotted.rpartition(".")
            f = getattr(sys.modules.get(modname), fn, None)
            if f is not None:
                W.names.setdefault(id(f), f"x{k}")
    W.ready = True


def w_name_of(obj, byqual):
    import types
    if not isinstance(obj, types.FunctionType):
        return "?" + type(obj).__name__
    nm = obj.__name__
    qn = obj.__qualname__
    if getattr(obj, "__labrea_wrapper__", None) is True and "__init_subclass__.<locals>" in qn and nm in ML:
        return "w." + ML[nm]
    owner = byqual.get((obj.__module__, qn.rsplit(".", 1)[0])) if "." in qn else None
    if owner is None:
        return "?fn:" + qn
    if nm in ML:
        return f"u{owner}.{ML[nm]}"
    if nm.startswith("__labrea_") and nm[9:-2] in ML:
        return f"s{owner}.{ML[nm[9:-2]]}"
    return "?fn:" + qn


def w_static(cls, name):
    """own-dict lookup along the MRO (no descriptor protocol)"""
    for K in cls.__mro__:
        if name in vars(K):
            return vars(K)[name], K
    return None, None


def w_fname(obj):
    if obj is None:
        return "-"
    n = W.names.get(id(obj))
    if n is None:
        n = w_name_of(obj, {})      # wrappers made by the hooks for classes created here
        n = n if n.startswith("w.") else "?obj"
    return n


def w_hooked(cls, m):
    return W.ROOT[m] in cls.__mro__[1:]


# ---------------------------------------------------------------------------------- part 1
def w_reflect(job):
    info = job["info"]
    w_init(info)
    T, RT = W.T, W.RT
    out = {"lines": {}, "problems": [], "classes": 0, "checks": 0}
    # -- discovery: every subclass of a root that lives in labrea.*
    found, stack = set(), list(W.ROOT.values())
    while stack:
        c = stack.pop()
        if c in found:
            continue
        found.add(c)
        stack.extend(type.__subclasses__(c))
    real = {(c.__module__, c.__qualname__) for c in found if c.__module__.split(".")[0] == "labrea"}
    table = {(c["module"], c["qualname"]) for c in info["classes"]}
    for x in sorted(real - table):
        out["problems"].append({"kind": "correspondence", "what": f"class {x[0]}.{x[1]} exists at run time but not in the class table"})
    for x in sorted(table - real):
        out["problems"].append({"kind": "correspondence", "what": f"class {x[0]}.{x[1]} of the class table does not exist at run time"})
    sentinel_token = object()
    for c in info["classes"]:
        K = W.cls_by_id.get(c["id"])
        if K is None:
            continue
        out["classes"] += 1
        mro_ids = [W.id_by_cls[k] for k in K.__mro__ if k in W.id_by_cls]
        # inert check on everything else in the MRO
        for k in K.__mro__:
            if k in W.id_by_cls:
                continue
            bad = [n for n in METHS + [f"__labrea_{m}__" for m in METHS] if n in vars(k)]
            if bad:
                out["problems"].append({"kind": "correspondence", "what": f"non-table base {k.__qualname__} of {c['full']} defines {bad}"})
            if "__init_subclass__" in vars(k) and k.__module__ not in ("typing", "abc", "builtins", "collections.abc", "typing_extensions"):
                out["problems"].append({"kind": "correspondence", "what": f"non-table base {k.__module__}.{k.__qualname__} of {c['full']} defines __init_subclass__"})
        cols = []
        for m in METHS:
            slot = f"__labrea_{m}__"
            a, aK = w_static(K, m)
            s, _ = w_static(K, slot)
            hk = w_hooked(K, m)
            req, ran = "-", "-"
            if a is not None:
                # dynamic: what does the attribute do when called on a sentinel instance?
                seen = []

                def mk(mm):
                    def h(r):
                        seen.append((mm, getattr(r, W.TARGET[mm], None)))
                        return sentinel_token
                    return h
                sent = object()
                marked = getattr(a, "__labrea_wrapper__", None) is True
                if marked:
                    try:
                        with RT.handle({W.REQ[mm]: mk(mm) for mm in METHS}):
                            ret = a(sent, {})
                    except BaseException as e:     # noqa: BLE001
                        ret = ("exc", type(e).__name__)
                    if len(seen) == 1 and seen[0][1] is sent and ret is sentinel_token:
                        req = ML[seen[0][0]]
                        rs, _ = w_static(K, f"__labrea_{seen[0][0]}__")
                        ran = w_fname(rs)
                    else:
                        req = "?" + "+".join(ML[x[0]] for x in seen)
                        ran = w_fname(a)
                else:
                    ran = w_fname(a)
            # nearest class whose body wrote the function that finally runs (owner by qualname)
            mdd = ran if ran[:1] in ("u", "x") else "-"
            cols.append(f"{ML[m]}:{1 if hk else 0},{w_fname(a)},{w_fname(s)},{req},{ran},{mdd}")
            # ---- independent oracle (property statement on the implementation)
            if hk:
                out["checks"] += 1
                ctxp = {"part": 1, "cls": c["full"], "method": m}
                if a is None or getattr(a, "__labrea_wrapper__", None) is not True:
                    out["problems"].append({"kind": "failing-input", "what": f"{c['full']}.{m} is not a marked wrapper", "payload": ctxp})
                    continue
                if req != ML[m]:
                    out["problems"].append({"kind": "failing-input", "what": f"calling {c['full']}.{m} does not issue exactly one {W.REQ[m].__name__} for self (observed {req})", "payload": ctxp})
                    continue
                exp = w_expected_slot(info, K, m)
                if exp is not None and exp[0] == "unknown":
                    continue
                if exp is None or s is not exp[1]:
                    out["problems"].append({"kind": "failing-input",
                                            "what": f"{c['full']}.__labrea_{m}__ is {w_describe(s)} but the most-derived body binding {m} designates {exp[2] if exp else 'nothing'}",
                                            "payload": ctxp})
        out["lines"][str(c["id"])] = f"{c['id']} {c['full']} mro={','.join(map(str, mro_ids))} | " + " | ".join(cols)
    return out


def w_describe(f):
    if f is None:
        return "missing"
    return f"{getattr(f, '__module__', '?')}.{getattr(f, '__qualname__', type(f).__name__)}:{getattr(getattr(f, '__code__', None), 'co_firstlineno', '?')}"


def w_expected_slot(info, K, m):
    """What the source text designates: walk the real MRO, first table class whose body binds m."""
    byid = {c["id"]: c for c in info["classes"]}
    for k in K.__mro__:
        cid = W.id_by_cls.get(k)
        if cid is None:
            continue
        c = byid[cid]
        d = c["meth"][m]
        slot = f"__labrea_{m}__"
        hooked_here = w_hooked(k, m)
        if d[0] == "def":
            # the function written in that body: now in the slot if the class is hooked, else still the attribute
            f = vars(k).get(slot) if hooked_here else vars(k).get(m)
            ok = (f is not None and getattr(f, "__qualname__", None) == f"{k.__qualname__}.{m}"
                  and f.__module__ == k.__module__ and f.__code__.co_firstlineno == _def_line(c, m, f))
            return ("fn", f if ok else object(), f"def {c['full']}.{m} (line {c['def_line'].get(m)})")
        if d[0] == "from":
            src = W.cls_by_id.get(d[1])
            if src is None:
                return ("unknown", None, "")
            sa, _ = w_static(src, d[2])
            if getattr(sa, "__labrea_wrapper__", None) is True:
                f, _ = w_static(src, f"__labrea_{d[2]}__")
            else:
                f = sa
            return ("fn", f, f"{byid[d[1]]['full']}.{d[2]} (assigned in {c['full']})")
        if d[0] == "ext":
            modname, _, fn = d[2].rpartition(".")
            f = getattr(sys.modules.get(modname), fn, None)
            return ("fn", f, f"module-level function {d[2]} (assigned in {c['full']})")
        if c["slot"][m] and d[0] == "absent":
            f = vars(k).get(slot)
            if hooked_here:
                return ("fn", f, f"def {c['full']}.{slot}")
            # a root: the slot stub is not what subclasses designate; the attribute is
            continue
    return None


def _def_line(c, m, f):
    """Line of the `def` (decorators start earlier: co_firstlineno is the first decorator line)."""
    import inspect
    line = c["def_line"].get(m)
    try:
        src, start = inspect.getsourcelines(f)
    except Exception:
        return line
    for i, l in enumerate(src):
        if l.lstrip().startswith("def "):
            return f.__code__.co_firstlineno if start + i == line else -1
    return line


# ---------------------------------------------------------------------------------- part 2
def w_chains(job):
    """Create each synthetic chain with type() on the real classes and observe it."""
    info = job["info"]
    w_init(info)
    RT = W.RT
    ran_log = []

    def tagged(tag, marker=False, name="f"):
        def f(self, options=None):
            ran_log.append(tag)
            return None
        f.__name__ = name
        if marker:
            f.__labrea_wrapper__ = True
        W.names[id(f)] = tag
        W.keep.append(f)
        return f
    # replace every unmarked table function among the eight names by a tagged stub, so that "which
    # function's code ran" is observed dynamically (worker process is private to this job)
    for cid, K in W.cls_by_id.items():
        for name in METHS + [f"__labrea_{m}__" for m in METHS]:
            obj = vars(K).get(name)
            if obj is not None and getattr(obj, "__labrea_wrapper__", None) is not True:
                tag = W.names.get(id(obj), "?")
                setattr(K, name, tagged(tag, name=name))
    ext_fns, fake_fns, mix_fns = {}, {}, {}
    results = []
    seen_reqs = []

    def rec(mm):
        default = RT._DEFAULT_HANDLERS[W.REQ[mm]]

        def h(r):
            seen_reqs.append((mm, getattr(r, W.TARGET[mm], None)))
            return default(r)
        return h
    handlers = {W.REQ[mm]: rec(mm) for mm in METHS}

    def observe(cls):
        if isinstance(cls, type) and issubclass(cls, type):
            inst = type.__new__(cls, "Inst", (), {})
        else:
            inst = object.__new__(cls)
        cols = []
        for m in METHS:
            a, _ = w_static(cls, m)
            s, _ = w_static(cls, f"__labrea_{m}__")
            req, ran = "-", "-"
            if a is not None:
                del ran_log[:]
                del seen_reqs[:]
                try:
                    with RT.handle(handlers):
                        getattr(inst, m)({})
                except BaseException:    # noqa: BLE001
                    pass
                if seen_reqs:
                    req = "+".join(ML[x[0]] if x[1] is inst else "?" + ML[x[0]] for x in seen_reqs)
                if ran_log:
                    ran = "+".join(ran_log)
            cols.append(f"{ML[m]}:{1 if w_hooked(cls, m) else 0},{w_fname(a)},{w_fname(s)},{req},{ran}")
        return cols

    for line in job["chains"]:
        parts = line.split("|")
        base = parts[0]
        try:
            if base.startswith("T:"):
                bases = (W.cls_by_id[int(base[2:])],)
            else:
                bases = tuple(W.cls_by_id[int(x)] for x in base[2:].split(","))
        except Exception as e:     # noqa: BLE001
            results.append({"spec": line, "error": f"bad base: {e}"})
            continue
        classes, norm, obs, rehook_same = [], [base], [], True
        parent = bases
        err = None
        for i, body in enumerate(parts[1:]):
            toks = body.split(",")
            ns, ntoks = {}, []
            mix_before, mix_after = {}, {}
            for m, tok in zip(METHS, toks[:4]):
                val = None
                if tok == "-":
                    pass
                elif tok == "d":
                    val = tagged(f"u{1000 + i}.{ML[m]}", name=m)
                elif tok[0] in "mn":
                    # inherited from a plain mixin class listed before (m) / after (n) the parent
                    (mix_before if tok[0] == "m" else mix_after)[m] = mix_fns.setdefault((tok, m), tagged("x" + tok[1:], name=m))
                    ntoks.append(tok)
                    continue
                elif tok[0] == "p":
                    val = ext_fns.setdefault(tok, tagged("x" + tok[1:]))
                elif tok[0] == "f":
                    val = fake_fns.setdefault(tok, tagged("f" + tok[1:], marker=True))
                else:
                    src_s, ms = tok[1:].split(".")
                    if tok[0] == "a":
                        src = classes[int(src_s)] if int(src_s) < len(classes) else None
                    elif tok[0] == "b":
                        src = bases[0] if len(bases) == 1 else None
                    else:
                        src = W.cls_by_id.get(int(src_s))
                    val = w_static(src, LM[ms])[0] if src is not None else None
                    if val is None:
                        tok = "-"
                if val is not None:
                    ns[m] = val
                ntoks.append(tok)
            flags = toks[4]
            for m, fl in zip(METHS, flags):
                if fl == "1":
                    ns[f"__labrea_{m}__"] = tagged(f"s{1000 + i}.{ML[m]}", name=f"__labrea_{m}__")
            norm.append(",".join(ntoks + [flags]))
            try:
                bases_i = parent
                if mix_before:
                    bases_i = (type(f"MixBefore{i}", (), dict(mix_before)),) + bases_i
                if mix_after:
                    bases_i = bases_i + (type(f"MixAfter{i}", (), dict(mix_after)),)
                cls = type(f"S{i}", bases_i, ns)
                cls.__abstractmethods__ = frozenset()
            except BaseException as e:     # noqa: BLE001
                err = f"class creation failed at body {i}: {type(e).__name__}: {e}"
                break
            classes.append(cls)
            parent = (cls,)
            cols = observe(cls)
            # wrapper_idempotent on the implementation: re-run every hook, observe again
            try:
                for m in METHS:
                    if w_hooked(cls, m):
                        W.ROOT[m].__init_subclass__.__func__(cls)
                cols2 = observe(cls)
            except BaseException as e:     # noqa: BLE001
                cols2 = [f"rehook failed {type(e).__name__}"]
            if cols2 != cols:
                rehook_same = False
            obs.append(cols)
        results.append({"spec": "|".join(norm), "error": err, "obs": obs, "rehook_same": rehook_same})
    return {"results": results}


# ---------------------------------------------------------------------------------- parts 3/4: graphs
def g_canon(v, probe=3, depth=0):
    """JSON-able canonical form of an evaluation result; consumes lazy results (must be called
    inside the handler block)."""
    import types as _t
    import functools
    import itertools
    if depth > 8:
        return "<deep>"
    if isinstance(v, str):
        import re
        return re.sub(r" at 0x[0-9a-fA-F]+", " at 0x", v)      # reprs of lazy objects embedded by str()/templates
    if v is None or isinstance(v, (bool, int, float)):
        return v
    if isinstance(v, (list, tuple)):
        return [type(v).__name__] + [g_canon(x, probe, depth + 1) for x in v]
    if isinstance(v, (set, frozenset)):
        return ["set"] + sorted((g_canon(x, probe, depth + 1) for x in v), key=repr)
    if isinstance(v, dict):
        return ["dict"] + sorted(([g_canon(k, probe, depth + 1), g_canon(x, probe, depth + 1)] for k, x in v.items()), key=repr)
    if isinstance(v, (_t.GeneratorType, map, filter, zip, itertools.chain)) or (hasattr(v, "__next__") and hasattr(v, "__iter__")):
        out = ["iter"]
        try:
            for x in v:
                out.append(g_canon(x, probe, depth + 1))
        except BaseException as e:     # noqa: BLE001
            out.append(["raised"] + g_exc(e))
        return out
    if isinstance(v, type):
        return ["class", v.__name__]
    if callable(v) and isinstance(v, (_t.FunctionType, _t.BuiltinFunctionType, functools.partial, _t.MethodType)):
        try:
            return ["fn->", g_canon(v(probe), probe, depth + 1)]
        except BaseException as e:     # noqa: BLE001
            return ["fn-raises"] + g_exc(e)
    if hasattr(v, "_repr_options"):
        return ["dc", type(v).__name__, g_canon(v._repr_options, probe, depth + 1)]
    if type(v).__name__ == "Arguments":
        return ["args", g_canon(v.args, probe, depth + 1), g_canon(v.kwargs, probe, depth + 1)]
    return ["obj", type(v).__name__]


def g_exc(e):
    out, n = [], 0
    while e is not None and n < 6:
        nm = type(e).__name__
        if nm == "KeyNotFoundError":
            nm += ":" + str(getattr(e, "key", "?"))
        out.append(nm)
        e = e.__cause__
        n += 1
    return out


FUNCS = {
    "inc": lambda x: x + 1,
    "str": lambda x: __import__("re").sub(r" at 0x[0-9a-fA-F]+", " at 0x", str(x)),   # no addresses of lazy objects
    "tup": lambda *a, **k: tuple(a) + tuple(sorted(k.items())),
    "first": lambda *a, **k: (a + tuple(k.values()) + (None,))[0],
    "ident": lambda x: x,
    "lst": lambda x: [x] if isinstance(x, str) else list(x),
    "neg": lambda x: -x,
    "pos": lambda x: isinstance(x, (int, float)) and x > 0,
    "isstr": lambda x: isinstance(x, str),
    "always": lambda x: True,
    "never": lambda x: False,
    "boom": lambda *a, **k: (_ for _ in ()).throw(ValueError("boom")),
}
TYPES = {"int": int, "str": str, "list": list, "dict": dict}


class GB:
    """Builds a fresh labrea graph from a JSON spec (public API only)."""

    def __init__(self, shared_specs=(), urecipe=None):
        self.shared_specs = list(shared_specs)
        self.shared = {}
        self.urecipe = urecipe      # class shape of the user-defined node `["unode"]` (one instance per graph)
        self.unode = None
        self.effects_seen = []
        self.calls = []

    def ref(self, i):
        if i not in self.shared:
            self.shared[i] = self.b(self.shared_specs[i])
        return self.shared[i]

    def b(self, s):
        import labrea
        from labrea import Option, Value, Template, Iter, Map, Coalesce, Switch, case, cached, dataset, \
            WithOptions, WithDefaultOptions, Overloaded, pipeline_step, AllOptions
        from labrea.application import FunctionApplication, PartialApplication
        from labrea.cache import MemoryCache, NoCache
        from labrea.logging import Logged, LogEffect
        from labrea.computation import CallbackEffect
        k = s[0]
        if k == "val":
            return Value(s[1])
        if k == "opt":
            return Option(s[1])
        if k == "optd":
            d = s[2]
            return Option(s[1], default=self.b(d) if isinstance(d, list) and d and isinstance(d[0], str) and d[0] in SPEC_KINDS else d)
        if k == "optt":
            kw = {"type": TYPES[s[2]]}
            if len(s) > 3:
                kw["default"] = s[3]
            return Option(s[1], **kw)
        if k == "optdom":
            dom = self.b(s[2]) if isinstance(s[2], list) and s[2] and s[2][0] in SPEC_KINDS else s[2]
            kw = {"domain": dom}
            if len(s) > 3:
                kw["default"] = s[3]
            return Option(s[1], **kw)
        if k == "allopts":
            return AllOptions
        if k == "ref":
            return self.ref(s[1])
        if k == "unode":
            if self.unode is None:
                self.unode = u_node(self.urecipe)
            return self.unode
        if k == "apply":
            return self.b(s[1]).apply(FUNCS[s[2]])
        if k == "bind":
            alts = [self.b(x) for x in s[2]]
            return self.b(s[1]).bind(lambda v, alts=alts: alts[(v if isinstance(v, int) else len(FUNCS["str"](v))) % len(alts)])
        if k == "iter":
            return Iter(*[self.b(x) for x in s[1]])
        if k in ("list", "tuple", "set"):
            f = {"list": labrea.evaluatable_list, "tuple": labrea.evaluatable_tuple, "set": labrea.evaluatable_set}[k]
            return f(*[self.b(x) for x in s[1]])
        if k == "dict":
            return labrea.evaluatable_dict({kk: self.b(x) for kk, x in s[1].items()})
        if k == "coalesce":
            return Coalesce(*[self.b(x) for x in s[1]])
        if k == "switch":
            disp = s[1] if isinstance(s[1], str) else self.b(s[1])
            look = {_unkey(kk): self.b(x) for kk, x in s[2].items()}
            if s[3] is None:
                return Switch(disp, look)
            return Switch(disp, look, self.b(s[3]))
        if k == "case":
            c = case(self.b(s[1]))
            for pred, sub in s[2]:
                c = c.when(FUNCS[pred], self.b(sub))
            if s[3] is not None:
                c = c.otherwise(self.b(s[3]))
            return c
        if k == "tmpl":
            return Template(s[1], **{kk: self.b(x) for kk, x in s[2].items()})
        if k == "with":
            return (WithOptions if s[3] else WithDefaultOptions)(self.b(s[1]), s[2])
        if k == "cached":
            return cached(self.b(s[1]))
        if k == "logged":
            return Logged(self.b(s[1]), 20, "c18.logged", "c18 logged node", log_first=bool(s[2]))
        if k == "fa":
            return FunctionApplication(FUNCS[s[1]], *[self.b(x) for x in s[2]])
        if k == "pa":
            return PartialApplication(FUNCS[s[1]], *[self.b(x) for x in s[2]])
        if k == "map":
            return Map(self.b(s[1]), {kk: self.b(x) for kk, x in s[2].items()})
        if k == "mapvals":
            return Map(self.b(s[1]), {kk: self.b(x) for kk, x in s[2].items()}).values
        if k == "step":
            return self._step(s[1], [self.b(x) for x in s[2]])
        if k == "pipe":
            p = None
            for st in s[2]:
                stp = self._step(st[0], [self.b(x) for x in st[1]])
                p = stp if p is None else p + stp
            src = self.b(s[1])
            return src >> p if p is not None else src
        if k == "overloaded":
            return Overloaded(self.b(s[1]), {_unkey(kk): self.b(x) for kk, x in s[2].items()},
                              *([self.b(s[3])] if s[3] is not None else []))
        if k == "ds":
            return self._dataset(s)
        raise ValueError(f"unknown spec kind {k}")

    def _step(self, fname, params):
        from labrea import pipeline_step
        f = FUNCS[fname]
        n = len(params)
        if n == 0:
            def stepf(x):
                return f(x)
        elif n == 1:
            def stepf(x, p0=params[0]):
                return f(x, p0) if fname in ("tup", "first") else f(x)
        else:
            def stepf(x, p0=params[0], p1=params[1]):
                return f(x, p0, p1) if fname in ("tup", "first") else f(x)
        stepf.__name__ = "step_" + fname
        return pipeline_step(stepf)

    def _dataset(self, s):
        """["ds", fname, [dep specs], flags]"""
        from labrea import dataset, abstractdataset
        from labrea.cache import MemoryCache, NoCache
        from labrea.logging import LogEffect
        fname, deps, fl = s[1], [self.b(x) for x in s[2]], (s[3] if len(s) > 3 else {})
        f = FUNCS[fname]
        calls = self.calls
        names = ["a", "b", "c", "d"][:len(deps)]

        def make(n):
            if n == 0:
                def fn():
                    calls.append(fname); return f()
            elif n == 1:
                def fn(a=None):
                    calls.append(fname); return f(a)
            elif n == 2:
                def fn(a=None, b=None):
                    calls.append(fname); return f(a, b)
            elif n == 3:
                def fn(a=None, b=None, c=None):
                    calls.append(fname); return f(a, b, c)
            else:
                def fn(a=None, b=None, c=None, d=None):
                    calls.append(fname); return f(a, b, c, d)
            fn.__name__ = fn.__qualname__ = "ds_" + fname
            return fn
        kw = {"defaults": dict(zip(names, deps))}
        if fl.get("cache") == "none":
            kw["cache"] = NoCache()
        elif fl.get("cache") == "mem":
            kw["cache"] = MemoryCache
        eff = []
        if fl.get("effect"):
            eff.append(lambda v, seen=self.effects_seen: seen.append("cb"))
        if fl.get("logeffect"):
            eff.append(LogEffect(30, "c18.effect", "c18 effect"))
        if fl.get("effect_dep") is not None:
            eff.append(self.b(fl["effect_dep"]))
        if eff:
            kw["effects"] = eff
        if fl.get("callback") is not None:
            kw["callback"] = FUNCS[fl["callback"]] if isinstance(fl["callback"], str) else self._step(fl["callback"][0], [self.b(x) for x in fl["callback"][1]])
        if fl.get("dispatch") is not None:
            kw["dispatch"] = fl["dispatch"] if isinstance(fl["dispatch"], str) else self.b(fl["dispatch"])
        if fl.get("options") is not None:
            kw["options"] = fl["options"]
        if fl.get("default_options") is not None:
            kw["default_options"] = fl["default_options"]
        if fl.get("abstract"):
            d = abstractdataset(make(0), **{k2: v for k2, v in kw.items() if k2 != "defaults"})
        else:
            d = dataset(make(len(deps)), **kw)
        for alias, sub in (fl.get("overloads") or {}).items():
            d.register(_unkey(alias), self.b(sub))
        if fl.get("with_options") is not None:
            d = d.with_options(fl["with_options"])
        return d


SPEC_KINDS = {"val", "opt", "optd", "optt", "optdom", "allopts", "ref", "apply", "bind", "iter", "list", "tuple", "set",
              "dict", "coalesce", "switch", "case", "tmpl", "with", "cached", "logged", "fa", "pa", "map", "mapvals",
              "step", "pipe", "overloaded", "ds", "unode"}


def _unkey(k):
    """JSON object keys are strings; 'i:3' -> 3, 'b:1' -> True"""
    if isinstance(k, str) and k.startswith("i:"):
        return int(k[2:])
    if isinstance(k, str) and k.startswith("b:"):
        return k[2:] == "1"
    return k


def g_special(name, gb):
    """Corpus graphs that need Python syntax (decorators on classes); fresh objects on every call."""
    import labrea
    from labrea import Option, Value, dataset, abstractdataset, datasetclass, interface, implements, Template
    from labrea.types import Evaluatable
    if name == "namespace":
        @Option.namespace
        class PKG:
            A: int
            B = "dflt"
            T = Option.auto(default="{A}", doc="templated") >> str

            class SUB:
                X = 3
        return PKG
    if name == "namespace_member":
        @Option.namespace
        class PKG2:
            A = 7

            class SUB:
                X = "x{PKG2.A}"
        return labrea.evaluatable_tuple(PKG2.A, PKG2.SUB.X, PKG2.SUB)
    if name == "datasetclass":
        @dataset
        def inner(a=Option("A")):
            gb.calls.append("inner")
            return a

        @datasetclass
        class DC:
            a: int = inner
            b: str = Option("B", "bd")
            c: bool = True
        return DC
    if name == "datasetclass_in_dataset":
        @datasetclass
        class DC2:
            s: str = Option("S.X")
            n: int = Option("A", 0) >> (lambda x: x + 1)

        @dataset
        def uses(dc=DC2, k=Option("K", "kk")):
            return (dc.s, dc.n, k)
        return uses
    if name == "datasetclass_in_datasetclass":
        @datasetclass
        class Inner:
            s: str = Option("S.X")
            n: int = Option("A", 0) >> (lambda x: x + 1)

        @dataset
        def plus(a=Option("A", 0)):
            return a + 1

        @datasetclass
        class Outer:
            inner: object = Inner
            p: int = plus
            k: str = Option("K", "kk")
        return Outer
    if name == "interface":
        @interface("IMPL")
        class Store:
            path: str

            @dataset
            def kind() -> str:
                return "generic"

            limit: int = Option("LIMIT", 10)

        @Store.implementation("local")
        class Local:
            path = Option("ROOT", "/tmp")

            def kind() -> str:
                return "local"

        @implements(Store, alias=["mem", "ram"])
        class Mem:
            path = "memory:"
            limit = 1

        @dataset
        def report(p=Store.path, k=Store.kind, l=Store.limit):
            return (p, k, l)
        return report
    if name == "custom_subclass":
        class Twice(Evaluatable):
            """a third-party expression type"""

            def __init__(self, inner):
                self.inner = inner

            def evaluate(self, options):
                return (self.inner.evaluate(options), self.inner(options))

            def validate(self, options):
                self.inner.validate(options)

            def keys(self, options):
                return self.inner.keys(options)

            def explain(self, options=None):
                return self.inner.explain(options)

            def __repr__(self):
                return "Twice"

        class Thrice(Twice):
            def evaluate(self, options):
                return super().evaluate(options) + (self.inner.evaluate(options),)

        @dataset
        def base(a=Option("A", 1)):
            gb.calls.append("base")
            return a
        return labrea.evaluatable_list(Twice(base), Thrice(Option("B", "b")), Thrice(base))
    if name == "allopts_dataset":
        @dataset
        def everything(o=labrea.AllOptions, t=Template("{A}/{:p:}", p=Option("B", "pp"))):
            return (sorted(o), t)
        return everything
    if name == "dataset_decorators":
        @dataset(dispatch="MODE", options={"S": {"X": "forced"}}, default_options={"A": 40})
        def src(a=Option("A"), x=Option("S.X")):
            gb.calls.append("src")
            return (a, x)

        @src.overload("alt")
        def src_alt(b=Option("B", "bb")):
            return ("alt", b)

        @dataset.nocache
        def mid(s=src, a=Option("A", -1)):
            return (s, a)

        @dataset(effects=[lambda v: gb.effects_seen.append(v)], callback=lambda v: (v, "cb"))
        def top(m=mid, s=src):
            return (m, s)
        return top
    raise ValueError(name)


# ---------------------------------------------------------------------------------- part 5: user-defined node classes
class U:
    """State of the user-defined class family in the worker."""
    calls = []          # (op, id(self), tag): appended by every function written by a recipe when its code runs
    built = {}          # recipe id -> list of classes


def u_own(op, tag, o):
    """What the function `tag` written for `op` returns by itself (JSON-like, deterministic)."""
    has = hasattr(o, "get")
    if op == "evaluate":
        return ("u", tag, o.get("A") if has else None)
    if op == "validate":
        return None
    if op == "keys":
        return {"A"} if has and "A" in o else set()
    return {"A", "U_" + tag.replace(".", "_").replace("@", "_")}


def u_combine(op, own, pv):
    if op == "evaluate":
        return own + (pv,)
    if op == "validate":
        return None
    return set(own) | set(pv)


def u_base(ref):
    import labrea
    import labrea.cache
    import labrea.computation
    import labrea.logging
    import labrea.option
    T = W.T
    return {"Evaluatable": T.Evaluatable, "Validatable": T.Validatable, "Cacheable": T.Cacheable,
            "Explainable": T.Explainable, "Effect": labrea.computation.Effect, "Option": labrea.Option,
            "Switch": labrea.Switch, "Value": labrea.Value, "WithOptions": labrea.option.WithOptions,
            "Cached": labrea.cache.Cached, "Logged": labrea.logging.Logged}[ref]


def u_fn(op, tag, chain, classes, own_index):
    """A method body as a user would write it: logs that its code ran, optionally chains to the parent
    (`["slot", base]`: Base.__labrea_op__(self, options); `["super"]`: super().op(options))."""
    def f(self, options=None):
        U.calls.append((op, id(self), tag))
        o = options if options is not None else {}
        own = u_own(op, tag, o)
        if chain is None:
            return own
        if chain[0] == "slot":
            base = classes[chain[1]] if isinstance(chain[1], int) else u_base(chain[1])
            pv = getattr(base, f"__labrea_{op}__")(self, options)
        else:
            pv = getattr(super(classes[own_index], self), op)(options)
        return u_combine(op, own, pv)
    f.__name__ = op
    f.__qualname__ = tag
    f.__module__ = "c18_user"
    return f


def u_build(recipe):
    """Create the classes of a recipe with type() (what a `class` statement does: the metaclass is called
    with name, bases and namespace; __init_subclass__ of the bases runs inside type.__new__)."""
    if recipe["id"] in U.built:
        return U.built[recipe["id"]]
    roots = tuple(W.ROOT.values())
    classes = []
    for i, c in enumerate(recipe["classes"]):
        bases = tuple(classes[b] if isinstance(b, int) else u_base(b) for b in c["bases"])
        ns = {"__module__": "c18_user", "__qualname__": c["name"]}
        for op, ch in c["defs"].items():
            ns[op] = u_fn(op, f"{c['name']}.{op}", ch, classes, i)
        if any(issubclass(b, roots) for b in bases):
            ns["__repr__"] = (lambda rid, nm: lambda self: f"<{nm} of {rid}>")(recipe["id"], c["name"])
        if c.get("transform"):
            ns["transform"] = lambda self, value, options=None: None
        classes.append(type(c["name"], bases, ns))
    for step in recipe.get("post") or []:
        if step[0] == "setattr":        # assignment after class creation (what a mutating class decorator does)
            k = classes[step[1]]
            setattr(k, step[2], u_fn(step[2], f"{recipe['classes'][step[1]]['name']}.{step[2]}@set", None, classes, step[1]))
    if recipe.get("oracle", True):
        # harness self-check: the implementation the recipe says is designated == first definition along
        # CPython's MRO (recipe bodies and library sources), independently of what the hooks did
        byobj = {id(k): recipe["classes"][i] for i, k in enumerate(classes)}
        cls, des = classes[recipe["node"]], {}
        for op in METHS:
            if not w_hooked(cls, op):
                continue
            for k in cls.__mro__:
                c = byobj.get(id(k))
                if c is not None:
                    if op in c["defs"]:
                        des[op] = f"{c['name']}.{op}"
                        break
                elif k.__module__.split(".")[0] == "labrea" and op in vars(k):
                    break
        if des != recipe["expect"]:
            raise RuntimeError(f"recipe {recipe['id']}: expect={recipe['expect']} but the MRO designates {des}")
    U.built[recipe["id"]] = classes
    return classes


def u_node(recipe):
    from labrea import Option, Value
    from labrea.cache import MemoryCache
    cls = u_build(recipe)[recipe["node"]]
    ctor = (recipe.get("ctor") or ["plain"])[0]
    if ctor == "plain":
        return cls()
    if ctor == "Option":
        return cls("A", 7)
    if ctor == "Switch":
        return cls("K", {"k1": Value("one"), "k2": Option("A", 0)}, Value("dflt"))
    if ctor == "Value":
        return cls("v")
    if ctor == "WithOptions":
        return cls(Option("A", 0), {"A": 10})
    if ctor == "Cached":
        return cls(Option("A", 0), MemoryCache())
    if ctor == "Logged":
        return cls(Option("A", 0), 20, "c18.logged", "c18 logged node")
    raise ValueError(ctor)


def u_hooked_ops(node):
    return [m for m in METHS if w_hooked(type(node), m)]


def u_check(recipe, node, req, calls):
    """The property on one user-defined node after a recorded run: every execution of the implementation
    its class designates for a hooked operation corresponds to exactly one request of that type for that
    object, and no other function of the recipe ran in its place."""
    out = []
    allowed = {(op, t) for op, t in recipe["expect"].items()}
    allowed |= {(op, t) for op, ts in (recipe.get("chained") or {}).items() for t in ts}
    for op, tag in sorted(recipe["expect"].items()):
        execs = sum(1 for (m, i, t) in calls if m == op and i == id(node) and t == tag)
        reqs = req.get((id(node), op), 0)
        if execs != reqs:
            out.append(f"{op} of the user-defined node {node!r} (class shape {recipe['id']}): its implementation {tag} "
                       f"ran {execs} time(s) but the pass-through handler saw {reqs} {W.REQ[op].__name__}(s) for that object")
    for (m, i, t) in calls:
        if i == id(node) and (m, t) not in allowed:
            out.append(f"{m} of the user-defined node {node!r} (class shape {recipe['id']}) ran {t}, which is not the "
                       f"implementation its class designates ({recipe['expect'].get(m)})")
            break
    return out


def u_subst_ops(recipe, options):
    """Substituting handlers for each of the four request types on a user-defined node: called directly
    (`node.op(options)`, `node(options)`) and as the dependency of a dataset."""
    import copy
    import warnings
    from labrea import dataset
    RT, D = W.RT, W.RT._DEFAULT_HANDLERS
    subs = {"evaluate": "SUB", "validate": None, "keys": {"C18SUB"}, "explain": {"C18SUB"}}
    problems, checks = [], 0
    with warnings.catch_warnings():
        warnings.simplefilter("ignore")
        probe = u_node(recipe)
        ops = [m for m in u_hooked_ops(probe) if m in recipe["expect"]]
        evaluatable = isinstance(probe, W.T.Evaluatable)
        for where in ("direct", "call", "dataset"):
            for m in ops:
                if (where == "call" and m != "evaluate") or (where != "direct" and not evaluatable):
                    continue
                node = u_node(recipe)
                root = node if where != "dataset" else dataset(lambda x=None: ("outer", x), defaults={"x": node})
                hits = []

                def h(r, m=m, node=node, default=D[W.REQ[m]]):
                    if getattr(r, W.TARGET[m]) is node:
                        hits.append(1)
                        return subs[m]
                    return default(r)
                del U.calls[:]
                o = copy.deepcopy(options)
                try:
                    with RT.handle(W.REQ[m], h):
                        got = root(o) if where == "call" else getattr(root, m)(o)
                except BaseException as e:     # noqa: BLE001
                    got = ["raised"] + g_exc(e)
                ran = sum(1 for (mm, i, t) in U.calls if mm == m and i == id(node))
                checks += 1
                if where == "dataset":
                    ok = {"evaluate": got == ("outer", "SUB"), "validate": got is None,
                          "keys": isinstance(got, set) and "C18SUB" in got,
                          "explain": isinstance(got, set) and "C18SUB" in got}[m]
                else:
                    ok = got == subs[m] if m != "validate" else got is None
                what = {"direct": f"node.{m}(options)", "call": "node(options)", "dataset": f"{m} of a dataset that depends on the node"}[where]
                if not ok or ran or not hits:
                    problems.append({"what": f"user-defined node {node!r} (class shape {recipe['id']}), {what}: a {W.REQ[m].__name__} handler "
                                             f"that substitutes {subs[m]!r} for that node was consulted {len(hits)} time(s), the node's own "
                                             f"{m} ran {ran} time(s), the caller got {got!r}",
                                     "where": where, "op": m})
    return {"id": recipe["id"], "options": options, "problems": problems, "checks": checks}


def u_observe(recipe, options):
    """Shapes that are kept out of the oracle: report what happens (instantiation, one call per operation)."""
    import copy
    import warnings
    out = {}
    RT, D = W.RT, W.RT._DEFAULT_HANDLERS
    with warnings.catch_warnings():
        warnings.simplefilter("ignore")
        try:
            node = u_node(recipe)
        except BaseException as e:     # noqa: BLE001
            return {"id": recipe["id"], "observed": {"instantiate": "raised:" + ">".join(g_exc(e)) + ": " + str(e)[:90]}}
        for m in recipe.get("observe_ops") or u_hooked_ops(node):
            seen = []

            def h(r, m=m, default=D[W.REQ[m]]):
                if getattr(r, W.TARGET[m]) is node:
                    seen.append(1)
                return default(r)
            del U.calls[:]
            try:
                with RT.handle(W.REQ[m], h):
                    getattr(node, m)(copy.deepcopy(options))
                res = "ok"
            except BaseException as e:     # noqa: BLE001
                res = "raised:" + ">".join(g_exc(e))
            ran = sum(1 for (mm, i, t) in U.calls if mm == m and i == id(node))
            out[m] = f"{res}; requests for the node: {len(seen)}; bodies run: {ran}"
    return {"id": recipe["id"], "observed": out}


class Rec:
    """Recording pass-through handlers + independent execution counters (monkeypatched from here)."""

    def __init__(self, user_classes=()):
        self.user_classes = set(user_classes)     # classes of the family (module c18_user) that take part in this case
        self.req = {}          # (id(obj), m) -> count
        self.exe = {}          # (id(obj), m) -> count
        self.objs = {}         # id -> obj (keep alive, describe)
        self.log = []          # (request kind, id(target)) in issue order
        self.stack = []        # active slot executions
        self.reqstack = []     # active evaluate/validate/keys/explain requests (innermost last)
        self.cache_depth = {}
        self.backend = []      # (cache cls, op, inside_request)
        self.cache_reqs = {"CacheGetRequest": 0, "CacheSetRequest": 0, "CacheExistsRequest": 0}
        self.log_depth = 0
        self.log_reqs = 0
        self.emitted = []      # (logger, level, msg, inside)
        self.tv_reqs = 0
        self.opt_frames = []   # finished Option.evaluate executions: (key, ok, tvr, matched)
        self.patched = []
        self.handlers = None
        self.lh = None

    # -- install / uninstall
    def install(self):
        import logging
        import labrea.cache as C
        import labrea.logging as L
        import labrea.type_validation as TV
        from labrea.option import Option
        RT = W.RT
        D = RT._DEFAULT_HANDLERS
        rec = self
        hs = {}
        for m in METHS:
            def mk(m=m, default=D[W.REQ[m]], field=W.TARGET[m]):
                def h(r):
                    t = getattr(r, field)
                    rec.objs[id(t)] = t
                    rec.req[(id(t), m)] = rec.req.get((id(t), m), 0) + 1
                    rec.log.append((m, id(t)))
                    rec.reqstack.append({"key": (id(t), m), "used": False})
                    try:
                        return default(r)
                    finally:
                        rec.reqstack.pop()
                return h
            hs[W.REQ[m]] = mk()
        for R in (C.CacheGetRequest, C.CacheSetRequest, C.CacheExistsRequest):
            def mkc(R=R, default=D[R]):
                def h(r):
                    c = r.cache
                    rec.objs[id(c)] = c
                    rec.objs[id(r.evaluatable)] = r.evaluatable
                    rec.cache_reqs[R.__name__] += 1
                    rec.log.append((R.__name__, id(c)))
                    rec.cache_depth[id(c)] = rec.cache_depth.get(id(c), 0) + 1
                    try:
                        return default(r)
                    finally:
                        rec.cache_depth[id(c)] -= 1
                return h
            hs[R] = mkc()

        def hlog(r, default=D[L.LogRequest]):
            rec.log_reqs += 1
            rec.log.append(("LogRequest", 0))
            rec.log_depth += 1
            try:
                return default(r)
            finally:
                rec.log_depth -= 1
        hs[L.LogRequest] = hlog

        def htv(r, default=D[TV.TypeValidationRequest]):
            rec.tv_reqs += 1
            rec.log.append(("TypeValidationRequest", 0))
            if rec.stack and rec.stack[-1]["m"] == "evaluate" and isinstance(rec.stack[-1]["obj"], Option):
                fr = rec.stack[-1]
                fr["tvr"] += 1
                fr["tv"].append((r.value, r.type))
            return default(r)
        hs[TV.TypeValidationRequest] = htv
        self.handlers = hs
        # slot counters on every hooked class currently alive
        found, stack = set(), list(W.ROOT.values())
        while stack:
            c = stack.pop()
            if c in found:
                continue
            found.add(c)
            stack.extend(type.__subclasses__(c))
        for K in found:
            if K.__module__ == "c18_user" and K not in self.user_classes:
                continue        # cached classes of other family shapes: no instance of them exists in this case
            for m in METHS:
                slot = f"__labrea_{m}__"
                orig = vars(K).get(slot)
                if orig is None or not callable(orig):
                    continue

                def mkslot(orig=orig, m=m):
                    def counted(self, *a, **kw):
                        user = type(self).__module__.split(".")[0] != "labrea"
                        top = rec.reqstack[-1] if rec.reqstack else None
                        if top is not None and top["key"] == (id(self), m) and not top["used"]:
                            top["used"] = True      # run by the default handler of the innermost request
                        elif user and any(fr["obj"] is self and fr["m"] == m for fr in rec.stack):
                            # a user-defined override chaining to its parent's implementation
                            # (Base.__labrea_m__(self, options)): same operation, not a new one
                            return orig(self, *a, **kw)
                        rec.objs[id(self)] = self
                        rec.exe[(id(self), m)] = rec.exe.get((id(self), m), 0) + 1
                        fr = {"obj": self, "m": m, "tvr": 0, "tv": []}
                        rec.stack.append(fr)
                        ok = False
                        try:
                            ret = orig(self, *a, **kw)
                            ok = True
                            return ret
                        finally:
                            rec.stack.pop()
                            if m == "evaluate" and isinstance(self, Option) and not user:
                                matched = False
                                if ok:
                                    for (v, t) in fr["tv"]:
                                        try:
                                            if (v is ret or v == ret) and t is self.type:
                                                matched = True
                                        except Exception:     # noqa: BLE001
                                            matched = matched or v is ret
                                rec.opt_frames.append((self.key, ok, fr["tvr"], matched))
                    return counted
                setattr(K, slot, mkslot())
                self.patched.append((K, slot, orig))
        # cache backends
        cfound, stack = set(), [C.Cache]
        while stack:
            c = stack.pop()
            if c in cfound:
                continue
            cfound.add(c)
            stack.extend(c.__subclasses__())
        for K in cfound:
            for op in ("get", "set", "exists"):
                orig = vars(K).get(op)
                if orig is None or getattr(orig, "__isabstractmethod__", False):
                    continue

                def mkop(orig=orig, op=op):
                    def counted(self, *a, **kw):
                        rec.backend.append((type(self).__name__, op, rec.cache_depth.get(id(self), 0) > 0))
                        return orig(self, *a, **kw)
                    return counted
                setattr(K, op, mkop())
                self.patched.append((K, op, orig))
        # logging
        class H(logging.Handler):
            def emit(self, record):
                try:
                    msg = record.getMessage()
                except Exception:     # noqa: BLE001
                    msg = str(record.msg)
                rec.emitted.append((record.name, record.levelno, msg, rec.log_depth > 0))
        self.lh = H(level=1)
        root = logging.getLogger()
        self._root_level = root.level
        root.setLevel(1)
        root.addHandler(self.lh)

    def uninstall(self):
        import logging
        for K, name, orig in reversed(self.patched):
            setattr(K, name, orig)
        self.patched = []
        root = logging.getLogger()
        root.removeHandler(self.lh)
        root.setLevel(self._root_level)

    def describe(self, oid):
        o = self.objs.get(oid)
        try:
            r = repr(o)
        except Exception:     # noqa: BLE001
            r = "?"
        import re
        return f"{type(o).__name__} {re.sub(r' at 0x[0-9a-fA-F]+', '', r)[:80]}"

    def violations(self):
        out = []
        for k in sorted(set(self.req) | set(self.exe), key=lambda k: (self.describe(k[0]), k[1])):
            r, e = self.req.get(k, 0), self.exe.get(k, 0)
            if r != e:
                out.append(f"{k[1]} of [{self.describe(k[0])}]: {e} execution(s) of __labrea_{k[1]}__ but {r} "
                           f"{W.REQ[k[1]].__name__}(s) seen by the pass-through handler")
        outside = [b for b in self.backend if not b[2]]
        if outside:
            out.append(f"cache backend called outside any Cache*Request for that cache: "
                       f"{sorted(set((b[0], b[1]) for b in outside))} ({len(outside)} call(s))")
        for (name, level, msg, inside) in self.emitted:
            if not inside and (msg.startswith("Labrea:") or name.startswith("c18.") or msg.startswith("c18")):
                out.append(f"log record emitted outside any LogRequest: logger={name} level={level} msg={msg[:60]!r}")
                break
        for (key, ok, tvr, matched) in self.opt_frames:
            if ok and (tvr < 1 or not matched):
                out.append(f"Option({key!r}).evaluate returned a value without submitting it in a "
                           f"TypeValidationRequest (requests during the execution: {tvr})")
                break
        return out


OPS = ["evaluate", "validate", "keys", "explain", "evaluate"]


def g_build(item):
    gb = GB(item.get("shared") or [], item.get("ushape"))
    root = g_special(item["special"], gb) if item.get("special") else gb.b(item["spec"])
    return root, gb


def g_run_ops(root, options, probe):
    import copy
    res = []
    for op in OPS:
        try:
            o = copy.deepcopy(options)
            v = getattr(root, op)(o) if not (op == "evaluate" and res and False) else None
            res.append([op, g_canon(v, probe)])
        except BaseException as e:     # noqa: BLE001
            res.append([op, ["raised"] + g_exc(e)])
    return res


def g_case(item, options):
    """One (graph, options) case: plain run vs recorded pass-through run on fresh graphs."""
    import warnings
    probe = item.get("probe", 3)
    with warnings.catch_warnings():
        warnings.simplefilter("ignore")
        root, gb = g_build(item)
        del U.calls[:]
        plain = g_run_ops(root, options, probe)
        plain_side = [list(gb.calls), len(gb.effects_seen), [(m, t) for (m, i, t) in U.calls if i == id(gb.unode)]]
        root2, gb2 = g_build(item)
        rec = Rec(u_build(item["ushape"]) if item.get("ushape") is not None else ())
        rec.install()
        del U.calls[:]
        try:
            with W.RT.handle(rec.handlers):
                recd = g_run_ops(root2, options, probe)
        finally:
            rec.uninstall()
        ucalls = list(U.calls)
        rec_side = [list(gb2.calls), len(gb2.effects_seen), [(m, t) for (m, i, t) in ucalls if i == id(gb2.unode)]]
    problems = []
    if plain != recd:
        for a, b in zip(plain, recd):
            if a != b:
                problems.append(f"result of {a[0]} differs under pass-through handlers: plain={json.dumps(a[1])[:160]} recorded={json.dumps(b[1])[:160]}")
                break
    if plain_side != rec_side:
        problems.append(f"user functions / effects ran differently under pass-through handlers: plain={plain_side} recorded={rec_side}")
    problems += rec.violations()
    if (id(root2), "evaluate") not in rec.req and (item.get("ushape") is None or hasattr(root2, "evaluate")):
        problems.append("the root's evaluate was not seen as an EvaluateRequest")
    ustats = None
    if item.get("ushape") is not None and gb2.unode is not None:
        recipe, node = item["ushape"], gb2.unode
        problems += u_check(recipe, node, rec.req, ucalls)
        if root2 is node:
            # called directly: every operation returns what the designated implementation returns
            for op, val in recd:
                if op in (recipe.get("plainvals") or []):
                    want = g_canon(u_own(op, recipe["expect"][op], options), probe)
                    if val != want:
                        problems.append(f"{op} of the user-defined node {node!r} (class shape {recipe['id']}) returned "
                                        f"{json.dumps(val)[:120]}, its implementation {recipe['expect'][op]} returns {json.dumps(want)[:120]}")
        ustats = {}
        for (m, i, t) in ucalls:
            if i == id(node) and recipe["expect"].get(m) == t:
                ustats[m] = ustats.get(m, 0) + 1
    # a dataset class evaluates every evaluatable member (datasets, options, other dataset classes) through a request
    if isinstance(root2, type) and recd and recd[0][0] == "evaluate" and not (isinstance(recd[0][1], list) and recd[0][1][:1] == ["raised"]):
        from labrea.types import Evaluatable as _Ev
        for mname in dir(root2):
            if mname.startswith("__"):
                continue
            try:
                mv = getattr(root2, mname)
            except Exception:
                continue
            if isinstance(mv, _Ev) and (id(mv), "evaluate") not in rec.req:
                problems.append(f"evaluating a dataset class evaluated its member `{mname}` without an EvaluateRequest for it")
    kinds = {}
    for (k, _) in rec.log:
        kinds[k] = kinds.get(k, 0) + 1
    classes = sorted({type(rec.objs[i]).__name__ for (i, m) in rec.exe})
    stats = {"requests": len(rec.log), "kinds": kinds, "classes": classes,
             "backend_inside": sum(1 for b in rec.backend if b[2]), "emitted": len(rec.emitted),
             "opt_evals": len(rec.opt_frames),
             "outcomes": [("raised:" + r[1][1]) if isinstance(r[1], list) and r[1][:1] == ["raised"] else "ok" for r in plain]}
    if ustats is not None:
        stats["u_execs"] = ustats
    # extension point: compare with the core model's predicted request log when available
    pred = core_request_log(item.get("name"), options)
    if pred is not None:
        stats["core_model_compared"] = True
    return {"plain": plain, "recorded": recd, "problems": problems, "stats": stats}


def w_graphs(job):
    w_init(job.get("info"))
    out = []
    for item in job["items"]:
        for options in item["options"]:
            try:
                r = g_case(item, options)
            except BaseException as e:     # noqa: BLE001
                import traceback
                r = {"problems": [], "harness_error": f"{type(e).__name__}: {e} {traceback.format_exc()[-600:]}", "stats": {}}
            r["name"] = item.get("name")
            r["options"] = options
            if not job.get("verbose"):
                r.pop("plain", None); r.pop("recorded", None)
            out.append(r)
    return {"cases": out}


# ---------------------------------------------------------------------------------- part 3b: interception effects
def w_intercept(job):
    """A handler that changes the answer must be honoured: cache lookups, log emission, type checks."""
    import logging
    import warnings
    w_init(job.get("info"))
    import labrea.cache as C
    import labrea.logging as L
    import labrea.type_validation as TV
    from labrea import Option, dataset, cached
    from labrea.application import FunctionApplication
    RT = W.RT
    problems, checks = [], 0

    def fresh():
        calls = []

        @dataset
        def d(a=Option("A", 1)):
            calls.append(a)
            return ("real", a)
        return d, calls
    with warnings.catch_warnings():
        warnings.simplefilter("ignore")
        # cache get substituted
        d, calls = fresh()
        d({"A": 1})
        with RT.handle({C.CacheExistsRequest: lambda r: True, C.CacheGetRequest: lambda r: "INTERCEPTED"}):
            got = d({"A": 1})
        checks += 1
        if got != "INTERCEPTED":
            problems.append({"what": f"a CacheGetRequest handler returning a fixed value is not honoured by a dataset (got {got!r})",
                             "payload": {"part": 3, "intercept": "cache-get"}})
        # cache disabled by handlers: every evaluation recomputes, nothing is stored
        d, calls = fresh()
        from labrea.cache import CacheGetFailure

        def noget(r):
            raise CacheGetFailure(r.evaluatable, r.options, r.cache)
        with RT.handle({C.CacheExistsRequest: lambda r: False, C.CacheGetRequest: noget, C.CacheSetRequest: lambda r: r.value}):
            d({"A": 1}); d({"A": 1})
        n_inside = len(calls)
        d({"A": 1})
        checks += 1
        if n_inside != 2 or len(calls) != 3:
            problems.append({"what": f"with handlers that disable the cache a dataset ran {n_inside} time(s) for 2 evaluations and {len(calls) - n_inside} time(s) afterwards (expected 2 and 1): cache lookups/stores bypass the runtime",
                             "payload": {"part": 3, "intercept": "cache-disabled"}})
        # the same for the plain `cached` wrapper
        cnt = []
        c = cached(FunctionApplication(lambda: cnt.append(1) or len(cnt)))
        c({})
        with RT.handle({C.CacheExistsRequest: lambda r: True, C.CacheGetRequest: lambda r: "INTERCEPTED"}):
            got = c({})
        checks += 1
        if got != "INTERCEPTED":
            problems.append({"what": f"a CacheGetRequest handler is not honoured by cached(...) (got {got!r})",
                             "payload": {"part": 3, "intercept": "cached-get"}})
        # log swallowed / observed
        emitted = []

        class H(logging.Handler):
            def emit(self, record):
                emitted.append(record.getMessage())
        h = H(level=1)
        root = logging.getLogger()
        old = root.level
        root.setLevel(1)
        root.addHandler(h)
        try:
            d, calls = fresh()
            seen = []
            with RT.handle(L.LogRequest, lambda r: seen.append((r.level, r.msg))):
                d({"A": 2})
            checks += 1
            if [m for m in emitted if m.startswith("Labrea:")]:
                problems.append({"what": "a LogRequest handler that swallows the request does not stop the log record of a dataset evaluation",
                                 "payload": {"part": 3, "intercept": "log-swallow"}})
            if not any(str(m).startswith("Labrea: Evaluating") for (_, m) in seen):
                problems.append({"what": "evaluating a dataset issued no LogRequest visible to a handler",
                                 "payload": {"part": 3, "intercept": "log-seen"}})
            from labrea.logging import Logged
            del emitted[:]
            lg = Logged(Option("A", 0), 30, "c18.logged", "c18 logged node")
            with RT.handle(L.LogRequest, lambda r: None):
                lg({})
            checks += 1
            if any(m.startswith("c18") for m in emitted):
                problems.append({"what": "a LogRequest handler that swallows the request does not stop the record of a Logged node",
                                 "payload": {"part": 3, "intercept": "logged-swallow"}})
        finally:
            root.removeHandler(h)
            root.setLevel(old)
        # type validation enforced by a handler
        def strict(r):
            if r.type is not None and isinstance(r.type, type) and not isinstance(r.value, r.type):
                raise TypeError(f"{r.value!r} is not {r.type}")
        for label, opt, options in [("given", Option("A", type=int), {"A": "str"}),
                                    ("default", Option("A", default=5, type=str), {}),
                                    ("default-evaluatable", Option("A", default=Option("B"), type=str), {"B": 7}),
                                    ("default-factory", Option("A", default_factory=lambda: 5, type=str), {})]:
            checks += 1
            try:
                with RT.handle(TV.TypeValidationRequest, strict):
                    v = opt(options)
                problems.append({"what": f"a TypeValidationRequest handler that rejects the value is not consulted when the value of an Option comes from: {label} (evaluation returned {v!r})",
                                 "payload": {"part": 3, "intercept": "type-" + label}})
            except BaseException as e:     # noqa: BLE001
                if "TypeError" not in g_exc(e):
                    problems.append({"what": f"type check ({label}) failed with {g_exc(e)} instead of the handler's TypeError",
                                     "payload": {"part": 3, "intercept": "type-" + label}})
    return {"problems": problems, "checks": checks}


# ---------------------------------------------------------------------------------- part 4: substitution
SUB_VALUE = "SUB"


def s_shapes():
    """name -> function(dep) building a graph that uses `dep` as a dependency (fresh objects)."""
    import labrea
    from labrea import Option, Value, Template, Iter, Map, Coalesce, Switch, case, cached, dataset, WithOptions, \
        datasetclass, Overloaded, pipeline_step
    from labrea.application import FunctionApplication
    sh_ = {}
    sh_["direct_arg"] = lambda d: dataset(lambda x=None: ("outer", x), defaults={"x": d})

    def two_levels(d):
        mid = dataset(lambda x=None: ("mid", x), defaults={"x": d})
        return dataset(lambda m=None, x=None: ("top", m, x), defaults={"m": mid, "x": d})
    sh_["two_levels_shared"] = two_levels
    sh_["apply"] = lambda d: d >> (lambda v: (v, "applied"))
    sh_["bind_source"] = lambda d: d.bind(lambda v: Value((v, "bound")))
    sh_["bind_result"] = lambda d: Option("A", 0).bind(lambda a: d)
    sh_["switch_branch"] = lambda d: Switch("MODE", {"m1": d, "m2": Value("other")}, Value("dflt"))
    sh_["switch_default"] = lambda d: Switch("NOPE", {"m1": Value(1)}, d)
    sh_["switch_dispatch"] = lambda d: Switch(d, {SUB_VALUE: Value("hit-sub"), "real": Value("hit-real")}, Value("hit-none"))
    sh_["case_result"] = lambda d: case(Option("A", 1)).when(lambda a: a > 0, d).otherwise("neg")
    sh_["case_dispatch"] = lambda d: case(d).when(lambda v: v == SUB_VALUE, "is-sub").otherwise("is-real")
    sh_["coalesce_first"] = lambda d: Coalesce(d, Value("second"))
    sh_["coalesce_second"] = lambda d: Coalesce(Option("MISSING"), d)
    sh_["iter"] = lambda d: Iter(Value(0), d, d)
    sh_["collections"] = lambda d: labrea.evaluatable_dict({"l": labrea.evaluatable_list(d, Value(1)), "t": labrea.evaluatable_tuple(d)})
    sh_["map"] = lambda d: Map(d, {"A": Value([10, 20])})
    sh_["map_values_nested"] = lambda d: Map(dataset(lambda x=None, a=None: (x, a), defaults={"x": d, "a": Option("A")}), {"A": Option("C")}).values
    sh_["template_param"] = lambda d: Template("{B}:{:p:}", p=d)
    sh_["with_options"] = lambda d: WithOptions(d, {"A": 99})
    sh_["cached_outer"] = lambda d: cached(FunctionApplication(lambda x: ("c", x), d))
    sh_["function_application_kw"] = lambda d: FunctionApplication(lambda **kw: sorted(kw.items()), p=d, q=Option("B"))
    sh_["overload_impl"] = _ovl
    sh_["option_default"] = lambda d: Option("MISSING", default=d)
    sh_["pipeline"] = lambda d: d >> (pipeline_step(lambda v, s=Option("B"): (v, s)) + (lambda t: t + ("end",)))
    sh_["callback_and_effect"] = lambda d: dataset(lambda x=None: x, defaults={"x": d}, callback=lambda v: (v, "cb"), effects=[lambda v: None])

    def dsclass(d):
        @datasetclass
        class DC:
            member: str = d
            other: int = Option("A")
        # compare the members (the repr legitimately shows d's option keys)
        return DC >> (lambda inst: (inst.member, inst.other))
    sh_["datasetclass_member"] = dsclass
    return sh_


def _ovl(d):
    from labrea import dataset
    base = dataset(lambda: "default-impl", dispatch="MODE")
    base.register("m1", d)
    return dataset(lambda b=None: ("uses", b), defaults={"b": base})


S_SHAPE_NAMES = ["apply", "bind_result", "bind_source", "cached_outer", "callback_and_effect", "case_dispatch", "case_result",
                 "coalesce_first", "coalesce_second", "collections", "datasetclass_member", "direct_arg", "function_application_kw",
                 "iter", "map", "map_values_nested", "option_default", "overload_impl", "pipeline", "switch_branch", "switch_default",
                 "switch_dispatch", "template_param", "two_levels_shared", "with_options"]      # keys of s_shapes() (checked in part 4)
S_OPTIONS = [{"A": 1, "B": "bee", "C": [1, 2], "MODE": "m1"}, {"A": -1, "B": "x", "C": [], "MODE": "m2"},
             {"A": 3, "B": "b", "C": [7], "LABREA": {"CACHE": {"DISABLED": True}}}]


def s_case(shape, options, wrap=None, dep=None):
    """`dep`: class shape (recipe) of a user-defined node that takes the place of the dataset `d`."""
    import copy
    import warnings
    from labrea import Option, Value, dataset
    from labrea.types import EvaluateRequest
    RT = W.RT
    shapes = s_shapes()
    if dep is not None:
        shapes["alone"] = lambda d: d
    build = shapes[shape]
    if wrap:
        inner = build
        build = lambda dep: shapes[wrap](inner(dep))      # noqa: E731
    calls = []

    def mk_d():
        if dep is not None:
            return u_node(dep)

        @dataset
        def d(a=Option("A"), b=Option("B")):
            calls.append("d")
            return "real"
        return d

    def run(root, handler):
        try:
            if handler is None:
                return g_canon(root.evaluate(copy.deepcopy(options)))
            with RT.handle(EvaluateRequest, handler):
                return g_canon(root.evaluate(copy.deepcopy(options)))
        except BaseException as e:     # noqa: BLE001
            return ["raised"] + g_exc(e)
    with warnings.catch_warnings():
        warnings.simplefilter("ignore")
        d = mk_d()
        default = RT._DEFAULT_HANDLERS[EvaluateRequest]
        hits = []

        def subst(r):
            if r.evaluatable is d:
                hits.append(1)
                return SUB_VALUE
            return default(r)
        del U.calls[:]
        got = run(build(d), subst)
        ran_d = len(calls) if dep is None else sum(1 for (m, i, t) in U.calls if m == "evaluate" and i == id(d))
        want = run(build(Value(SUB_VALUE)), None)
        plain = run(build(mk_d()), None)
    problems = []
    who = "dataset d" if dep is None else f"the user-defined node {d!r} (class shape {dep['id']})"
    if got != want:
        problems.append(f"substituting {SUB_VALUE!r} for {who} by an EvaluateRequest handler gives {json.dumps(got)[:150]} "
                        f"but the same graph over Value({SUB_VALUE!r}) gives {json.dumps(want)[:150]}")
    if ran_d:
        problems.append(f"the body of the substituted {'dataset' if dep is None else 'node'} ran {ran_d} time(s)")
    return {"shape": shape, "wrap": wrap, "options": options, "got": got, "want": want, "plain": plain,
            "hits": len(hits), "problems": problems, "distinguishes": plain != want,
            "dep": dep["id"] if dep is not None else None}


def w_subst(job):
    w_init(job.get("info"))
    out = []
    for c in job["cases"]:
        try:
            out.append(s_case(c["shape"], c["options"], c.get("wrap"), c.get("dep")))
        except BaseException as e:     # noqa: BLE001
            import traceback
            out.append({"shape": c["shape"], "wrap": c.get("wrap"), "options": c["options"], "problems": [],
                        "dep": (c.get("dep") or {}).get("id"),
                        "harness_error": f"{type(e).__name__}: {e} {traceback.format_exc()[-500:]}"})
    uout, uobs = [], []
    for c in job.get("ucases") or []:
        try:
            uout.append(u_subst_ops(c["recipe"], c["options"]))
        except BaseException as e:     # noqa: BLE001
            import traceback
            uout.append({"id": c["recipe"]["id"], "options": c["options"], "problems": [], "checks": 0,
                         "harness_error": f"{type(e).__name__}: {e} {traceback.format_exc()[-500:]}"})
    for c in job.get("uobserve") or []:
        try:
            uobs.append(u_observe(c["recipe"], c["options"]))
        except BaseException as e:     # noqa: BLE001
            uobs.append({"id": c["recipe"]["id"], "observed": {"harness": f"{type(e).__name__}: {e}"}})
    return {"cases": out, "shapes": sorted(s_shapes()), "ucases": uout, "uobserve": uobs}


# ---------------------------------------------------------------------------------- part 6: public entry points
EP_X = 7                                  # the value handed to transformations
EP_EXTRA_MEMBERS = ("__call__", "__rshift__", "__add__", "__iter__")
EP_OPTIONS = [
    {"A": 3, "B": "bee", "C": [1, 2], "K": "k1", "MODE": "alt", "FACTOR": 2, "S": {"X": "ex"}, "PKG": {"A": 5, "SUB": {"X": 9}}},
    {"A": -2, "B": "x", "C": [5], "K": "k2", "MODE": "none", "FACTOR": 5, "S": {"X": "{B}"}},
    {"A": 1, "B": "b", "C": [], "K": "zz", "FACTOR": 1, "S": {"X": "s"}, "MODE": "alt", "LABREA": {"CACHE": {"DISABLED": True}}},
    {"B": "only-b", "C": [4]},            # FACTOR missing: steps that require it fail, in the same way in both forms
]


def ep_is_node(v):
    T = W.T
    return isinstance(v, (T.Evaluatable, T.Validatable, T.Explainable, T.Cacheable))


def ep_label(obj, names):
    """Name of a request target: the subject's name for the objects the case declared, else its class
    (temporary nodes the library builds while evaluating have no identity worth comparing)."""
    n = names.get(id(obj))
    if n is not None:
        return "@" + n
    if isinstance(obj, type):
        return "class:" + obj.__name__
    if type(obj).__name__ == "Option":
        return "Option:" + str(getattr(obj, "key", "?"))
    return type(obj).__name__


def ep_optkey(options, top):
    import hashlib
    import re
    if options is None:
        return "None"
    try:
        s = re.sub(r" at 0x[0-9a-fA-F]+", "", json.dumps(options, sort_keys=True, default=str))
    except Exception:     # noqa: BLE001
        s = "?"
    return "o" if s == top else ("{}" if s == "{}" else "#" + hashlib.md5(s.encode()).hexdigest()[:6])


def ep_exc(e, names):
    out, n = [], 0
    while e is not None and n < 6:
        nm = type(e).__name__
        if nm == "KeyNotFoundError":
            nm += ":" + str(getattr(e, "key", "?"))
        if isinstance(e, W.labrea.exceptions.EvaluationError):
            nm += "@" + ep_label(getattr(e, "source", None), names)
        out.append(nm)
        e = e.__cause__
        n += 1
    return out


class EpRec:
    """Pass-through recording handlers for every request type; optionally one EvaluateRequest target is
    answered with a substitute instead."""

    def __init__(self, names, top, target=None, sub=None):
        self.names, self.top, self.target, self.sub = names, top, target, sub
        self.log, self.hits = [], 0
        self.okeys = {}        # id(options object) -> (the object, its digest)

    def okey(self, options):
        c = self.okeys.get(id(options))
        if c is None or c[0] is not options:
            c = self.okeys[id(options)] = (options, ep_optkey(options, self.top))
        return c[1]

    def handlers(self):
        import re
        import labrea.cache as C
        import labrea.logging as L
        import labrea.type_validation as TV
        D = W.RT._DEFAULT_HANDLERS
        rec, hs = self, {}
        for m in METHS:
            def mk(m=m, default=D[W.REQ[m]], field=W.TARGET[m]):
                def h(r):
                    t = getattr(r, field)
                    rec.log.append([m, ep_label(t, rec.names), rec.okey(r.options)])
                    if m == "evaluate" and rec.target is not None and t is rec.target:
                        rec.hits += 1
                        return rec.sub
                    return default(r)
                return h
            hs[W.REQ[m]] = mk()
        for R in (C.CacheGetRequest, C.CacheSetRequest, C.CacheExistsRequest):
            def mkc(R=R, default=D[R]):
                def h(r):
                    rec.log.append([R.__name__, ep_label(r.evaluatable, rec.names), rec.okey(r.options)])
                    return default(r)
                return h
            hs[R] = mkc()

        def hlog(r, default=D[L.LogRequest]):
            rec.log.append(["LogRequest", re.sub(r" at 0x[0-9a-fA-F]+", "", str(r.msg))[:60], rec.okey(r.options)])
            return default(r)
        hs[L.LogRequest] = hlog

        def htv(r, default=D[TV.TypeValidationRequest]):
            rec.log.append(["TypeValidationRequest", getattr(r.type, "__name__", str(r.type)), rec.okey(r.options)])
            return default(r)
        hs[TV.TypeValidationRequest] = htv
        return hs


def ep_exec(fn, build, o, target_key=None, anon=False):
    """Run one form on a fresh subject under the recording handlers. -> (outcome, request log, hits)"""
    import copy
    import warnings
    with warnings.catch_warnings():
        warnings.simplefilter("ignore")
        S = build()
        target = S[target_key] if target_key else None      # (creates an auxiliary node that is a target)
        names = {}
        for k, v in S.items():
            if ep_is_node(v) and not (anon and k == "node"):
                names.setdefault(id(v), k)
        sub = S["subs"][target_key] if target_key else None
        rec = EpRec(names, _ep_top(o), target, sub)
        with W.RT.handle(rec.handlers()):
            try:
                res = ["ok", g_canon(fn(S, copy.deepcopy(o)), EP_X)]
            except BaseException as e:     # noqa: BLE001
                res = ["raised"] + ep_exc(e, names)
    return res, rec.log, rec.hits


def _ep_top(o):
    import re
    return re.sub(r" at 0x[0-9a-fA-F]+", "", json.dumps(o, sort_keys=True, default=str)) if o is not None else "null"


def ep_nested(key, value):
    out = cur = {}
    parts = key.split(".")
    for p in parts[:-1]:
        cur[p] = {}
        cur = cur[p]
    cur[parts[-1]] = value
    return out


def ep_second(items):
    return (item[1] for item in items)


def ep_tag(v):
    return ("applied", v)


def ep_step(name, key, default=None, required=False):
    from labrea import Option, pipeline_step
    opt = Option(key) if required else Option(key, default)

    def f(x, p=opt):
        return (name, x, p)
    f.__name__ = f.__qualname__ = name
    return pipeline_step(f)


def ep_subst_fn(x):
    return ("substituted", x)


def ep_subjects():
    """name -> builder of a fresh subject S: {"node": the node the entry points are called on, "subs":
    {name of a node of S: the value a substituting EvaluateRequest handler answers for it}, "x": the value
    handed to transformations, further named nodes}. One subject (at least) per node class."""
    import labrea.functions as F
    from labrea import (Option, Value, Template, Iter, Map, Coalesce, Switch, case, cached, dataset, abstractdataset,
                        WithOptions, Overloaded, AllOptions, datasetclass)
    from labrea.application import FunctionApplication, PartialApplication
    from labrea.arguments import EvaluatableArgs, EvaluatableKwargs, EvaluatableArguments
    from labrea.computation import CallbackEffect, ChainedEffect, Computation
    from labrea.conditional import _DependsOn as DependsOnCls
    from labrea.logging import Logged, LogEffect
    from labrea.pipeline import Pipeline
    from labrea.types import Apply, Bind
    tup, inc = FUNCS["tup"], FUNCS["inc"]
    out = {}

    def S(node, subs=None, **kw):
        d = {"node": node, "x": EP_X}
        d.update(kw)
        d["subs"] = dict({"node": "SUB"}, **(subs or {}))
        return d

    def reg(f):
        out[f.__name__.lstrip("_")] = f
        return f

    @reg
    def _Value():
        return S(Value({"a": [1, 2]}))

    @reg
    def _Option():
        dep = Option("A", 1)
        return S(Option("Z", default=dep), {"dep": 40}, dep=dep)

    @reg
    def _Option_typed():
        return S(Option("A", default=1, type=int), {"node": 41})

    @reg
    def _Template():
        dep = Option("B", "bb")
        return S(Template("{A}/{:p:}", p=dep), {"dep": "SUBP"}, dep=dep)

    @reg
    def _WithOptions():
        dep = Option("A", 0) >> inc
        return S(WithOptions(dep, {"A": 10}), {"dep": 50}, dep=dep)

    @reg
    def _AllOptions():
        return S(AllOptions, {"node": {"SUB": 1}})

    @reg
    def _Namespace():
        @Option.namespace
        class PKG:
            A: int
            B = "dflt"
            T = Option.auto(default="{B}", doc="templated") >> str

            class SUB:
                X = 3
        return S(PKG, {"node": {"SUB": 1}})

    @reg
    def _Apply():
        dep = Option("A", 1)
        return S(Apply(dep, Value(inc)), {"dep": 60}, dep=dep)

    @reg
    def _Bind():
        dep = Option("A", 1)
        alt = Option("B", "bd")
        return S(Bind(dep, lambda a: alt if isinstance(a, int) and a > 0 else Value("neg")), {"dep": 2, "alt": "SUBALT"},
                 dep=dep, alt=alt)

    @reg
    def _FunctionApplication():
        dep = Option("A", 1)
        return S(FunctionApplication(tup, dep, k=Option("B", "b")), {"dep": 70}, dep=dep)

    @reg
    def _PartialApplication():
        dep = Option("A", 1)
        return S(PartialApplication(tup, dep), {"node": ep_subst_fn, "dep": 71}, dep=dep)

    @reg
    def _EvaluatableArgs():
        dep = Option("A", 1)
        return S(EvaluatableArgs(dep, Value(2)), {"node": (8, 9), "dep": 72}, dep=dep)

    @reg
    def _EvaluatableKwargs():
        dep = Option("A", 1)
        return S(EvaluatableKwargs(a=dep, b=Value(2)), {"node": {"a": 8}, "dep": 73}, dep=dep)

    @reg
    def _EvaluatableArguments():
        dep = Option("A", 1)
        return S(EvaluatableArguments(dep, k=Option("B", "b")), {"dep": 74}, dep=dep)

    @reg
    def _Cached():
        dep = FunctionApplication(tup, Option("A", 1))
        return S(cached(dep), {"dep": "SUBDEP"}, dep=dep)

    @reg
    def _Coalesce():
        dep = Option("A", 1)
        return S(Coalesce(Option("MISSING"), dep, Value("last")), {"dep": 75}, dep=dep)

    @reg
    def _Computation():
        dep = Option("A", 1)
        eff = ep_step("eff", "B", "be")
        return S(Computation(dep, CallbackEffect(eff)), {"dep": 76, "eff": ep_subst_fn}, dep=dep, eff=eff)

    @reg
    def _CaseWhen():
        dep = Option("A", 1)
        res = Option("B", "b")
        return S(case(dep).when(FUNCS["pos"], res).otherwise("neg"), {"dep": -5, "res": "SUBRES"}, dep=dep, res=res)

    @reg
    def _Switch():
        dep = Option("A", 1)
        disp = Option("K", "k1")
        return S(Switch(disp, {"k1": dep, "k2": Value("two")}, Value("dflt")), {"dep": 77, "disp": "k2"}, dep=dep, disp=disp)

    @reg
    def _DependsOn():
        dep = Option("A", 1)
        return S(DependsOnCls(dep, Option("K", "k")), {"dep": 78}, dep=dep)

    @reg
    def _Iter():
        dep = Option("A", 1)
        return S(Iter(dep, Value(2)), {"node": [5, 6], "dep": 79}, dep=dep)

    @reg
    def _Map():
        dep = Option("A") >> inc
        return S(Map(dep, {"A": Option("C", [1, 2])}), {"node": [({"A": 1}, "s1")], "dep": 80}, dep=dep)

    @reg
    def _Logged():
        dep = Option("A", 1)
        return S(Logged(dep, 20, "c18.ep", "c18 ep logged node"), {"dep": 81}, dep=dep)

    @reg
    def _Overloaded():
        dep = Option("A", 1)
        disp = Option("MODE", "none")
        return S(Overloaded(disp, {"alt": dep}, Option("B", "dflt")), {"dep": 82, "disp": "alt"}, dep=dep, disp=disp)

    @reg
    def _PipelineStep():
        return S(ep_step("scale", "FACTOR", 2), {"node": ep_subst_fn})

    @reg
    def _PipelineStep_required():
        return S(ep_step("scale", "FACTOR", required=True), {"node": ep_subst_fn})

    @reg
    def _PipelineStep_functions():
        dep = Option("B", 10)
        return S(F.add(dep), {"node": ep_subst_fn, "dep": 100}, dep=dep, x=1)

    @reg
    def _PipelineStep_plain():
        from labrea.pipeline import PipelineStep
        dep = Value(ep_tag)
        return S(PipelineStep(dep, "tag"), {"node": ep_subst_fn, "dep": ep_subst_fn}, dep=dep)

    @reg
    def _Pipeline():
        s1, s2 = ep_step("scale", "FACTOR", 2), ep_step("shift", "B", "sb")
        return S(s1 + s2 + ep_tag, {"node": ep_subst_fn, "s1": ep_subst_fn, "s2": ep_subst_fn}, s1=s1, s2=s2, dep=s1)

    @reg
    def _Pipeline_single():
        s1 = ep_step("scale", "FACTOR", required=True)
        return S(Pipeline(s1), {"node": ep_subst_fn, "s1": ep_subst_fn}, s1=s1, dep=s1)

    @reg
    def _Pipeline_empty():
        return S(Pipeline(), {"node": ep_subst_fn})

    @reg
    def _Dataset():
        calls = []

        @dataset
        def dep(a=Option("A", 1)):
            calls.append("dep")
            return ("dep", a)
        eff = ep_step("eff", "B", "be")
        cb = ep_step("cb", "K", "kc")

        @dataset(dispatch="MODE", effects=[eff], callback=cb, default_options={"Z": "dz"})
        def ds(d=dep, z=Option("Z"), s=Option("S.X", "sx")):
            calls.append("ds")
            return ("ds", d, z, s)
        alt = Option("B", "ob")
        ds.register("alt", alt)
        return S(ds, {"dep": "SUBDEP", "alt": "SUBALT", "eff": ep_subst_fn, "cb": ep_subst_fn}, dep=dep, alt=alt, eff=eff, cb=cb,
                 calls=calls)

    @reg
    def _Dataset_plain():
        dep = Option("A", 1)

        def body(a=None, b=None):
            return ("plain", a, b)
        return S(dataset(body, defaults={"a": dep, "b": Option("B", "b")}), {"dep": 83}, dep=dep)

    @reg
    def _Dataset_abstract():
        dep = Option("A", 1)

        @abstractdataset(dispatch=Option("MODE", "none"))
        def ads() -> str:
            pass
        ads.register("alt", dep)
        return S(ads, {"dep": 84}, dep=dep)

    @reg
    def _Dataset_interface():
        from labrea import implements, interface
        dep = Option("A", 1)

        @interface("MODE")
        class Store:
            path: str
            limit: int = Option("FACTOR", 10)

        @Store.implementation("alt")
        class Alt:
            path = dep

        @implements(Store, alias=["none", "other"])
        class Mem:
            path = "memory:"
            limit = 1
        return S(Store.path, {"dep": "SUBDEP"}, dep=dep, limit=Store.limit)

    @reg
    def _DatasetClass():
        @dataset
        def dep(a=Option("A", 1)):
            return ("inner", a)

        @datasetclass
        class DC:
            a: object = dep
            b: str = Option("B", "bd")
            c: bool = True
        return S(DC, {"dep": "SUBDEP"}, dep=dep)

    @reg
    def _CallbackEffect():
        dep = ep_step("eff", "B", "be")
        return S(CallbackEffect(dep), {"dep": ep_subst_fn}, dep=dep)

    @reg
    def _ChainedEffect():
        dep = ep_step("eff", "B", "be")
        return S(ChainedEffect(CallbackEffect(dep), LogEffect(20, "c18.ep", "c18 ep effect"), CallbackEffect(lambda v: None)),
                 {"dep": ep_subst_fn}, dep=dep)

    @reg
    def _LogEffect():
        return S(LogEffect(20, "c18.ep", "c18 ep effect"))

    # user-defined node classes (shapes of the family of part 5)
    fam = {r["id"]: r for r in user_family()}
    for rid in ("E.body", "E.mixin_before.evaluate", "E.parent.evaluate", "E.override.evaluate", "E.override_chain_slot.evaluate",
                "Option.override.evaluate", "Switch.override.keys"):
        out["user:" + rid] = (lambda r: lambda: S(u_node(r)))(fam[rid])
    return out


def ep_functions_table():
    """labrea.functions: public name -> (arguments of the helper, input value). The arguments use options
    where the helper accepts an Evaluatable, so that applying the step evaluates something."""
    from labrea import Option, Value
    B = lambda d: Option("B", d)      # noqa: E731
    inc, pos = FUNCS["inc"], FUNCS["pos"]
    add1 = lambda a, b: a + b      # noqa: E731
    return {
        "partial": ((add1, B(10)), 1), "map": ((Option("FN", default=Value(inc)),), [1, 2]), "filter": ((Value(pos),), [-1, 2]),
        "reduce": ((add1, B(10)), [1, 2]), "into": ((Value(FUNCS["tup"]),), [1, 2]), "flatten": None, "flatmap": ((lambda v: [v, v],), [1, 2]),
        "map_items": ((lambda k, v: (v, k),), {"a": 1}), "map_keys": ((str.upper,), {"a": 1}), "map_values": ((Value(inc),), {"a": 1}),
        "filter_items": ((lambda k, v: v > 0,), {"a": 1, "b": -1}), "filter_keys": ((lambda k: k == "a",), {"a": 1, "b": 2}),
        "filter_values": ((Value(pos),), {"a": 1, "b": -1}),
        "concat": ((Option("C", [9]),), [1]), "append": ((B(10),), [1]), "intersect": ((Option("C", [1]),), [1, 2]),
        "union": ((Option("C", [1]),), [2]), "difference": ((Option("C", [1]),), [1, 2]), "symmetric_difference": ((Option("C", [1]),), [1, 2]),
        "get": ((B("a"),), {"a": 1, "bee": 2, "x": 3, "b": 4, "only-b": 5}), "get_from": ((Option("D", {"k": 1}),), "k"),
        "add": ((B(10),), "s" if False else 1), "subtract": ((Option("A", 1),), 5), "multiply": ((Option("A", 1),), 5),
        "left_multiply": ((Option("A", 1),), 5), "divide_by": ((Option("FACTOR", 2),), 8), "divide_into": ((Option("A", 1),), 4),
        "negate": None, "modulo": ((Option("FACTOR", 2),), 7), "merge": ((Option("D", {"k": 1}),), {"j": 2}), "length": None,
        "instance_of": ((Option("T", default=Value(int)),), 3), "all": ((Value(pos), Option("FN", default=Value(pos))), 3),
        "any": ((Value(pos), Option("FN", default=Value(pos))), -3), "invert": ((Option("FN", default=Value(pos)),), 3),
        "eq": ((Option("A", 1),), 1), "ne": ((Option("A", 1),), 1), "gt": ((Option("A", 1),), 2), "ge": ((Option("A", 1),), 2),
        "lt": ((Option("A", 1),), 2), "le": ((Option("A", 1),), 2), "has_remainder": ((Option("FACTOR", 2), 1), 7),
        "positive": None, "negative": None, "non_positive": None, "non_negative": None, "even": None, "odd": None,
        "is_none": None, "is_not_none": None, "is_in": ((Option("C", [1]),), 1), "is_not_in": ((Option("C", [1]),), 1),
        "one_of": ((Option("A", 1), 2), 1), "none_of": ((Option("A", 1), 2), 1), "contains": ((Option("A", 1),), [1, 2]),
        "does_not_contain": ((Option("A", 1),), [1, 2]), "intersects": ((Option("C", [1]),), [1, 2]),
        "disjoint_from": ((Option("C", [1]),), [1, 2]), "ensure": ((Value(pos), "must be positive"), 3),
        "get_attribute": ((Option("ATTR", "real"),), 3), "call_method": ((Option("METH", "bit_length"),), 5),
    }


def ep_function_subjects():
    """One subject per public helper of labrea.functions (enumerated by reflection over the module)."""
    import labrea.functions as F
    T = W.T
    table = ep_functions_table()
    out, untabled = {}, []
    for name in sorted(vars(F)):
        obj = getattr(F, name)
        if name.startswith("_") or getattr(obj, "__module__", F.__name__) != F.__name__ and not isinstance(obj, T.Evaluatable):
            continue
        if isinstance(obj, type) or not (callable(obj) or isinstance(obj, T.Evaluatable)):
            continue
        if isinstance(obj, T.Evaluatable):
            if type(obj).__module__.split(".")[0] != "labrea" or name in ("Evaluatable",):
                continue

            def b(obj=obj, name=name):
                x = {"flatten": [[1], [2]], "negate": 3, "length": [1, 2], "is_none": None, "is_not_none": None}.get(name, 3)
                return {"node": obj, "x": x, "subs": {"node": ep_subst_fn}}
            out[name] = b
            continue
        if name not in table:
            untabled.append(name)
            continue
        spec = table[name]
        if spec is None:
            untabled.append(name)
            continue

        def b(obj=obj, name=name):
            args, x = ep_functions_table()[name]
            node = obj(*args)
            deps = [a for a in args if isinstance(a, W.T.Evaluatable) and type(a).__name__ == "Option"]
            d = {"node": node, "x": x, "subs": {"node": ep_subst_fn}}
            if deps:
                d["dep"] = deps[0]
            return d
        out[name] = b
    return out, untabled


def ep_rows():
    """The table: entry point -> equivalent direct form (only evaluate / validate / keys / explain called on
    nodes, node constructors, and plain Python). `applies(S)` selects the subjects; `via(S, o)` is the entry
    point, `direct(S, o)` the direct form; `o` is None in the rows that call the entry point without options."""
    import labrea
    from confectioner import mix
    from confectioner.templating import get_dotted_key
    from labrea import Option, Value, Iter, Coalesce, Switch, case, cached, dataset, WithOptions, WithDefaultOptions, Overloaded, \
        pipeline_step, coalesce, switch
    from labrea.application import FunctionApplication, PartialApplication
    from labrea.arguments import EvaluatableArguments, arguments
    from labrea.cache import Cached, MemoryCache
    from labrea.computation import CallbackEffect, ChainedEffect, Effect
    from labrea.conditional import CaseWhen
    from labrea.dataset import Dataset
    from labrea.datasetclass import _DatasetClassMeta
    from labrea.iterable import Map
    from labrea.logging import LogEffect, LogRequest
    from labrea.option import Namespace
    from labrea.pipeline import Pipeline, PipelineStep
    T = W.T
    Ev = T.Evaluatable
    Apply, Bind = T.Apply, T.Bind
    rows = []

    def isa(*K):
        return lambda S: isinstance(S["node"], K)

    def row(rid, member, applies, via, direct, expect, kind="evaluates", targets=None, inner=None, anon=False, core=None):
        # `inner`: node.evaluate(o), whose requests must be part of the entry point's; `core`: the entry point spelled
        # with node.evaluate(o) and plain Python only (same outcome, a substitution for node honoured alike)
        rows.append({"id": rid, "member": member, "applies": applies, "via": via, "direct": direct, "expect": expect,
                     "kind": kind, "targets": targets, "inner": inner, "anon": anon, "core": core})
    ev = lambda S, o: S["node"].evaluate(o)      # noqa: E731
    own = lambda S: not S.get("_functions") and not S.get("_helper")      # noqa: E731
    E = lambda S: isinstance(S["node"], Ev) and own(S)      # noqa: E731
    EC = lambda S: E(S) and not isinstance(S["node"], type)      # noqa: E731  (a dataset class: DatasetClass.instantiate)
    # ---- members every Evaluatable inherits
    row("Evaluatable.__call__", "__call__", EC, lambda S, o: S["node"](o), ev,
        "node(o) == node.evaluate(o): one EvaluateRequest for node, then whatever node.evaluate issues")
    row("Evaluatable.__call__:noopts", "__call__", EC, lambda S, o: S["node"](), lambda S, o: S["node"].evaluate({}),
        "node() == node.evaluate({})")
    row("Evaluatable.__call__:None", "__call__", EC, lambda S, o: S["node"](None), lambda S, o: S["node"].evaluate({}),
        "node(None) == node.evaluate({})")
    row("Evaluatable.__rshift__", "__rshift__", E, lambda S, o: (S["node"] >> ep_tag).evaluate(o),
        lambda S, o: Apply(S["node"], Value(ep_tag)).evaluate(o),
        "(node >> f).evaluate(o) == Apply(node, Value(f)).evaluate(o) == f(node.evaluate(o)); node.evaluate(o)'s requests are "
        "part of it, in order", kind="constructs", inner=ev, core=lambda S, o: ep_tag(S["node"].evaluate(o)))
    row("Evaluatable.__rshift__:step", "__rshift__", E, lambda S, o: (S["node"] >> S["_step"]).evaluate(o),
        lambda S, o: Apply(S["node"], S["_step"]).evaluate(o),
        "(node >> step).evaluate(o) == Apply(node, step).evaluate(o) == step.evaluate(o)(node.evaluate(o))",
        kind="constructs", inner=ev, core=lambda S, o: S["_step"].evaluate(o)(S["node"].evaluate(o)))
    row("Evaluatable.apply", "apply", E, lambda S, o: S["node"].apply(ep_tag).evaluate(o),
        lambda S, o: Apply(S["node"], Value(ep_tag)).evaluate(o),
        "node.apply(f).evaluate(o) == Apply(node, Value(f)).evaluate(o) == f(node.evaluate(o))", kind="constructs", inner=ev, core=lambda S, o: ep_tag(S["node"].evaluate(o)))
    row("Evaluatable.apply:step", "apply", E, lambda S, o: S["node"].apply(S["_step"]).evaluate(o),
        lambda S, o: Apply(S["node"], S["_step"]).evaluate(o),
        "node.apply(step).evaluate(o) == Apply(node, step).evaluate(o) == step.evaluate(o)(node.evaluate(o))", kind="constructs", inner=ev,
        core=lambda S, o: S["_step"].evaluate(o)(S["node"].evaluate(o)))
    row("Evaluatable.bind", "bind", E, lambda S, o: S["node"].bind(S["_bound"]).evaluate(o),
        lambda S, o: Bind(S["node"], S["_bound"]).evaluate(o),
        "node.bind(g).evaluate(o) == Bind(node, g).evaluate(o) == g(node.evaluate(o)).evaluate(o)", kind="constructs", inner=ev,
        core=lambda S, o: S["_bound"](S["node"].evaluate(o)).evaluate(o))
    row("Evaluatable.result", "result", E, lambda S, o: S["node"].result.evaluate(o), ev, "node.result is node",
        kind="accessor")
    row("Evaluatable.fingerprint", "fingerprint", E, lambda S, o: S["node"].fingerprint(o).decode(),
        lambda S, o: json.dumps([{k: get_dotted_key(k, o)} for k in sorted(S["node"].keys(o))]),
        "node.fingerprint(o): one KeysRequest for node (the JSON of node.keys(o) with the values)")
    row("Evaluatable.ensure", "ensure", E, lambda S, o: S["node"].ensure(S["node"]).evaluate(o), ev,
        "ensure(node) is node", kind="accessor")
    row("Evaluatable.ensure:plain", "ensure", E, lambda S, o: S["node"].ensure(5).evaluate(o), lambda S, o: Value(5).evaluate(o),
        "ensure(5) == Value(5)", kind="constructs", targets=[])
    row("Evaluatable.unit", "unit", E, lambda S, o: S["node"].unit(5).evaluate(o), lambda S, o: Value(5).evaluate(o),
        "unit(5) == Value(5)", kind="constructs", targets=[])
    # ---- transformations
    TR = lambda S: isinstance(S["node"], (PipelineStep, Pipeline)) and own(S)      # noqa: E731
    row("Transformation.transform", "transform", TR, lambda S, o: S["node"].transform(S["x"], o), lambda S, o: S["node"].evaluate(o)(S["x"]),
        "step.transform(x, o) == step.evaluate(o)(x): one EvaluateRequest for the step / pipeline, then whatever its evaluate issues")
    row("Transformation.transform:noopts", "transform", TR, lambda S, o: S["node"].transform(S["x"]),
        lambda S, o: S["node"].evaluate({})(S["x"]), "step.transform(x) == step.evaluate({})(x)")
    row("Transformation.transform:None", "transform", TR, lambda S, o: S["node"].transform(S["x"], None),
        lambda S, o: S["node"].evaluate({})(S["x"]), "step.transform(x, None) == step.evaluate({})(x)")
    row("Transformation.transform:kw", "transform", TR, lambda S, o: S["node"].transform(value=S["x"], options=o),
        lambda S, o: S["node"].evaluate(o)(S["x"]), "step.transform(value=x, options=o) == step.evaluate(o)(x)")

    def eff_direct(e, x, o):
        if isinstance(e, ChainedEffect):
            for m in e.effects:
                eff_direct(m, x, o)
        elif isinstance(e, CallbackEffect):
            e.callback.evaluate(o or {})(x)
        elif isinstance(e, LogEffect):
            LogRequest(e.level, e.name, e.msg, o or {}).run()
        else:
            raise TypeError(e)
    EF = isa(Effect)
    row("Effect.transform", "transform", EF, lambda S, o: S["node"].transform(S["x"], o), lambda S, o: eff_direct(S["node"], S["x"], o),
        "CallbackEffect: callback.evaluate(o)(x); ChainedEffect: each member in order; LogEffect: one LogRequest",
        targets=["dep"])
    row("Effect.transform:noopts", "transform", EF, lambda S, o: S["node"].transform(S["x"]), lambda S, o: eff_direct(S["node"], S["x"], None),
        "the same with options omitted: the callback is evaluated on {}", targets=["dep"])
    PS = lambda S: isinstance(S["node"], PipelineStep) and own(S)      # noqa: E731
    PL = lambda S: isinstance(S["node"], Pipeline) and own(S)      # noqa: E731
    row("PipelineStep.__add__:step", "__add__", PS, lambda S, o: (S["node"] + S["_step"]).evaluate(o)(S["x"]),
        lambda S, o: Pipeline(S["_step"], Pipeline(S["node"])).evaluate(o)(S["x"]),
        "(step + other) == Pipeline(other, Pipeline(step))", kind="constructs")
    row("PipelineStep.__add__:function", "__add__", PS, lambda S, o: (S["node"] + ep_tag).evaluate(o)(S["x"]),
        lambda S, o: Pipeline(PipelineStep(Value(ep_tag)), Pipeline(S["node"])).evaluate(o)(S["x"]),
        "(step + f) == Pipeline(PipelineStep(Value(f)), Pipeline(step))", kind="constructs")
    row("PipelineStep.__add__:transform", "__add__", PS, lambda S, o: (S["node"] + S["_step"]).transform(S["x"], o),
        lambda S, o: Pipeline(S["_step"], Pipeline(S["node"])).evaluate(o)(S["x"]),
        "(step + other).transform(x, o) == Pipeline(other, Pipeline(step)).evaluate(o)(x)", kind="constructs")
    row("Pipeline.__add__:step", "__add__", PL, lambda S, o: (S["node"] + S["_step"]).evaluate(o)(S["x"]),
        lambda S, o: Pipeline(S["_step"], S["node"]).evaluate(o)(S["x"]), "(pipeline + step) == Pipeline(step, pipeline)", kind="constructs")
    row("Pipeline.__add__:function", "__add__", PL, lambda S, o: (S["node"] + ep_tag).evaluate(o)(S["x"]),
        lambda S, o: Pipeline(PipelineStep(Value(ep_tag)), S["node"]).evaluate(o)(S["x"]),
        "(pipeline + f) == Pipeline(PipelineStep(Value(f)), pipeline)", kind="constructs")
    row("Pipeline.__add__:pipeline", "__add__", PL, lambda S, o: (S["node"] + (S["_step"] + S["_step2"])).evaluate(o)(S["x"]),
        lambda S, o: Pipeline(S["_step2"], Pipeline(S["_step"], S["node"])).evaluate(o)(S["x"]),
        "(pipeline + (s + t)) == Pipeline(t, Pipeline(s, pipeline))", kind="constructs")
    row("Pipeline.__iter__", "__iter__", lambda S: isinstance(S["node"], Pipeline) and "s1" in S,
        lambda S, o: [("@s1" if s is S["s1"] else "@s2" if s is S.get("s2") else type(s).__name__) for s in S["node"]][:2 if "s2" in S else 1],
        lambda S, o: ["@s1", "@s2"][:1 if "s2" not in S else 2], "iterating a pipeline yields its steps in order and issues no request",
        kind="no_request", targets=[])
    row("Pipeline.empty", "empty", lambda S: PL(S) and not S.get("_random_pipe"), lambda S, o: S["node"].empty, lambda S, o: "s1" not in S,
        "pipeline.empty issues no request", kind="no_request", targets=[])
    # ---- Map
    row("Map.values", "values", isa(Map), lambda S, o: S["node"].values.evaluate(o), lambda S, o: Apply(S["node"], Value(ep_second)).evaluate(o),
        "map.values.evaluate(o) == Apply(map, Value(second of each)).evaluate(o) == second of each of map.evaluate(o)",
        kind="constructs", inner=ev, core=lambda S, o: ep_second(S["node"].evaluate(o)))
    # ---- Option
    OP = lambda S: type(S["node"]) is Option      # noqa: E731
    row("Option.set", "set", OP, lambda S, o: S["node"].evaluate(S["node"].set(o, "SET")),
        lambda S, o: S["node"].evaluate(mix(o, ep_nested(S["node"].key, "SET"))),
        "option.set(o, v) issues no request and returns o with the key set: evaluating on it gives v", kind="no_request")
    row("Option.namespace", "namespace", isa(Namespace), lambda S, o: S["node"].evaluate(o),
        lambda S, o: Namespace("PKG", {"A": Option("PKG.A", type=int), "B": Option("PKG.B", default="dflt"),
                                       "T": Option.auto(default="{B}", doc="templated") >> str,
                                       "SUB": Namespace("PKG.SUB", {"X": Option("PKG.SUB.X", default=3)})}).evaluate(o),
        "Option.namespace(cls) == Namespace(key, {member: Option(key.member, ...)})", kind="constructs", targets=[], anon=True)
    row("Option.auto", "auto", isa(Namespace), lambda S, o: S["node"].T.evaluate(o),
        lambda S, o: Apply(Option("PKG.T", default="{B}"), Value(str)).evaluate(o),
        "a member declared with Option.auto(default) >> f is Apply(Option(key.member, default), Value(f))", kind="constructs", targets=[])
    row("Namespace.__getattr__", "__getattr__", isa(Namespace), lambda S, o: (S["node"].B.evaluate(o), S["node"].SUB.X.evaluate(o)),
        lambda S, o: (Option("PKG.B", default="dflt").evaluate(o), Option("PKG.SUB.X", default=3).evaluate(o)),
        "namespace.member is the member's Option: evaluating it is one EvaluateRequest for that Option", kind="accessor", targets=[])
    row("Namespace.__getitem__", "__getitem__", isa(Namespace), lambda S, o: S["node"]["B"].evaluate(o),
        lambda S, o: Option("PKG.B", default="dflt").evaluate(o), "namespace['member'] is the member's Option", kind="accessor", targets=[])
    # ---- Overloaded / CaseWhen / Switch
    OV = isa(Overloaded)
    row("Overloaded.register", "register", OV, lambda S, o: (S["node"].register((o or {}).get("MODE", "none"), S["_alt"]), S["node"].evaluate(o))[1],
        lambda S, o: (setattr(S["node"], "lookup", dict(S["node"].lookup, **{(o or {}).get("MODE", "none"): S["_alt"]})), S["node"].evaluate(o))[1],
        "register(key, v) issues no request; afterwards evaluate dispatches to v through an EvaluateRequest for v", kind="mutator",
        targets=["node", "_alt", "disp"])
    row("Overloaded.switch", "switch", OV, lambda S, o: S["node"].switch.evaluate(o),
        lambda S, o: Switch(S["node"].dispatch, S["node"].lookup, S["node"].default).evaluate(o),
        "overloaded.switch == Switch(dispatch, lookup, default)", kind="constructs", targets=["dep", "disp"])
    CW = isa(CaseWhen)
    row("CaseWhen.when", "when", CW, lambda S, o: S["node"].when(FUNCS["always"], S["_alt"]).evaluate(o),
        lambda S, o: CaseWhen(S["node"].dispatch, [*S["node"].cases, (Value(FUNCS["always"]), S["_alt"])], S["node"].default).evaluate(o),
        "case.when(p, r) == CaseWhen(dispatch, cases + [(Value(p), r)], default)", kind="constructs", targets=["dep", "res", "_alt"])
    row("CaseWhen.otherwise", "otherwise", CW, lambda S, o: S["node"].otherwise(S["_alt"]).evaluate(o),
        lambda S, o: CaseWhen(S["node"].dispatch, S["node"].cases, S["_alt"]).evaluate(o),
        "case.otherwise(d) == CaseWhen(dispatch, cases, d)", kind="constructs", targets=["dep", "res", "_alt"])
    # ---- lift
    row("FunctionApplication.lift", "lift", lambda S: type(S["node"]) is FunctionApplication,
        lambda S, o: type(S["node"]).lift(S["_fn"][0], c=S["_alt"]).evaluate(o),
        lambda S, o: FunctionApplication(S["_fn"][0], a=S["_fn"][1], b=Value(2), c=S["_alt"]).evaluate(o),
        "FunctionApplication.lift(f, **kw) == FunctionApplication(f, **{parameter: its default or kw})", kind="constructs", targets=["_alt"])
    row("PartialApplication.lift", "lift", lambda S: type(S["node"]) is PartialApplication,
        lambda S, o: type(S["node"]).lift(S["_pfn"][0], b=S["_alt"]).evaluate(o)(S["x"]),
        lambda S, o: PartialApplication(S["_pfn"][0], a=S["_pfn"][1], b=S["_alt"]).evaluate(o)(S["x"]),
        "PartialApplication.lift(f, **kw) == PartialApplication(f, **{defaulted parameter: its default or kw})", kind="constructs",
        targets=["_alt"])
    # ---- Dataset
    DS = isa(Dataset)
    conc = lambda S: isinstance(S["node"], Dataset) and not S["node"].is_abstract      # noqa: E731
    row("Dataset.default", "default", conc, lambda S, o: S["node"].default.evaluate(o), lambda S, o: S["node"].overloads.default.evaluate(o),
        "dataset.default is the default implementation node: evaluating it is a request for that node, not for the dataset",
        kind="accessor", targets=["dep"])
    row("Dataset.is_abstract", "is_abstract", DS, lambda S, o: S["node"].is_abstract, lambda S, o: "MISSING" in repr(S["node"].overloads.default),
        "issues no request", kind="no_request", targets=[])

    def rebuilt(ds, options=None, default_options=None):
        return Dataset(ds.overloads, ds.effects, ds.cache, mix(ds.options, options or {}), mix(ds.default_options, default_options or {}),
                       ds.callback)
    WO = {"A": 30, "S": {"X": "wx"}}
    row("Dataset.with_options", "with_options", DS, lambda S, o: S["node"].with_options(WO)(o), lambda S, o: rebuilt(S["node"], WO).evaluate(o),
        "ds.with_options(X)(o) == Dataset(ds.overloads, ds.effects, ds.cache, mix(ds.options, X), ds.default_options, ds.callback)"
        ".evaluate(o): one EvaluateRequest for the new dataset, then the shared implementation nodes", kind="constructs",
        targets=["dep", "alt", "eff", "cb"])
    row("Dataset.with_default_options", "with_default_options", DS, lambda S, o: S["node"].with_default_options(WO)(o),
        lambda S, o: rebuilt(S["node"], None, WO).evaluate(o), "the same with mix(ds.default_options, X)", kind="constructs",
        targets=["dep", "alt", "eff", "cb"])
    key = lambda o: (o or {}).get("MODE", "none")      # noqa: E731
    row("Dataset.register", "register", DS, lambda S, o: (S["node"].register(key(o), S["_alt"]), S["node"].evaluate(o))[1],
        lambda S, o: (S["node"].overloads.register(key(o), S["_alt"]), S["node"].evaluate(o))[1],
        "ds.register(k, v) == ds.overloads.register(k, v): no request; afterwards evaluate reaches v through an EvaluateRequest",
        kind="mutator", targets=["node", "_alt", "dep"])

    def ovfn(b=None):
        return ("overload", b)

    def mk_ov(S):
        return dataset(ovfn, defaults={"b": S["_alt"]})
    row("Dataset.overload", "overload", lambda S: isinstance(S["node"], Dataset) and "MISSING" not in repr(S["node"].overloads.dispatch),
        lambda S, o: (S["node"].overload(key(o))(mk_ov(S)), S["node"].evaluate(o))[1],
        lambda S, o: (S["node"].overloads.register(key(o), mk_ov(S)), S["node"].evaluate(o))[1],
        "ds.overload(k)(d) registers d under k: no request; afterwards evaluate reaches d through an EvaluateRequest", kind="mutator",
        targets=["node", "_alt"])
    row("Dataset.set_dispatch", "set_dispatch", DS, lambda S, o: (S["node"].set_dispatch(S["_disp"]), S["node"].evaluate(o))[1],
        lambda S, o: (setattr(S["node"], "overloads", Overloaded(S["_disp"], dict(S["node"].overloads.lookup), default=S["node"].overloads.default)),
                      S["node"].evaluate(o))[1],
        "ds.set_dispatch(d): no request; afterwards evaluate evaluates d through an EvaluateRequest", kind="mutator",
        targets=["node", "_disp", "dep"])
    row("Dataset.set_cache", "set_cache", DS, lambda S, o: (S["node"].set_cache(MemoryCache()), S["node"].evaluate(o), S["node"].evaluate(o))[1:],
        lambda S, o: (setattr(S["node"], "cache", MemoryCache()), S["node"].evaluate(o), S["node"].evaluate(o))[1:],
        "ds.set_cache(c): no request; afterwards the cache requests name c", kind="mutator", targets=["node", "dep"])
    row("Dataset.set_cache:factory", "set_cache", DS, lambda S, o: (S["node"].set_cache(MemoryCache), S["node"].evaluate(o), S["node"].evaluate(o))[1:],
        lambda S, o: (setattr(S["node"], "cache", MemoryCache()), S["node"].evaluate(o), S["node"].evaluate(o))[1:],
        "ds.set_cache(factory) == ds.set_cache(factory())", kind="mutator", targets=["node", "dep"])
    for nm in ("add_effects", "add_effect"):
        row("Dataset." + nm, nm, DS, lambda S, o, nm=nm: (getattr(S["node"], nm)(S["_step"], CallbackEffect(S["_step2"])), S["node"].evaluate(o))[1],
            lambda S, o: (S["node"].effects.extend([CallbackEffect(S["_step"]), CallbackEffect(S["_step2"])]), S["node"].evaluate(o))[1],
            "ds.%s(e, ...): no request; afterwards evaluate applies e: an Evaluatable callback is evaluated through an EvaluateRequest" % nm,
            kind="mutator", targets=["node", "_step", "_step2", "dep"])
    row("Dataset.disable_effects", "disable_effects", DS, lambda S, o: (S["node"].disable_effects(), S["node"].evaluate(o))[1],
        lambda S, o: (setattr(S["node"], "_effects_disabled", True), S["node"].evaluate(o))[1],
        "no request; afterwards evaluate applies no effect", kind="mutator", targets=["node", "dep", "eff"])
    row("Dataset.enable_effects", "enable_effects", DS,
        lambda S, o: (S["node"].disable_effects(), S["node"].enable_effects(), S["node"].evaluate(o))[2], ev,
        "disable_effects() then enable_effects() == nothing", kind="mutator", targets=["node", "dep", "eff"])
    # ---- dataset classes
    DCm = isa(_DatasetClassMeta)
    row("DatasetClass.instantiate", "__call__", DCm, lambda S, o: S["node"](o), ev,
        "DC(o) == DC.evaluate(o): one EvaluateRequest for the class, then one per member and the KeysRequest for the repr")
    row("DatasetClass.instantiate:member", "__call__", DCm, lambda S, o: S["node"](o).a, lambda S, o: S["node"].evaluate(o).a,
        "DC(o).member == DC.evaluate(o).member")
    # ---- helper constructors of the package namespace (not members of a node class)
    H = lambda S: S.get("_helper") is True      # noqa: E731
    row("labrea.cached", "cached", H, lambda S, o: (lambda c: (c(o), c(o)))(cached(S["dep"])),
        lambda S, o: (lambda c: (c.evaluate(o), c.evaluate(o)))(Cached(S["dep"], MemoryCache())),
        "cached(x)(o) == Cached(x, MemoryCache()).evaluate(o): the second call is answered by the cache requests", kind="constructs",
        targets=["dep"])
    row("labrea.cached:decorator", "cached", H, lambda S, o: (lambda c: (c(o), c(o)))(cached(MemoryCache())(S["dep"])),
        lambda S, o: (lambda c: (c.evaluate(o), c.evaluate(o)))(Cached(S["dep"], MemoryCache())),
        "cached(cache)(x) == Cached(x, cache)", kind="constructs", targets=["dep"])
    row("labrea.Switch:str", "Switch", H, lambda S, o: switch("K", {"k1": S["dep"], "k2": 2}, "dflt")(o),
        lambda S, o: Switch(Option("K"), {"k1": S["dep"], "k2": Value(2)}, Value("dflt")).evaluate(o),
        "switch('K', {k: v}, d) == Switch(Option('K'), {k: ensure(v)}, ensure(d))", kind="constructs", targets=["dep"])
    row("labrea.case", "case", H, lambda S, o: case(S["dep"]).when(FUNCS["pos"], S["_alt"]).otherwise("neg")(o),
        lambda S, o: CaseWhen(S["dep"], [(Value(FUNCS["pos"]), S["_alt"])], Value("neg")).evaluate(o),
        "case(d).when(p, r).otherwise(x) == CaseWhen(d, [(Value(p), r)], Value(x))", kind="constructs", targets=["dep", "_alt"])
    row("labrea.case:plain", "case", H, lambda S, o: case(3).when(FUNCS["pos"], S["dep"])(o),
        lambda S, o: CaseWhen(Value(3), [(Value(FUNCS["pos"]), S["dep"])]).evaluate(o),
        "case(value) == CaseWhen(Value(value), [])", kind="constructs", targets=["dep"])
    row("labrea.coalesce", "coalesce", H, lambda S, o: coalesce(Option("MISSING"), S["dep"], 5)(o),
        lambda S, o: Coalesce(Option("MISSING"), S["dep"], Value(5)).evaluate(o), "coalesce(a, b, 5) == Coalesce(a, b, Value(5))",
        kind="constructs", targets=["dep"])
    row("labrea.WithDefaultOptions", "WithDefaultOptions", H, lambda S, o: WithDefaultOptions(S["dep"], {"A": 9})(o),
        lambda S, o: WithOptions(S["dep"], {"A": 9}, force=False).evaluate(o), "WithDefaultOptions(x, X) == WithOptions(x, X, force=False)",
        kind="constructs", targets=["dep"])
    for nm, py in (("list", list), ("tuple", tuple), ("set", set)):
        row("labrea.evaluatable_" + nm, "evaluatable_" + nm, H,
            lambda S, o, nm=nm: getattr(labrea, "evaluatable_" + nm)(S["dep"], S["_alt"])(o),
            lambda S, o, py=py: Apply(Iter(S["dep"], S["_alt"]), Value(py)).evaluate(o),
            "evaluatable_%s(a, b) == Apply(Iter(a, b), Value(%s))" % (nm, nm), kind="constructs", targets=["dep", "_alt"])
    row("labrea.evaluatable_dict", "evaluatable_dict", H, lambda S, o: labrea.evaluatable_dict({"p": S["dep"], "q": S["_alt"]})(o),
        lambda S, o: Apply(Iter(Iter(Value("p"), S["dep"]), Iter(Value("q"), S["_alt"])), Value(dict)).evaluate(o),
        "evaluatable_dict({k: v}) == Apply(Iter(Iter(Value(k), v), ...), Value(dict))", kind="constructs", targets=["dep", "_alt"])
    row("labrea.arguments", "arguments", H, lambda S, o: arguments(S["dep"], 2, k=S["_alt"])(o),
        lambda S, o: EvaluatableArguments(S["dep"], Value(2), k=S["_alt"]).evaluate(o),
        "arguments(a, 2, k=b) == EvaluatableArguments(a, Value(2), k=b)", kind="constructs", targets=["dep", "_alt"])

    def psfn(x, p=None):
        return ("ps", x, p)
    row("labrea.pipeline_step", "pipeline_step", H, lambda S, o: (lambda f: pipeline_step(f).transform(EP_X, o))(_with_default(psfn, S["dep"])),
        lambda S, o: (lambda f: PipelineStep(PartialApplication(f, p=S["dep"]), "ps").evaluate(o)(EP_X))(_with_default(psfn, S["dep"])),
        "pipeline_step(f).transform(x, o) == PipelineStep(PartialApplication(f, **defaults)).evaluate(o)(x)", kind="constructs",
        targets=["dep"])
    row("labrea.dataset", "dataset", H, lambda S, o: dataset(psfn, defaults={"x": S["dep"], "p": S["_alt"]})(o),
        lambda S, o: dataset(psfn, defaults={"x": S["dep"], "p": S["_alt"]}).evaluate(o),
        "dataset(f, defaults=...)(o) == the dataset's evaluate(o)", targets=["dep", "_alt"])
    # ---- labrea.functions
    FN = lambda S: S.get("_functions") is True      # noqa: E731
    appl = lambda S, o: S["node"].evaluate(o)(S["x"]) if callable(getattr(S["node"], "evaluate", None)) else None      # noqa: E731
    row("functions.transform", "transform", lambda S: FN(S) and hasattr(S["node"], "transform"),
        lambda S, o: S["node"].transform(S["x"], o), appl,
        "labrea.functions.<helper>(...).transform(x, o) == its evaluate(o)(x): one EvaluateRequest for the step first")
    row("functions.transform:noopts", "transform", lambda S: FN(S) and hasattr(S["node"], "transform"),
        lambda S, o: S["node"].transform(S["x"]), lambda S, o: S["node"].evaluate({})(S["x"]), "the same without options")
    row("functions.__call__", "__call__", FN, lambda S, o: S["node"](o)(S["x"]), appl, "helper(...)(o)(x) == helper(...).evaluate(o)(x)")
    row("functions.__rshift__", "__rshift__", lambda S: FN(S) and isinstance(S["node"], PipelineStep),
        lambda S, o: (Value(S["x"]) >> S["node"]).evaluate(o), lambda S, o: Apply(Value(S["x"]), S["node"]).evaluate(o),
        "(source >> helper(...)).evaluate(o) == Apply(source, step).evaluate(o)", kind="constructs")
    return rows


def _with_default(f, dep):
    import types
    g = types.FunctionType(f.__code__, f.__globals__, "ps", (dep,), f.__closure__)
    return g


EP_EXTRA_SUBS = {"_step": "fn", "_step2": "fn", "_alt": "SUBALT", "_disp": "alt"}


class EpSubject(dict):
    """A subject plus, on demand, fresh auxiliary nodes the rows combine it with (`_step`, `_step2`: pipeline
    steps; `_alt`, `_disp`: options; `_bound`: a function for bind; `_fn`, `_pfn`: functions with defaults)."""

    def __missing__(self, k):
        from labrea import Option
        if k == "_step":
            v = ep_step("aux", "K", "ka")
        elif k == "_step2":
            v = ep_step("aux2", "B", "kb")
        elif k == "_alt":
            v = Option("B", "altd")
        elif k == "_disp":
            v = Option("K", "kd")
        elif k == "_bound":
            alt = self["_alt"]
            v = lambda x: alt.apply(lambda b: ("bound", b, x))      # noqa: E731
        elif k == "_fn":
            dep_a = Option("A", 1)

            def fn(a=dep_a, b=2, **kw):
                return ("fn", a, b, sorted(kw.items()))
            v = (fn, dep_a)
        elif k == "_pfn":
            dep_p = Option("A", 1)

            def pfn(x, a=dep_p, b=2):
                return ("pfn", x, a, b)
            v = (pfn, dep_p)
        else:
            raise KeyError(k)
        self[k] = v
        return v


def ep_extras(S):
    S = EpSubject(S)
    for k, v in EP_EXTRA_SUBS.items():
        S["subs"].setdefault(k, ep_subst_fn if v == "fn" else v)
    return S


# Rows that are observed, not judged in full. `drop`: the requests of the direct form that the entry point does
# not issue; with them removed the two forms must still agree (so anything else it stops issuing is a violation);
# the substitution for `target` is observed only. EP_BYPASSES: genuine bypasses of a routed operation on the
# unchanged package (none at present); EP_BY_DESIGN: entry points that are not meant to be the routed operation.
EP_BYPASSES = {}
EP_BY_DESIGN = {
    "dataset_class_constructor": {
        "what": "calling a dataset class, DC(options), is its constructor (type.__call__: `type` is listed before Evaluatable in "
                "the bases of the metaclass), not an alias of evaluate(): it is what DC.evaluate runs after its EvaluateRequest "
                "has been handled. It issues the requests of DC.evaluate(options) except the EvaluateRequest for DC itself, and "
                "a handler substituting DC does not apply to it. DC.evaluate(options), DC as the argument of a dataset and, "
                "since /repo e6a9737, (DC >> f)(o), DC.apply(f)(o), DC.bind(g)(o) are routed.",
        "rows": ["DatasetClass.instantiate", "DatasetClass.instantiate:member"],
    },
}
_EP_DC = {"drop": ["evaluate", "@node"], "target": "node", "reason": "dataset_class_constructor"}
EP_OBSERVED_ONLY = {"DatasetClass.instantiate": _EP_DC, "DatasetClass.instantiate:member": _EP_DC}


def ep_subseq(small, big):
    """`small` occurs in `big` in order (not necessarily contiguously: a lazy result issues the rest of its
    requests when it is consumed)"""
    it = iter(big)
    return all(any(x == y for y in it) for x in small)


def ep_first_diff(a, b):
    for i, (x, y) in enumerate(zip(a, b)):
        if x != y:
            return i
    return min(len(a), len(b))


def ep_show(log, i, n=4):
    return json.dumps([e[:2] for e in log[max(0, i - 1):i + n]])


def ep_random_builder(item):
    def build():
        if item.get("pipe") is not None:
            steps = []
            for st in item["pipe"]:
                steps.append(FUNCS[st[1]] if st[0] == "fn" else ep_step(st[1], st[2], st[3], required=bool(st[4])))
            node = steps[0]
            if callable(node) and not hasattr(node, "evaluate"):
                from labrea.pipeline import Pipeline
                node = Pipeline() + node
            for s in steps[1:]:
                node = node + s
            d = {"node": node, "x": EP_X, "subs": {"node": ep_subst_fn}}
            first = steps[0]
            if hasattr(first, "evaluate"):
                d["s1"], d["dep"] = first, first
                d["subs"]["dep"] = ep_subst_fn
                d["subs"]["s1"] = ep_subst_fn
                if len(steps) > 1 and hasattr(steps[1], "evaluate") and len(steps) == 2:
                    d["s2"] = steps[1]
            d["_random_pipe"] = True
            return d
        gb = GB(item.get("shared") or [])
        return {"node": gb.b(item["spec"]), "x": EP_X, "subs": {"node": "SUB"}}
    return build


def ep_reflect(subject_classes):
    """(class, member) pairs of the package: every labrea.* subclass of the four roots; its public callables and
    properties: names not starting with `_`, plus __call__, __rshift__, __add__, __iter__ (resolved along the
    real MRO: `owner` is the class whose body defines what the attribute lookup finds)."""
    import inspect
    found, stack = set(), list(W.ROOT.values())
    while stack:
        c = stack.pop()
        if c in found:
            continue
        found.add(c)
        stack.extend(type.__subclasses__(c))
    out, abstract = {}, []
    for K in sorted(found, key=lambda c: (c.__module__, c.__qualname__)):
        if K.__module__.split(".")[0] != "labrea":
            continue
        full = f"{K.__module__}.{K.__qualname__}"
        if inspect.isabstract(K):
            abstract.append(full)
            continue
        names = set()
        for k in K.__mro__:
            if k.__module__.split(".")[0] != "labrea":
                continue
            for n, v in vars(k).items():
                if n.startswith("_") and n not in EP_EXTRA_MEMBERS:
                    continue
                if callable(v) or isinstance(v, (property, staticmethod, classmethod)):
                    names.add(n)
        for n in sorted(names):
            v, owner = w_static(K, n)
            out[f"{K.__qualname__}.{n}"] = {"class": full, "member": n, "owner": owner.__qualname__ if owner else None,
                                            "kind": type(v).__name__}
    return out, abstract


def w_entrypoints(job):
    w_init(job.get("info"))
    import labrea
    T = W.T
    thorough = job.get("tier") == "thorough"
    seed = int(job.get("seed") or 0)
    rows = ep_rows()
    rowids = [r["id"] for r in rows]
    subjects = {k: (lambda b: lambda: ep_extras(b()))(b) for k, b in ep_subjects().items()}
    fsubj, f_untabled = ep_function_subjects()
    for k, b in fsubj.items():
        subjects["functions." + k] = (lambda b: lambda: ep_extras(dict(b(), _functions=True)))(b)

    def helper():
        from labrea import Option
        dep = Option("A", 1)
        return ep_extras({"node": dep, "dep": dep, "x": EP_X, "subs": {"dep": 90}, "_helper": True})
    subjects["(package helpers)"] = helper
    random_rows = {}
    for item in job.get("random") or []:
        subjects[item["name"]] = (lambda b: lambda: ep_extras(b()))(ep_random_builder(item))
        random_rows[item["name"]] = item
    only = job.get("only")
    probes = {}
    for name, b in subjects.items():
        if only is not None and not any(c["subject"] == name for c in only):
            continue
        try:
            probes[name] = b()
        except BaseException as e:     # noqa: BLE001
            import traceback
            return {"harness_error": f"subject {name} cannot be built: {type(e).__name__}: {e} {traceback.format_exc()[-500:]}"}
    per_row = {r["id"]: {"cases": 0, "requests": 0, "subst_cases": 0, "subst_hit": 0, "subst_changes_result": 0, "ok_outcomes": 0,
                         "subjects": []} for r in rows}
    by_cm, problems, observed, verbose_out = {}, [], {}, []
    never_ok = {n: True for n in subjects if n.startswith("functions.")}
    n = nontrivial = 0
    for r in rows:
        for name in sorted(probes):
            P = probes[name]
            item = random_rows.get(name)
            if item is not None and r["id"] not in item["rows"]:
                continue
            try:
                if not r["applies"](P):
                    continue
            except Exception:     # noqa: BLE001
                continue
            noopts = r["id"].endswith((":noopts", ":None"))
            if only is not None:
                opts = [c["options"] for c in only if c["subject"] == name and c["row"] == r["id"]]
                if not opts:
                    continue
            elif item is not None:
                opts = [item["options"]]
            elif noopts or r["kind"] == "no_request" and r["id"] != "Option.set":
                opts = [None] if noopts else [EP_OPTIONS[(seed + n) % len(EP_OPTIONS)]]
            elif thorough:
                opts = list(EP_OPTIONS) + list(ALL_OPTS[:2])
            else:
                opts = [EP_OPTIONS[(seed + n + j) % len(EP_OPTIONS)] for j in range(2 if r["kind"] == "evaluates" else 1)]
            n += 1
            st = per_row[r["id"]]
            cls = type(P["node"])
            st["subjects"].append(name)
            cm = f"{cls.__qualname__}.{r['member']}"
            build = subjects[name]
            tkeys = [k for k in (r["targets"] if r["targets"] is not None else ["node", "dep"])
                     if k in P["subs"] and (k in P or k in EP_EXTRA_SUBS)]
            obs = EP_OBSERVED_ONLY.get(r["id"]) or EP_OBSERVED_ONLY.get(f"{r['id']}|{cls.__name__}")
            for o in opts:
                case = {"row": r["id"], "subject": name, "options": o}
                if item is not None:
                    case["random"] = item
                for mode in [None] + tkeys:
                    try:
                        r1, l1, h1 = ep_exec(r["via"], build, o, mode, r["anon"])
                        r2, l2, h2 = ep_exec(r["direct"], build, o, mode, r["anon"])
                    except BaseException as e:     # noqa: BLE001
                        import traceback
                        return {"harness_error": f"row {r['id']} on {name}: {type(e).__name__}: {e} {traceback.format_exc()[-700:]}"}
                    if mode is None:
                        st["cases"] += 1
                        st["requests"] += len(l1)
                        nontrivial += 1 if len(l2) >= 3 else 0
                        by_cm[cm] = by_cm.get(cm, 0) + 1
                        if r1[0] == "ok":
                            st["ok_outcomes"] += 1
                            never_ok.pop(name, None)
                        plain = r2
                    else:
                        st["subst_cases"] += 1
                        st["subst_hit"] += 1 if h2 else 0
                        st["subst_changes_result"] += 1 if (h2 and r2 != plain) else 0
                    if job.get("verbose"):
                        verbose_out.append({"row": r["id"], "subject": name, "options": o, "mode": mode or "pass-through",
                                            "via": {"outcome": r1, "requests": l1, "substituted": h1},
                                            "direct": {"outcome": r2, "requests": l2, "substituted": h2}})
                    what = f"entry point {r['id']} on {name} ({cls.__name__})"
                    how = ("with pass-through handlers" if mode is None else
                           f"with an EvaluateRequest handler that answers {P['subs'][mode]!r} for the node `{mode}`"
                           .replace(repr(ep_subst_fn), "a substitute function"))
                    l2c = l2
                    if obs is not None:
                        # observed only: with the request it does not issue removed the forms must still agree
                        l2c = [e for e in l2 if e[:2] != obs["drop"]]
                        okey = r["id"] if r["id"] in EP_OBSERVED_ONLY else f"{r['id']}|{cls.__name__}"
                        seen = observed.setdefault(okey, {"reason": obs["reason"], "pass_through_cases": 0,
                                                          "requests_for_the_node_by_direct_form": 0, "requests_for_the_node_by_entry_point": 0,
                                                          "substitution_cases": 0, "substitution_honoured_by_direct_form": 0,
                                                          "substitution_honoured_by_entry_point": 0, "sample": None})
                        if mode is None:
                            seen["pass_through_cases"] += 1
                            ref = l2 if r["inner"] is None else ep_exec(r["inner"], build, o, None)[1]
                            seen["requests_for_the_node_by_direct_form"] += sum(1 for e in ref if e[:2] == obs["drop"])
                            seen["requests_for_the_node_by_entry_point"] += sum(1 for e in l1 if e[:2] == obs["drop"])
                            if seen["sample"] is None:
                                seen["sample"] = {"options": o, "entry_point_requests": [e[:2] for e in l1[:3]],
                                                  "direct_form_requests": [e[:2] for e in ref[:3]]}
                        elif obs.get("target") == mode:
                            seen["substitution_cases"] += 1
                            if r["inner"] is None:
                                seen["substitution_honoured_by_direct_form"] += 1 if h2 else 0
                            else:
                                seen["substitution_honoured_by_direct_form"] += 1 if ep_exec(r["inner"], build, o, mode)[2] else 0
                            seen["substitution_honoured_by_entry_point"] += 1 if h1 else 0
                            continue        # the substitution for the node itself: observed, not judged
                    prob = None
                    if mode is not None and r1 != r2:
                        prob = (f"{what}, {how}: it returns {json.dumps(r1)[:150]} but its direct form ({r['expect']}) "
                                f"returns {json.dumps(r2)[:150]} (the handler answered {h1} vs {h2} time(s))")
                    elif l1 != l2c:
                        i = ep_first_diff(l1, l2c)
                        prob = (f"{what}, {how}: it issues other requests than its direct form ({r['expect']}): "
                                f"{len(l1)} vs {len(l2c)} request(s), first difference at #{i}: entry point {ep_show(l1, i)} "
                                f"direct form {ep_show(l2c, i)}")
                    elif r1 != r2:
                        prob = (f"{what}, {how}: it returns {json.dumps(r1)[:150]} but its direct form ({r['expect']}) "
                                f"returns {json.dumps(r2)[:150]}")
                    elif mode is None and r["inner"] is not None and r1[0] == "ok":
                        ri, li, _ = ep_exec(r["inner"], build, o, None)
                        if obs is not None:
                            li = [e for e in li if e[:2] != obs["drop"]]
                        if ri[0] == "ok" and not ep_subseq(li, l1):
                            prob = (f"{what}, {how}: the {len(li)} request(s) of node.evaluate(o) {ep_show(li, 0)} are not part "
                                    f"(in order) of the {len(l1)} request(s) it issues")
                    if prob is None and r["core"] is not None and obs is None:
                        rc, lc, hc = ep_exec(r["core"], build, o, mode, r["anon"])
                        st["core_cases"] = st.get("core_cases", 0) + 1
                        if rc[0] == "ok" and r1 != rc:
                            prob = (f"{what}, {how}: it returns {json.dumps(r1)[:150]} but the same thing spelled with "
                                    f"node.evaluate(o) ({r['expect']}) returns {json.dumps(rc)[:150]}"
                                    + (f" (the handler answered {h1} vs {hc} time(s))" if mode else ""))
                        elif mode == "node" and bool(hc) != bool(h1):
                            prob = (f"{what}, {how}: the handler was consulted {h1} time(s) for the node, but {hc} time(s) when the "
                                    f"same thing is spelled with node.evaluate(o) ({r['expect']})")
                    if prob:
                        problems.append({"what": prob, "case": dict(case, mode=mode or "pass-through")})
    table = []
    for r in rows:
        st = per_row[r["id"]]
        subj = st.pop("subjects")
        nrand = sum(1 for s in subj if s in random_rows)
        fixed = [s for s in subj if s not in random_rows]
        st["subjects"] = fixed[:14] + ([f"(+{len(fixed) - 14} more)"] if len(fixed) > 14 else []) + ([f"(+{nrand} random)"] if nrand else [])
        table.append(dict({"entry_point": r["id"], "member": r["member"], "kind": r["kind"], "direct_form": r["expect"],
                           "in_oracle": ("no (observed only)" if r["id"] in EP_OBSERVED_ONLY else
                                         "yes, except on " + ", ".join(k.split("|")[1] for k in EP_OBSERVED_ONLY if k.startswith(r["id"] + "|"))
                                         if any(k.startswith(r["id"] + "|") for k in EP_OBSERVED_ONLY) else "yes")}, **st))
    refl, abstract = ep_reflect(None)
    core = set(METHS)
    members = {}
    for cmk, d in refl.items():
        members[cmk] = "core operation (parts 1-5)" if d["member"] in core else by_cm.get(cmk, 0)
    # credit for members that are reached through another subject (static constructors)
    for cmk, rid in (("Option.namespace", "Option.namespace"), ("Option.auto", "Option.auto")):
        if cmk in members and not members[cmk]:
            members[cmk] = per_row[rid]["cases"]
    uncovered = sorted(k for k, v in members.items() if v == 0)
    owners = {}
    for cmk, d in refl.items():
        if d["owner"] != cmk.rsplit(".", 1)[0]:
            owners.setdefault(f"{d['owner']}.{d['member']}", []).append(cmk.rsplit(".", 1)[0])
    pkg = {}
    for nm in sorted(getattr(labrea, "__all__", [])):
        obj = getattr(labrea, nm, None)
        if isinstance(obj, type) and issubclass(obj, tuple(W.ROOT.values())):
            pkg[nm] = "node class: subject " + obj.__name__
        elif isinstance(obj, T.Evaluatable):
            pkg[nm] = "node: subject " + type(obj).__name__.lstrip("_")
        elif callable(obj):
            hits = [r["id"] for r in rows if r["id"].startswith("labrea.") and
                    (r["member"] == nm or getattr(labrea, r["member"], None) is obj)]
            via_subject = {"datasetclass": "DatasetClass", "abstractdataset": "Dataset_abstract", "interface": "Dataset_interface",
                           "implements": "Dataset_interface"}.get(nm)
            pkg[nm] = hits or (("subject " + via_subject) if via_subject in subjects else 0)
    out = {"table": table, "cases": sum(t["cases"] for t in table), "subst_cases": sum(t["subst_cases"] for t in table),
           "requests_compared": sum(t["requests"] for t in table), "problems": problems, "members": members, "uncovered_members": uncovered,
           "abstract_classes": abstract, "inherited_from": {k: sorted(v) for k, v in owners.items()}, "observed_only": observed,
           "known_bypasses": EP_BYPASSES, "by_design": EP_BY_DESIGN, "nontrivial_cases": nontrivial,
           "package_callables": pkg, "functions_untabled": f_untabled, "functions_never_ok": sorted(never_ok),
           "subjects": len(probes), "classes_with_subject": sorted({type(P["node"]).__qualname__ for P in probes.values()}),
           "rows": rowids}
    if job.get("verbose"):
        out["verbose"] = verbose_out
    return out


def worker_main():
    job = json.loads(sys.stdin.read())
    import labrea
    repo = os.path.realpath(str(REPO))
    if not os.path.realpath(labrea.__file__).startswith(repo):
        print(json.dumps({"worker_error": f"labrea imported from {labrea.__file__}, not from {repo}"}))
        return 0
    fn = {"reflect": w_reflect, "chains": w_chains, "graphs": w_graphs, "intercept": w_intercept, "subst": w_subst,
          "entrypoints": w_entrypoints}[job["job"]]
    res = fn(job)
    sys.stdout.write(json.dumps(res, default=str))
    return 0


# ==============================================================================================
# MAIN SIDE
# ==============================================================================================
O_FULL = {"A": 1, "B": "bee", "C": [1, 2], "S": {"X": "ex", "Y": 2}, "K": "k1", "MODE": "alt", "IMPL": "local"}
O_PART = {"A": -2, "S": {"X": "{B}"}}
O_EMPTY = {}
O_TMPL = {"A": 5, "B": "{K}", "K": "kay", "S": {"X": "{A}-{K}", "Y": [1, "{K}"]}, "IMPL": "mem"}
O_SW = {"A": 2, "B": "b", "C": [3], "S": {"X": "x"}, "K": "k2", "IMPL": "ram",
        "LABREA": {"CACHE": {"DISABLED": True}, "LOGGING": {"DISABLED": True}, "EFFECTS": {"DISABLED": True}}}
ALL_OPTS = [O_FULL, O_PART, O_EMPTY, O_TMPL, O_SW]


def fixed_corpus():
    DS = lambda f, deps, **fl: ["ds", f, deps, fl]      # noqa: E731
    items = [
        {"name": "value", "spec": ["val", {"a": [1, 2]}]},
        {"name": "option", "spec": ["opt", "A"]},
        {"name": "option_nested_templated", "spec": ["tuple", [["opt", "S.X"], ["opt", "S"]]]},
        {"name": "option_default_scalar", "spec": ["optd", "Z", 7]},
        {"name": "option_default_template", "spec": ["optd", "Z", "{B}-d"]},
        {"name": "option_default_evaluatable", "spec": ["optd", "Z", ["optd", "A", ["val", [0]]]]},
        {"name": "option_type", "spec": ["tuple", [["optt", "A", "int"], ["optt", "Z", "str", 5]]]},
        {"name": "option_domain_container", "spec": ["optdom", "A", [1, 2, 3], 2]},
        {"name": "option_domain_evaluatable", "spec": ["tuple", [["optdom", "A", ["step", "pos", []], 1], ["optdom", "K", ["list", [["val", "k1"], ["opt", "K"]]]]]]},
        {"name": "apply_chain", "spec": ["apply", ["apply", ["opt", "A"], "inc"], "str"]},
        {"name": "bind", "spec": ["bind", ["optd", "A", 0], [["opt", "B"], ["val", "v"], ["optd", "K", "kd"]]]},
        {"name": "switch_default", "spec": ["switch", "K", {"k1": ["opt", "A"], "k2": ["val", "two"]}, ["optd", "B", "bd"]]},
        {"name": "switch_nodefault", "spec": ["switch", ["opt", "A"], {"i:1": ["val", "one"], "i:2": ["opt", "B"]}, None]},
        {"name": "case", "spec": ["case", ["opt", "A"], [["pos", ["opt", "B"]], ["isstr", ["val", "s"]]], ["optd", "K", "kd"]]},
        {"name": "case_nodefault", "spec": ["case", ["optd", "A", 0], [["pos", ["val", "p"]]], None]},
        {"name": "coalesce", "spec": ["coalesce", [["opt", "MISSING"], ["apply", ["opt", "B"], "inc"], ["opt", "A"], ["val", "last"]]]},
        {"name": "iter", "spec": ["iter", [["opt", "A"], ["val", 2], ["optd", "Z", 3]]]},
        {"name": "collections", "spec": ["dict", {"l": ["list", [["opt", "A"], ["val", 1]]], "t": ["tuple", [["optd", "B", "b"]]], "s": ["set", [["val", 1], ["val", 1], ["optd", "A", 2]]]}]},
        {"name": "map", "spec": ["map", ["tuple", [["opt", "A"], ["optd", "S.X", "sx"]]], {"A": ["opt", "C"], "S.X": ["val", ["p", "q"]]}]},
        {"name": "map_values_dataset", "spec": ["mapvals", DS("tup", [["opt", "A"], ["optd", "B", "b"]]), {"A": ["optd", "C", [5]]}]},
        {"name": "template", "spec": ["tmpl", "{A}/{S.X}/{:p:}/{:q:}", {"p": ["optd", "B", "bb"], "q": DS("str", [["optd", "A", 0]])}]},
        {"name": "with_options", "spec": ["tuple", [["with", ["tuple", [["opt", "A"], ["optd", "S.X", "d"]]], {"A": 10, "S": {"X": "w"}}, True], ["with", ["opt", "A"], {"A": 11}, False]]]},
        {"name": "cached", "spec": ["tuple", [["ref", 0], ["ref", 0]]], "shared": [["cached", ["fa", "tup", [["opt", "A"], ["optd", "B", "b"]]]]]},
        {"name": "logged", "spec": ["tuple", [["logged", ["opt", "A"], 1], ["logged", ["optd", "B", "b"], 0]]]},
        {"name": "function_application", "spec": ["fa", "tup", [["opt", "A"], ["fa", "inc", [["optd", "A", 1]]], ["pa", "tup", [["val", 1]]]]]},
        {"name": "allopts", "spec": ["tuple", [["allopts"], ["apply", ["allopts"], "lst"]]]},
        {"name": "dataset_simple", "spec": DS("tup", [["opt", "A"], ["optd", "B", "b"]])},
        {"name": "dataset_shared_dependency", "spec": DS("tup", [["ref", 0], DS("first", [["ref", 0]]), ["ref", 0]]), "shared": [DS("inc", [["opt", "A"]])]},
        {"name": "dataset_overloads", "spec": DS("tup", [DS("first", [["opt", "A"]], dispatch="MODE", overloads={"alt": ["optd", "B", "ob"], "other": DS("str", [["opt", "K"]])})])},
        {"name": "dataset_abstract", "spec": DS("first", [], abstract=True, dispatch=["optd", "MODE", "none"], overloads={"alt": ["val", "impl"]})},
        {"name": "dataset_effects", "spec": DS("tup", [["opt", "A"]], effect=True, logeffect=True, effect_dep=["step", "ident", [["optd", "K", "k"]]])},
        {"name": "dataset_callback", "spec": DS("inc", [["optd", "A", 1]], callback=["tup", [["optd", "B", "cb"]]])},
        {"name": "dataset_options", "spec": DS("tup", [["opt", "A"], ["optd", "S.X", "sx"]], options={"A": 100}, default_options={"S": {"X": "dx"}}, with_options={"K": "forced"})},
        {"name": "dataset_nocache_memcache", "spec": DS("tup", [DS("inc", [["opt", "A"]], cache="none"), DS("str", [["opt", "A"]], cache="mem")])},
        {"name": "dataset_failing_body", "spec": DS("tup", [DS("boom", [["optd", "A", 1]]), ["val", 1]])},
        {"name": "overloaded", "spec": ["overloaded", ["optd", "MODE", "none"], {"alt": ["opt", "A"], "x": ["val", 1]}, ["optd", "B", "dflt"]]},
        {"name": "pipeline", "spec": ["pipe", ["optd", "A", 1], [["inc", []], ["tup", [["optd", "B", "pb"]]], ["first", [["opt", "K"], ["val", 2]]]]]},
        {"name": "pipeline_step_value", "spec": ["tuple", [["step", "tup", [["optd", "A", 1]]], ["pa", "tup", [["optd", "B", "b"]]]]]},
        {"name": "namespace", "special": "namespace"},
        {"name": "namespace_member", "special": "namespace_member"},
        {"name": "datasetclass", "special": "datasetclass"},
        {"name": "datasetclass_in_dataset", "special": "datasetclass_in_dataset"},
        {"name": "datasetclass_in_datasetclass", "special": "datasetclass_in_datasetclass"},
        {"name": "interface", "special": "interface"},
        {"name": "custom_subclass", "special": "custom_subclass"},
        {"name": "allopts_dataset", "special": "allopts_dataset"},
        {"name": "dataset_decorators", "special": "dataset_decorators"},
    ]
    for it in items:
        it.setdefault("options", ALL_OPTS)
    return items


def rand_graph(rng, depth, nshared):
    """Random composition (JSON spec). Dispatch positions only get scalar-valued options."""
    keys = ["A", "B", "K", "S.X", "Z", "MISSING", "C"]
    leaf = rng.random() < (0.25 if depth > 0 else 1.0)
    if leaf:
        r = rng.random()
        if r < 0.3:
            return ["opt", rng.choice(keys)]
        if r < 0.5:
            return ["optd", rng.choice(keys), rng.choice([0, "d", "{B}", [1], {"n": 1}])]
        if r < 0.6:
            return ["optt", rng.choice(keys), rng.choice(["int", "str"]), rng.choice([1, "s"])]
        if r < 0.7:
            return ["optdom", rng.choice(["A", "K"]), rng.choice([[1, 2, "k1"], ["x"]]), rng.choice([1, "x"])]
        if r < 0.8 and nshared:
            return ["ref", rng.randrange(nshared)]
        if r < 0.85:
            return ["allopts"]
        return ["val", rng.choice([0, 1, "v", [1, 2], {"k": "v"}, None])]
    sub = lambda: rand_graph(rng, depth - 1, nshared)      # noqa: E731
    subs = lambda lo, hi: [sub() for _ in range(rng.randint(lo, hi))]      # noqa: E731
    scalar = lambda: rng.choice([["opt", "K"], ["optd", "MODE", "none"], ["opt", "A"], ["optd", "Z", 1], ["opt", "MISSING"]])      # noqa: E731
    kind = rng.choice(["apply", "bind", "iter", "list", "tuple", "dict", "coalesce", "switch", "case", "tmpl", "with",
                       "cached", "logged", "fa", "map", "mapvals", "pipe", "overloaded", "ds", "ds", "ds", "set"])
    if kind == "apply":
        return ["apply", sub(), rng.choice(["inc", "str", "ident", "lst"])]
    if kind == "bind":
        return ["bind", scalar(), subs(1, 3)]
    if kind in ("iter", "list", "tuple"):
        return [kind, subs(0, 3)]
    if kind == "set":
        return ["set", [rng.choice([["opt", "A"], ["val", 1], ["optd", "K", "k"], ["val", "v"]]) for _ in range(rng.randint(0, 3))]]
    if kind == "dict":
        return ["dict", {f"k{i}": sub() for i in range(rng.randint(0, 3))}]
    if kind == "coalesce":
        return ["coalesce", subs(1, 3)]
    if kind == "switch":
        return ["switch", scalar(), {rng.choice(["k1", "k2", "alt", "i:1", "none"]): sub() for _ in range(rng.randint(1, 3))},
                sub() if rng.random() < 0.6 else None]
    if kind == "case":
        return ["case", scalar(), [[rng.choice(["pos", "isstr", "always", "never"]), sub()] for _ in range(rng.randint(0, 2))],
                sub() if rng.random() < 0.6 else None]
    if kind == "tmpl":
        return ["tmpl", rng.choice(["{A}-{:p:}", "{:p:}/{S.X}", "x{:p:}y", "{MISSING}{:p:}"]), {"p": sub()}]
    if kind == "with":
        return ["with", sub(), rng.choice([{"A": 9}, {"S": {"X": "w"}}, {"K": "k2", "MODE": "alt"}, {"MISSING": 1}]), rng.random() < 0.5]
    if kind == "cached":
        return ["cached", sub()]
    if kind == "logged":
        return ["logged", sub(), rng.randint(0, 1)]
    if kind == "fa":
        return ["fa", rng.choice(["tup", "first"]), subs(0, 3)]
    if kind in ("map", "mapvals"):
        return [kind, sub(), {rng.choice(["A", "S.X", "K"]): rng.choice([["val", [1, 2]], ["opt", "C"], ["val", []], ["optd", "C", ["a"]]])}]
    if kind == "pipe":
        return ["pipe", sub(), [[rng.choice(["inc", "str", "ident", "tup"]), subs(0, 1)] for _ in range(rng.randint(1, 3))]]
    if kind == "overloaded":
        return ["overloaded", scalar(), {rng.choice(["k1", "alt", "none"]): sub() for _ in range(rng.randint(0, 2))},
                sub() if rng.random() < 0.7 else None]
    fl = {}
    if rng.random() < 0.3:
        fl["cache"] = rng.choice(["none", "mem"])
    if rng.random() < 0.3:
        fl["effect"] = True
    if rng.random() < 0.2:
        fl["logeffect"] = True
    if rng.random() < 0.2:
        fl["callback"] = rng.choice(["ident", "str", ["tup", [["optd", "B", "cb"]]]])
    if rng.random() < 0.3:
        fl["dispatch"] = rng.choice(["MODE", "K"])
        fl["overloads"] = {rng.choice(["alt", "k1", "k2"]): sub() for _ in range(rng.randint(0, 2))}
    if rng.random() < 0.2:
        fl["options"] = rng.choice([{"A": 50}, {"S": {"X": "forced"}}])
    if rng.random() < 0.15:
        fl["default_options"] = {"Z": "dz"}
    return ["ds", rng.choice(["tup", "first", "tup", "inc", "boom"]), subs(0, 3), fl]


def random_items(rng, n):
    items = []
    for i in range(n):
        nshared = rng.randint(0, 2)
        shared = [rand_graph(rng, 2, 0) for _ in range(nshared)]
        spec = rand_graph(rng, rng.randint(1, 4), nshared)
        items.append({"name": f"random{i}", "spec": spec, "shared": shared,
                      "options": [rng.choice(ALL_OPTS), rng.choice([O_FULL, O_TMPL, O_SW])]})
    return items


# ---------------------------------------------------------------------------------- user-defined classes (part 5)
U_OPS = {"E": METHS, "V": ["validate"], "C": ["keys"], "X": ["explain"], "VX": ["validate", "explain"]}
U_ROOT = {"E": "Evaluatable", "V": "Validatable", "C": "Cacheable", "X": "Explainable", "VX": "Effect"}


def user_family():
    """The directed family of user-defined node class shapes (recipes, see u_build): for every hook-bearing
    base and every operation, each way the implementation can reach the class. Independent of the seed.
    `expect`: operation -> the function the class designates (first definition along the MRO);
    `oracle: False`: shape kept out of the violation oracle (observed and reported in the evidence)."""
    fam = []

    def K(name, bases, defs, **kw):
        return dict({"name": name, "bases": bases, "defs": defs if isinstance(defs, dict) else {op: None for op in defs}}, **kw)

    def add(rid, kind, source, classes, expect, **kw):
        plain = [op for op, t in expect.items()
                 if all(c["defs"].get(op) is None for c in classes if f"{c['name']}.{op}" == t)]
        fam.append(dict({"id": rid, "kind": kind, "source": source, "classes": classes, "node": len(classes) - 1,
                         "expect": expect, "plainvals": plain, "ctor": ["plain"], "oracle": True}, **kw))
    for kind, ops in U_OPS.items():
        R = U_ROOT[kind]
        tr = {"transform": True} if kind == "VX" else {}
        add(f"{kind}.body", kind, "body", [K("Node", [R], ops, **tr)], {op: f"Node.{op}" for op in ops})
        for m in ops:
            rest = [op for op in ops if op != m]
            add(f"{kind}.mixin_before.{m}", kind, "mixin_before",
                [K("Mix", [], [m]), K("Node", [0, R], rest, **tr)],
                dict({op: f"Node.{op}" for op in rest}, **{m: f"Mix.{m}"}))
            add(f"{kind}.parent.{m}", kind, "parent",
                [K("P", [R], [m], **tr), K("Node", [0], rest)],
                dict({op: f"Node.{op}" for op in rest}, **{m: f"P.{m}"}))
            add(f"{kind}.override.{m}", kind, "override",
                [K("P", [R], ops, **tr), K("Mid", [0], []), K("Node", [1], [m])],
                dict({op: f"P.{op}" for op in rest}, **{m: f"Node.{m}"}))
            add(f"{kind}.override_chain_slot.{m}", kind, "override_chain_slot",
                [K("P", [R], ops, **tr), K("Node", [0], {m: ["slot", 0]})],
                dict({op: f"P.{op}" for op in rest}, **{m: f"Node.{m}"}), chained={m: [f"P.{m}"]})
            add(f"{kind}.mixin_before_parent.{m}", kind, "mixin_before_parent",
                [K("P", [R], ops, **tr), K("Mix", [], [m]), K("Node", [1, 0], [])],
                dict({op: f"P.{op}" for op in rest}, **{m: f"Mix.{m}"}))
            add(f"{kind}.override_chain_super.{m}", kind, "override_chain_super",
                [K("P", [R], ops, **tr), K("Node", [0], {m: ["super"]})],
                dict({op: f"P.{op}" for op in rest}, **{m: f"Node.{m}"}), oracle=False, observe_ops=[m],
                note="super().m(options) in an override re-enters the request dispatch of the same object")
            add(f"{kind}.setattr_after.{m}", kind, "setattr_after",
                [K("Node", [R], ops, **tr)], {op: f"Node.{op}" for op in ops}, post=[["setattr", 0, m]],
                oracle=False, observe_ops=[m],
                note="assignment after class creation (mutating class decorator): the hooks only run at class creation")
            if kind in ("E", "VX"):
                add(f"{kind}.mixin_after.{m}", kind, "mixin_after_shadowed",
                    [K("Mix", [], [m]), K("Node", [R, 0], rest, **tr)],
                    {op: f"Node.{op}" for op in rest}, oracle=False, observe_ops=[m],
                    note="a mixin listed after the labrea base is shadowed by the base's abstract method")
    # a mixin listed after one labrea base and before the one that hooks the method (MRO makes it reachable)
    for m, first, last, other in [("validate", "Explainable", "Validatable", "explain"),
                                  ("keys", "Validatable", "Cacheable", "validate"),
                                  ("explain", "Cacheable", "Explainable", "keys")]:
        add(f"multi.mixin_after.{m}", "multi", "mixin_after",
            [K("Mix", [], [m]), K("Node", [first, 0, last], [other])], {m: f"Mix.{m}", other: f"Node.{other}"})
    # combinations: some operations from mixins, others from the body / a parent
    e, v, k, x = METHS
    own = lambda ops, who="Node": {op: f"{who}.{op}" for op in ops}      # noqa: E731
    add("E.mix.all_from_one_mixin", "E", "mixed", [K("Mix", [], METHS), K("Node", [0, "Evaluatable"], [])], own(METHS, "Mix"))
    add("E.mix.keys_explain_from_mixin", "E", "mixed", [K("Mix", [], [k, x]), K("Node", [0, "Evaluatable"], [e, v])],
        dict(own([e, v]), **own([k, x], "Mix")))
    add("E.mix.all_but_evaluate_from_mixin", "E", "mixed", [K("Mix", [], [v, k, x]), K("Node", [0, "Evaluatable"], [e])],
        dict(own([e]), **own([v, k, x], "Mix")))
    add("E.mix.two_mixins", "E", "mixed", [K("MixA", [], [e, v]), K("MixB", [], [k, x]), K("Node", [0, 1, "Evaluatable"], [])],
        dict(own([e, v], "MixA"), **own([k, x], "MixB")))
    add("E.mix.mixin_subclass", "E", "mixed", [K("MixA", [], [e]), K("MixB", [0], [k]), K("Node", [1, "Evaluatable"], [v, x])],
        dict(own([v, x]), **{e: "MixA.evaluate", k: "MixB.keys"}))
    add("E.mix.body_shadows_mixin", "E", "mixed", [K("Mix", [], [e, k]), K("Node", [0, "Evaluatable"], METHS)], own(METHS))
    add("E.mix.parent_built_on_mixin", "E", "mixed", [K("Mix", [], [e]), K("P", [0, "Evaluatable"], [v, k, x]), K("Node", [1], [])],
        dict(own([v, k, x], "P"), **{e: "Mix.evaluate"}))
    add("E.mix.parent_built_on_mixin_override", "E", "mixed",
        [K("Mix", [], [e, k]), K("P", [0, "Evaluatable"], [v, x]), K("Node", [1], [e])],
        dict(own([v, x], "P"), **{e: "Node.evaluate", k: "Mix.keys"}))
    add("E.mix.diamond", "E", "mixed", [K("P", ["Evaluatable"], METHS), K("A", [0], [e]), K("B", [0], [k]), K("Node", [1, 2], [])],
        {e: "A.evaluate", k: "B.keys", v: "P.validate", x: "P.explain"})
    # subclasses of built-in node classes overriding one operation
    for B in ("Option", "Switch", "WithOptions"):
        for m in METHS:
            add(f"{B}.override.{m}", "builtin", "builtin_override", [K("Node", [B], [m])], {m: f"Node.{m}"}, ctor=[B])
    add("Cached.override.evaluate", "builtin", "builtin_override", [K("Node", ["Cached"], [e])], own([e]), ctor=["Cached"])
    add("Logged.override.explain", "builtin", "builtin_override", [K("Node", ["Logged"], [x])], own([x]), ctor=["Logged"])
    add("Value.override.keys", "builtin", "builtin_override", [K("Node", ["Value"], [k])], own([k]), ctor=["Value"])
    add("Option.mixin_before.evaluate", "builtin", "builtin_mixin_before", [K("Mix", [], [e]), K("Node", [0, "Option"], [])],
        own([e], "Mix"), ctor=["Option"])
    add("Switch.mixin_before.keys", "builtin", "builtin_mixin_before", [K("Mix", [], [k]), K("Node", [0, "Switch"], [])],
        own([k], "Mix"), ctor=["Switch"])
    add("WithOptions.mixin_before.validate_explain", "builtin", "builtin_mixin_before",
        [K("Mix", [], [v, x]), K("Node", [0, "WithOptions"], [])], own([v, x], "Mix"), ctor=["WithOptions"])
    add("Option.override_chain_slot.evaluate", "builtin", "builtin_override_chain_slot",
        [K("Node", ["Option"], {e: ["slot", "Option"]})], own([e]), ctor=["Option"])
    add("Option.override_chain_super.evaluate", "builtin", "override_chain_super",
        [K("Node", ["Option"], {e: ["super"]})], own([e]), ctor=["Option"], oracle=False, observe_ops=[e],
        note="super().m(options) in an override re-enters the request dispatch of the same object")
    return fam


def user_contexts(kind, every_combinator):
    """Graphs around the user-defined node `["unode"]`: alone, dependency of datasets, inside the combinators."""
    N = ["unode"]
    DS = lambda f, deps, **fl: ["ds", f, deps, fl]      # noqa: E731
    if kind in ("V", "C", "X", "multi"):
        return {"alone": N}
    if kind == "VX":
        return {"alone": N, "dataset_effect": DS("first", [["optd", "A", 1]], effect_dep=N)}
    comb = {
        "apply": ["apply", N, "ident"],
        "bind": ["bind", ["optd", "A", 0], [N, ["val", "v"]]],
        "iter": ["iter", [N, ["val", 2]]],
        "list": ["list", [N, N]],
        "coalesce": ["coalesce", [["opt", "MISSING"], N, ["val", "last"]]],
        "switch": ["switch", ["optd", "K", "k1"], {"k1": N, "k2": ["val", "two"]}, N],
        "case": ["case", ["optd", "A", 1], [["pos", N]], N],
        "template": ["tmpl", "x{:p:}y", {"p": N}],
        "with_options": ["with", N, {"A": 10}, True],
        "cached": ["cached", N],
        "logged": ["logged", N, 1],
        "function_application": ["fa", "tup", [N, ["pa", "tup", [N]]]],
        "map": ["map", N, {"A": ["val", [1, 2]]}],
        "pipeline": ["pipe", N, [["ident", []], ["tup", [N]]]],
        "overloaded": ["overloaded", ["optd", "MODE", "none"], {"alt": N}, N],
        "option_default": ["optd", "MISSING", N],
        "dataset_effect": DS("first", [["val", 1]], effect_dep=["step", "ident", [N]]),
    }
    out = {"alone": N,
           "datasets": DS("tup", [DS("first", [N]), N, ["optd", "B", "b"]]),      # direct and indirect dependency, shared
           "combinators": ["dict", comb]}
    if every_combinator:
        out["dataset"] = DS("tup", [N, ["optd", "B", "b"]])
        out.update({"in_" + k: v for k, v in comb.items()})
    return out


def user_items(ctx):
    """Recording cases of the family: quick = one option dictionary per (shape, context), rotating with the
    seed; thorough = every option dictionary and every combinator also on its own."""
    items, n = [], 0
    for r in user_family():
        if not r["oracle"]:
            continue
        for cname, spec in user_contexts(r["kind"], ctx.tier == "thorough").items():
            opts = ALL_OPTS if ctx.tier == "thorough" else [ALL_OPTS[(ctx.seed + n) % len(ALL_OPTS)]]
            items.append({"name": f"ufam:{r['id']}:{cname}", "spec": spec, "ushape": r, "options": opts})
            n += 1
    return items


def user_subst_cases(ctx, shapes):
    cases, ucases, n = [], [], 0
    others = [s for s in shapes if s not in ("direct_arg", "two_levels_shared")]
    fam = user_family()
    for r in fam:
        if not r["oracle"]:
            continue
        ucases.append({"recipe": r, "options": S_OPTIONS[(ctx.seed + n) % len(S_OPTIONS)]})
        if r["kind"] in ("E", "builtin"):
            mine = ["alone", "direct_arg", "two_levels_shared"]
            mine += others if ctx.tier == "thorough" else [others[(ctx.seed + n * 2 + j) % len(others)] for j in range(2)]
            for sname in dict.fromkeys(mine):
                for o in (S_OPTIONS if ctx.tier == "thorough" else [S_OPTIONS[(ctx.seed + n) % len(S_OPTIONS)]]):
                    cases.append({"shape": sname, "options": o, "dep": r})
                    n += 1
        n += 1
    uobserve = [{"recipe": r, "options": S_OPTIONS[0]} for r in fam if not r["oracle"]]
    return cases, ucases, uobserve


# ---------------------------------------------------------------------------------- chains (part 2)
def chain_corpus(info):
    idof = {c["full"]: c["id"] for c in info["classes"]}
    E, V, C, X = (idof.get("labrea.types." + n) for n in ("Evaluatable", "Validatable", "Cacheable", "Explainable"))
    VAL, OPT, EFF = idof.get("labrea.types.Value"), idof.get("labrea.option.Option"), idof.get("labrea.computation.Effect")
    META = idof.get("labrea.datasetclass._DatasetClassMeta")
    fixed = [
        f"T:{E}|d,d,d,d,0000",
        f"T:{E}|d,-,-,-,0000",
        f"T:{E}|-,-,-,-,0000",
        f"T:{E}|d,d,d,d,0000|d,-,-,-,0000|-,-,-,-,0000|a1.e,-,-,-,0000|-,d,-,-,0000",
        f"T:{E}|d,d,d,d,0000|d,-,-,-,0000|a0.e,-,-,-,0000",                 # override, then alias back to the grandparent
        f"T:{E}|t{VAL}.e,t{VAL}.v,t{VAL}.k,t{VAL}.x,0000",                    # wrappers of an unrelated class
        f"T:{E}|d,d,d,d,0000|f1,-,-,-,0000|d,-,-,-,0000",                    # hand-set marker
        f"T:{E}|d,d,d,d,0000|-,a0.k,-,-,0000",                               # wrapper of another method
        f"T:{V}|-,-,-,-,0100",                                               # slot-only subclass of a root
        f"T:{E}|d,d,d,d,0000|-,-,-,-,1000",                                  # slot def below a wrapped class
        f"T:{E}|d,d,d,d,1111",                                               # def and slot in one body
        f"T:{E}|d,d,d,d,0000|a0.e,-,-,-,1000",                               # alias and slot in one body
        f"T:{E}|p1,p1,p2,d,0000|p1,-,-,-,0000",                              # plain outside functions
        f"M:{V},{X}|-,-,-,-,0000|-,d,-,d,0000|-,-,-,a1.x,0000",              # Effect-like
        f"T:{EFF}|-,d,-,d,0000|-,d,-,-,0000",
        f"T:{V}|-,-,t{VAL}.k,-,0000",                                        # wrapper of a method nobody hooks here
        f"T:{C}|-,-,d,-,0000|-,-,b.k,-,0000",
        f"T:{X}|-,-,-,-,0000|-,-,-,d,0001",
        f"T:{VAL}|-,-,-,-,0000|d,-,-,-,0000|b.e,-,-,-,0000",
        f"T:{OPT}|-,d,-,-,0000|t{VAL}.e,-,-,-,0000",
        f"T:{META}|d,-,-,-,0000|-,-,-,-,0000",
        f"T:{E}|b.e,-,-,-,0000|d,-,-,-,0000",                                # Evaluatable.evaluate is the raw abstract method
        f"T:{E}|-,b.v,-,-,0000|-,d,-,-,0000|-,a0.v,-,-,0000",
    ]
    # exhaustive: every 2-body chain over Evaluatable for `evaluate` with a small token alphabet
    alpha1 = ["-", "d", "f1", "p1", "b.e", f"t{VAL}.e"]
    for t0 in alpha1:
        for s0 in "01":
            fixed.append(f"T:{E}|{t0},d,d,d,{s0}000")
            for t1 in ["-", "d", "a0.e", "f1", f"t{VAL}.e"]:
                for s1 in "01":
                    fixed.append(f"T:{E}|{t0},d,d,d,{s0}000|{t1},-,-,-,{s1}000")
    # ---- plain mixin classes in the bases (tokens m<j> = listed before the parent, n<j> = listed after it)
    fixed += [
        f"T:{E}|m1,d,d,d,0000",                                              # class Table(ReadsTable, Evaluatable)
        f"T:{E}|d,m1,m1,m2,0000",
        f"T:{E}|m1,m1,m1,m1,0000",                                           # everything from one mixin
        f"T:{E}|d,d,d,d,0000|m1,-,-,-,0000",                                 # mixin before a user-defined subclass
        f"T:{E}|d,d,d,d,0000|m1,-,m2,-,0000|-,-,-,-,0000|d,-,-,-,0000",
        f"T:{E}|m1,d,d,d,0000|-,-,-,-,0000|a0.e,-,-,-,0000",
        f"T:{E}|m1,d,d,d,0000|d,-,-,-,0000|a0.e,-,-,-,0000",                 # alias back across an override
        f"T:{E}|m1,d,d,d,1000",                                              # def __labrea_evaluate__ and a mixin evaluate
        f"T:{E}|n1,d,d,d,0000",                                              # after the base: shadowed by the abstract method
        f"T:{E}|d,d,d,d,0000|n1,n1,-,-,0000",
        f"T:{E}|d,d,d,d,0000|n1,m2,-,-,0000|-,-,-,-,0000",
        f"T:{V}|-,m1,-,-,0000", f"T:{C}|-,-,m1,-,0000", f"T:{X}|-,-,-,m1,0000",
        f"T:{V}|-,-,m1,-,0000",                                              # a mixin method nobody hooks here
        f"M:{V},{X}|-,m1,-,m2,0000|-,-,-,d,0000",
        f"T:{EFF}|-,m1,-,d,0000|-,-,-,m2,0000",
        f"T:{OPT}|m1,-,-,-,0000", f"T:{OPT}|-,m1,-,-,0000", f"T:{OPT}|-,-,m1,-,0000", f"T:{OPT}|-,-,-,m1,0000",
        f"T:{VAL}|-,-,m1,-,0000|m2,-,-,-,0000",
    ]
    for t0 in ["-", "d", "m1", "n1"]:
        for t1 in ["-", "d", "m2", "n2", "a0.e"]:
            if (t0 + t1).count("m") + (t0 + t1).count("n"):
                fixed.append(f"T:{E}|{t0},d,d,d,0000|{t1},-,-,-,0000")
    return fixed, {"E": E, "V": V, "C": C, "X": X, "VAL": VAL, "OPT": OPT, "EFF": EFF, "META": META}


def chain_to_model(spec):
    """The chain as the Hook model sees it. The model has no mixin classes; what the hooks look at is the
    first own-dict entry along the MRO of the class being created, so
      m<j> (function j found on a plain mixin listed before the parent)  =  p<j> (function j bound in the body),
      n<j> (mixin listed after a parent that defines the method: unreachable)  =  - (absent).
    n tokens are only generated below Evaluatable, where all four names are defined by the bases."""
    parts = spec.split("|")
    out = [parts[0]]
    for b in parts[1:]:
        toks = b.split(",")
        out.append(",".join([("p" + t[1:]) if t[:1] == "m" else ("-" if t[:1] == "n" else t) for t in toks[:4]] + toks[4:]))
    return "|".join(out)


def random_mixin_chain(rng, info, ids):
    """Random chains with mixin tokens (own random stream: the chains of random_chain are unchanged)."""
    below_e = [c["id"] for c in info["classes"] if c["root"] is None and c["id"] != ids["META"] and c["parents"] == [ids["E"]]]
    r = rng.random()
    if r < 0.5:
        base, after_ok = f"T:{ids['E']}", True
    elif r < 0.7:
        base, after_ok = f"T:{rng.choice(below_e)}", True
    elif r < 0.85:
        base, after_ok = f"T:{rng.choice([ids['V'], ids['C'], ids['X'], ids['EFF']])}", False
    else:
        base, after_ok = "M:" + ",".join(str(x) for x in rng.sample([ids["V"], ids["C"], ids["X"]], 2)), False
    bodies = []
    for i in range(rng.randint(1, 4)):
        toks = []
        for m in METHS:
            r = rng.random()
            if r < 0.3:
                t = "-"
            elif r < 0.55:
                t = "d"
            elif r < 0.8:
                t = f"m{rng.randint(3, 4)}"
            elif r < 0.88 and after_ok:
                t = f"n{rng.randint(5, 6)}"
            elif r < 0.94 and i > 0:
                t = f"a{rng.randrange(i)}.{ML[m]}"
            else:
                t = f"p{rng.randint(1, 2)}"
            toks.append(t)
        flags = "".join("1" if rng.random() < 0.05 else "0" for _ in METHS)
        bodies.append(",".join(toks + [flags]))
    return base + "|" + "|".join(bodies)


def random_chain(rng, info, ids):
    concrete = [c["id"] for c in info["classes"] if c["root"] is None and c["id"] != ids["META"]]
    r = rng.random()
    if r < 0.45:
        base = f"T:{ids['E']}"
    elif r < 0.6:
        base = f"T:{rng.choice([ids['V'], ids['C'], ids['X']])}"
    elif r < 0.7:
        base = "M:" + ",".join(str(x) for x in rng.sample([ids["V"], ids["C"], ids["X"]], 2))
    else:
        base = f"T:{rng.choice(concrete)}"
    depth = rng.randint(1, 5)
    bodies = []
    for i in range(depth):
        toks = []
        for m in METHS:
            r = rng.random()
            if r < 0.35:
                t = "-"
            elif r < 0.7:
                t = "d"
            elif r < 0.8 and i > 0:
                t = f"a{rng.randrange(i)}.{ML[m] if rng.random() < 0.85 else rng.choice('evkx')}"
            elif r < 0.85 and base.startswith("T:"):
                t = f"b.{ML[m]}"
            elif r < 0.9:
                t = f"t{rng.choice(concrete)}.{ML[m] if rng.random() < 0.85 else rng.choice('evkx')}"
            elif r < 0.95:
                t = f"f{rng.randint(1, 2)}"
            else:
                t = f"p{rng.randint(1, 2)}"
            toks.append(t)
        flags = "".join("1" if rng.random() < 0.1 else "0" for _ in METHS)
        bodies.append(",".join(toks + [flags]))
    return base + "|" + "|".join(bodies)


def simple_chain_expectation(spec):
    """Model-independent oracle for chains that only use `-`, `d` and mixin tokens (no slots, no aliases)
    for a method: the function that runs is the most-derived `def` / mixin function listed before the
    parent, through exactly one request. (Applied to hooked methods only: there a mixin listed after the
    parent is shadowed by the parent's definition.)"""
    parts = spec.split("|")
    bodies = [b.split(",") for b in parts[1:]]
    exp = []
    for i in range(len(bodies)):
        row = {}
        for j, m in enumerate(METHS):
            col = [b[j] for b in bodies[: i + 1]]
            flags = [b[4][j] for b in bodies[: i + 1]]
            defs = [k for k, t in enumerate(col) if t == "d" or t[:1] == "m"]
            if all(t in ("-", "d") or t[:1] in "mn" for t in col) and all(f == "0" for f in flags) and defs:
                last = max(defs)
                row[m] = f"u{1000 + last}.{ML[m]}" if col[last] == "d" else "x" + col[last][1:]
        exp.append(row)
    return exp


def compare_chains(specs, worker_results, model_lines, use_model):
    findings, stats = [], {"classes": 0, "ok1": 0, "ok0": 0, "errors": 0, "oracle_checks": 0}
    for idx, res in enumerate(worker_results):
        spec = res["spec"]
        if res.get("error"):
            stats["errors"] += 1
            findings.append(Finding("correspondence", f"synthetic chain could not be created: {res['error']}", {"part": 2, "chain": spec}))
            continue
        impl_line = "|".join(";".join(cols) for cols in res["obs"])
        if not res.get("rehook_same", True):
            findings.append(Finding("failing-input", "re-running the __init_subclass__ hooks on an existing class changed its behaviour",
                                    {"part": 2, "chain": spec}))
        exp = simple_chain_expectation(spec)
        for i, cols in enumerate(res["obs"]):
            stats["classes"] += 1
            for j, m in enumerate(METHS):
                f = cols[j].split(":", 1)[1].split(",")
                hk, attr, slot, req, ran = f
                if m in exp[i] and hk == "1":
                    stats["oracle_checks"] += 1
                    if req != ML[m] or ran != exp[i][m]:
                        findings.append(Finding(
                            "failing-input",
                            f"class {i} of a def/mixin-only subclass chain: calling {m} issued requests [{req}] and ran {ran}; "
                            f"expected one {m} request and the most-derived def {exp[i][m]}",
                            {"part": 2, "chain": spec, "class": i, "method": m}))
        if use_model:
            ml_ = model_lines[idx] if idx < len(model_lines) else "ERR missing"
            # strip the model-only columns (ok, intended) for the comparison
            stripped = []
            for cl in ml_.split("|") if not ml_.startswith("ERR") else []:
                cs = []
                for col in cl.split(";"):
                    head, rest = col.split(":", 1)
                    f = rest.split(",")
                    cs.append(head + ":" + ",".join(f[:5]))
                    if f[5] == "1":
                        stats["ok1"] += 1
                    elif f[5] == "0":
                        stats["ok0"] += 1
                stripped.append(";".join(cs))
            model_line = "|".join(stripped) if not ml_.startswith("ERR") else ml_
            if model_line != impl_line:
                findings.append(Finding("correspondence", "Hook model and real class creation disagree on a synthetic subclass chain",
                                        {"part": 2, "chain": spec, "model": model_line, "impl": impl_line}))
    return findings, stats


def shrink_chain(spec, still_fails):
    parts = spec.split("|")
    base, bodies = parts[0], parts[1:]
    changed = True
    budget = 25
    while changed and budget > 0:
        changed = False
        for i in range(len(bodies) - 1, -1, -1):
            cand = bodies[:i] + bodies[i + 1:]
            if not cand or any((f"a{j}." in b) for b in cand for j in range(i, len(bodies))):
                continue
            budget -= 1
            if budget <= 0:
                break
            if still_fails(base + "|" + "|".join(cand)):
                bodies = cand
                changed = True
                break
    return base + "|" + "|".join(bodies)


# ---------------------------------------------------------------------------------- entry points (part 6)
EP_RANDOM_ROWS = ["Evaluatable.__call__", "Evaluatable.__call__:noopts", "Evaluatable.__rshift__", "Evaluatable.__rshift__:step",
                  "Evaluatable.apply", "Evaluatable.apply:step", "Evaluatable.bind", "Evaluatable.result", "Evaluatable.fingerprint",
                  "Evaluatable.ensure"]
EP_PIPE_ROWS = ["Transformation.transform", "Transformation.transform:noopts", "Transformation.transform:None", "Transformation.transform:kw",
                "PipelineStep.__add__:step", "PipelineStep.__add__:function", "PipelineStep.__add__:transform", "Pipeline.__add__:step",
                "Pipeline.__add__:function", "Pipeline.__add__:pipeline", "Pipeline.__iter__", "Evaluatable.__call__",
                "Evaluatable.__rshift__:step", "Evaluatable.apply"]


def entrypoint_job(ctx):
    """The worker job of part 6. The directed family (every row of the table on every subject it applies to) is
    the same in every run; the seed rotates the option dictionaries of the quick tier and draws the random
    graphs / pipelines the inherited entry points are also called on (own random stream)."""
    rng = random.Random(ctx.seed * 104729 + 618)
    n = 400 if ctx.tier == "thorough" else 40
    items = []
    for i in range(n):
        nshared = rng.randint(0, 2)
        shared = [rand_graph(rng, 2, 0) for _ in range(nshared)]
        items.append({"name": f"random{i}", "spec": rand_graph(rng, rng.randint(1, 3), nshared), "shared": shared,
                      "rows": rng.sample(EP_RANDOM_ROWS, 3), "options": rng.choice(ALL_OPTS + EP_OPTIONS)})
    for i in range(n // 2):
        pipe = []
        for j in range(rng.randint(1, 4)):
            if rng.random() < 0.2:
                pipe.append(["fn", rng.choice(["ident", "str"])])
            else:
                pipe.append(["step", f"st{j}", rng.choice(["FACTOR", "B", "K", "A", "MISSING"]), rng.choice([0, "d", [1]]),
                             rng.random() < 0.25])
        items.append({"name": f"randpipe{i}", "pipe": pipe, "rows": rng.sample(EP_PIPE_ROWS, 5), "options": rng.choice(EP_OPTIONS)})
    return {"job": "entrypoints", "tier": ctx.tier, "seed": ctx.seed, "random": items}


def part6(ctx, future):
    res = future.result()
    if res.get("harness_error") or res.get("worker_error"):
        raise Infra(f"entry-point table could not be run: {res.get('harness_error') or res.get('worker_error')}")
    unknown = sorted(set(EP_RANDOM_ROWS + EP_PIPE_ROWS) - set(res["rows"]))
    if unknown:
        raise Infra(f"EP_RANDOM_ROWS / EP_PIPE_ROWS name rows the table does not have: {unknown}")
    findings, per_row_seen = [], {}
    for p in res["problems"]:
        k = (p["case"]["row"], p["case"]["mode"] == "pass-through")
        per_row_seen[k] = per_row_seen.get(k, 0) + 1
        if per_row_seen[k] > 2:
            continue            # two findings per (row, kind of handler) are enough for the report
        findings.append(Finding("failing-input", p["what"], {"part": 6, "case": p["case"]}))
    cov = {"entry_points": {
        "what": "every public member of every node class (reflection: names not starting with `_`, plus __call__, __rshift__, "
                "__add__, __iter__) and the helper constructors of the package / labrea.functions, each compared with its direct "
                "form (only evaluate/validate/keys/explain called on nodes, node constructors, plain Python): (a) the request "
                "sequence under pass-through handlers for all request types, (b) result and request sequence under an "
                "EvaluateRequest handler that substitutes a value for the node / one of its dependencies",
        "rows": len(res["table"]), "subjects": res["subjects"], "classes_with_subject": res["classes_with_subject"],
        "cases": res["cases"], "substitution_cases": res["subst_cases"], "requests_compared": res["requests_compared"],
        "nontrivial_cases": res["nontrivial_cases"], "problems": len(res["problems"]),
        "table": res["table"], "members": res["members"], "uncovered_members": res["uncovered_members"],
        "members_inherited_from": res["inherited_from"], "abstract_classes_without_subject": res["abstract_classes"],
        "package_callables": res["package_callables"], "functions_helpers_without_arguments_in_the_table": res["functions_untabled"],
        "functions_helpers_never_evaluated_successfully": res["functions_never_ok"],
        "known_bypasses_kept_out_of_the_oracle": res["known_bypasses"], "observed_only_by_design": res["by_design"],
        "observed_only": res["observed_only"],
    }}
    return findings, cov, res



# ---------------------------------------------------------------------------------- the check
def part1(info, use_model):
    findings, cov = [], {}
    res = run_worker({"job": "reflect", "info": info})
    if "worker_error" in res:
        raise Infra(res["worker_error"])
    for p in res["problems"]:
        findings.append(Finding(p["kind"], p["what"], p.get("payload", {"part": 1})))
    cov = {"classes_reflected": res["classes"], "hooked_method_checks": res["checks"]}
    if use_model:
        lines = run_driver("drv_hook", [], args=["table"])
        model = {}
        for l in lines:
            if l.startswith("ERR"):
                findings.append(Finding("translator", "class table: " + l, {"part": 1}))
                continue
            model[l.split(" ", 1)[0]] = l
        for cid, impl in res["lines"].items():
            if model.get(cid) != impl:
                findings.append(Finding("correspondence", f"class table/Hook model and the imported package disagree on class {impl.split(' ')[1]}",
                                        {"part": 1, "model": model.get(cid), "impl": impl}))
        for cid in model:
            if cid not in res["lines"]:
                findings.append(Finding("correspondence", f"table class {model[cid].split(' ')[1]} not found at run time", {"part": 1}))
        cov["table_lines_compared"] = len(res["lines"])
        cov["sample_table_line"] = next(iter(res["lines"].values()), "")
    return findings, cov


def part2(ctx, info, rng, n_random, use_model):
    fixed, ids = chain_corpus(info)
    specs = list(fixed) + [random_chain(rng, info, ids) for _ in range(n_random)]
    rng_mix = random.Random(ctx.seed * 7919 + 18)
    specs += [random_mixin_chain(rng_mix, info, ids) for _ in range(max(20, n_random // 8))]
    res = run_worker({"job": "chains", "info": info, "chains": specs})["results"]
    norm = [r["spec"] for r in res]
    model_lines = run_driver("drv_hook", [chain_to_model(s) for s in norm]) if use_model else []
    findings, stats = compare_chains(norm, res, model_lines, use_model)
    # shrink the first disagreement of each kind
    done = set()
    for f in findings:
        if f.payload.get("part") == 2 and f.kind not in done and "chain" in f.payload:
            done.add(f.kind)
            kind = f.kind

            def still(spec, kind=kind):
                r = run_worker({"job": "chains", "info": info, "chains": [spec]})["results"]
                ml_ = run_driver("drv_hook", [chain_to_model(r[0]["spec"])]) if use_model else []
                fs, _ = compare_chains([r[0]["spec"]], r, ml_, use_model)
                return any(x.kind == kind for x in fs)
            try:
                small = shrink_chain(f.payload["chain"], still)
                if small != f.payload["chain"]:
                    f.payload["original_chain"] = f.payload["chain"]
                    f.payload["chain"] = small
            except Infra:
                pass
    hist = {}
    for s in norm:
        for b in s.split("|")[1:]:
            for t in b.split(",")[:4]:
                k = t[0] if t[0] in "-dpfabtmn" else "?"
                hist[k] = hist.get(k, 0) + 1
    nontrivial = len({s for s in norm if any(t[0] in "pfabtmn" or fl != "0000" for b in s.split("|")[1:]
                                             for t, fl in [(x, b.split(",")[4]) for x in b.split(",")[:4]])})
    cov = {"chains": len(norm), "chains_nontrivial": nontrivial, "chain_classes": stats["classes"],
           "chains_with_mixin_bases": sum(1 for s in norm if any(t[:1] in "mn" for b in s.split("|")[1:] for t in b.split(",")[:4])),
           "chain_token_histogram": hist, "chain_methods_premises_hold": stats["ok1"],
           "chain_methods_premises_fail": stats["ok0"], "chain_oracle_checks": stats["oracle_checks"],
           "chain_samples": norm[3:6]}
    return findings, cov


def family_jobs(ctx):
    """The two worker jobs of the user-defined class family (part 5); they are independent of the other
    parts and run in their own worker processes, concurrently with parts 1-4."""
    shapes = sorted(S_SHAPE_NAMES)
    ucs, ucases, uobserve = user_subst_cases(ctx, shapes)
    return ({"job": "graphs", "items": user_items(ctx)},
            {"job": "subst", "cases": ucs, "ucases": ucases, "uobserve": uobserve})


def part3(ctx, rng, n_random, family):
    uitems = family[0]["items"]
    items = fixed_corpus() + random_items(rng, n_random)
    findings = []
    res = run_worker({"job": "graphs", "items": items})["cases"] + family[2].result()["cases"]
    items = items + uitems
    byname = {it["name"]: it for it in items}
    kinds, classes, outcomes = {}, set(), {}
    ncases = 0
    distinct = set()
    ufam = {}
    for r in res:
        ncases += 1
        if r.get("harness_error"):
            raise Infra(f"graph corpus item {r['name']} could not be run: {r['harness_error']}")
        st = r["stats"]
        if byname[r["name"]].get("ushape") is not None:
            u = ufam.setdefault(byname[r["name"]]["ushape"]["id"], {"record_cases": 0, "operations_routed": 0, "contexts_reaching_node": 0,
                                                                     "outcomes": {}})
            u["record_cases"] += 1
            u["operations_routed"] += sum((st.get("u_execs") or {}).values())
            u["contexts_reaching_node"] += 1 if st.get("u_execs") else 0
            for o in st.get("outcomes", []):
                u["outcomes"][o] = u["outcomes"].get(o, 0) + 1
        for k, v in st.get("kinds", {}).items():
            kinds[k] = kinds.get(k, 0) + v
        classes.update(st.get("classes", []))
        for o in st.get("outcomes", []):
            outcomes[o] = outcomes.get(o, 0) + 1
        if st.get("requests", 0) >= 5:
            distinct.add(json.dumps([byname[r["name"]].get("spec", r["name"]), r["options"]], sort_keys=True))
        if r["problems"]:
            it = dict(byname[r["name"]])
            it["options"] = [r["options"]]
            findings.append(Finding("failing-input", f"graph {r['name']}: " + r["problems"][0],
                                    {"part": 3, "item": it, "all_problems": r["problems"][:6]}))
    ic = run_worker({"job": "intercept"})
    for p in ic["problems"]:
        findings.append(Finding("failing-input", p["what"], p["payload"]))
    # shrink random graphs (replace sub-trees by constants) for the first finding
    for f in findings[:1]:
        it = f.payload.get("item")
        if it and "spec" in it and it["name"].startswith(("random", "ufam:")):
            f.payload["item"] = shrink_graph(it)
    cov = {"graph_cases": ncases, "graphs": len(items), "graph_cases_nontrivial": len(distinct), "user_family_record": ufam,
           "request_kinds_seen": kinds, "node_classes_executed": sorted(classes), "outcomes": outcomes,
           "intercept_checks": ic["checks"]}
    return findings, cov


def shrink_graph(item):
    def fails(it):
        r = run_worker({"job": "graphs", "items": [it]})["cases"]
        return any(c["problems"] for c in r)

    def subtrees(s, path=()):
        if isinstance(s, list):
            if s and isinstance(s[0], str) and s[0] in SPEC_KINDS and path:
                yield path
            for i, x in enumerate(s):
                yield from subtrees(x, path + (i,))
        elif isinstance(s, dict):
            for k, x in s.items():
                yield from subtrees(x, path + (k,))

    def replace(s, path, new):
        if not path:
            return new
        if isinstance(s, list):
            return [replace(x, path[1:], new) if i == path[0] else x for i, x in enumerate(s)]
        return {k: (replace(x, path[1:], new) if k == path[0] else x) for k, x in s.items()}
    budget = 30
    cur = dict(item)
    changed = True
    while changed and budget > 0:
        changed = False
        for p in sorted(subtrees(cur["spec"]), key=len):
            budget -= 1
            if budget <= 0:
                break
            cand = dict(cur)
            cand["spec"] = replace(cur["spec"], p, ["val", 0])
            if cand["spec"] == cur["spec"]:
                continue
            try:
                if fails(cand):
                    cur = cand
                    changed = True
                    break
            except Infra:
                pass
    return cur


def part4(ctx, rng, n_random, family):
    shapes = sorted(S_SHAPE_NAMES)
    cases = [{"shape": s, "options": o} for s in shapes for o in S_OPTIONS]
    wrappable = [s for s in shapes if s not in ("switch_dispatch", "case_dispatch", "datasetclass_member", "map",
                                                 "map_values_nested", "iter", "pipeline")]
    for _ in range(n_random):
        cases.append({"shape": rng.choice(shapes), "wrap": rng.choice(wrappable), "options": rng.choice(S_OPTIONS)})
    recipes = {r["id"]: r for r in user_family()}
    out = run_worker({"job": "subst", "cases": cases})
    if out["shapes"] != shapes:
        raise Infra(f"S_SHAPE_NAMES is out of date: the worker builds {out['shapes']}")
    fam_out = family[3].result()
    out = {"cases": out["cases"] + fam_out["cases"], "ucases": fam_out["ucases"], "uobserve": fam_out["uobserve"]}
    res = out["cases"]
    findings = []
    dist = 0
    ufam = {}
    for r in res:
        if r.get("harness_error"):
            raise Infra(f"substitution case {r['shape']} could not be run: {r['harness_error']}")
        dist += 1 if r.get("distinguishes") else 0
        case = {"shape": r["shape"], "wrap": r.get("wrap"), "options": r["options"]}
        if r.get("dep"):
            case["dep"] = recipes[r["dep"]]
            u = ufam.setdefault(r["dep"], {"subst_cases": 0, "subst_op_checks": 0})
            u["subst_cases"] += 1
        if r["problems"]:
            findings.append(Finding("failing-input", f"substitution [{r['shape']}" + (f" inside {r['wrap']}" if r.get("wrap") else "") + "]: " + r["problems"][0],
                                    {"part": 4, "case": case}))
    for r in out["ucases"]:
        if r.get("harness_error"):
            raise Infra(f"substitution on the user-defined class shape {r['id']} could not be run: {r['harness_error']}")
        ufam.setdefault(r["id"], {"subst_cases": 0, "subst_op_checks": 0})["subst_op_checks"] += r["checks"]
        for pr in r["problems"][:1]:
            findings.append(Finding("failing-input", pr["what"], {"part": "4u", "ucase": {"recipe": recipes[r["id"]], "options": r["options"]},
                                                                  "all_problems": [x["what"] for x in r["problems"]][:8]}))
    observed = {r["id"]: dict(r["observed"], note=recipes[r["id"]].get("note")) for r in out["uobserve"]}
    cov = {"substitution_cases": len(res), "substitution_cases_where_value_matters": dist, "substitution_shapes": shapes,
           "user_family_subst": ufam, "user_family_observed_only": observed}
    return findings, cov


def run_all(ctx, use_model, scale=1.0):
    info, problems = translation()
    rng = random.Random(ctx.seed)
    big = 10 if ctx.tier == "thorough" else 1
    findings = [Finding("translator", p["what"], {k: v for k, v in p.items() if k != "what"}) for p in problems]
    coverage = {"translator_classes": len(info["classes"]), "translator_files": info["files"]}
    from concurrent.futures import ThreadPoolExecutor
    jobs = family_jobs(ctx)
    with ThreadPoolExecutor(3) as pool:
        family = jobs + tuple(pool.submit(run_worker, j) for j in jobs)
        ep_future = pool.submit(run_worker, entrypoint_job(ctx))
        f1, c1 = part1(info, use_model)
        f2, c2 = part2(ctx, info, rng, int(1500 * big * scale), use_model)
        f3, c3 = part3(ctx, rng, int(300 * big * scale), family)
        f4, c4 = part4(ctx, rng, int(80 * big * scale), family)
        f6, c6, r6 = part6(ctx, ep_future)
    for c in (c1, c2, c3, c4, c6):
        coverage.update(c)
    findings += f1 + f2 + f3 + f4 + f6
    # part 5: the user-defined class family, counts per shape
    fam = user_family()
    per_shape = {}
    for r in fam:
        d = {"kind": r["kind"], "source": r["source"], "in_oracle": r["oracle"]}
        d.update(coverage["user_family_record"].get(r["id"], {}))
        d.update(coverage["user_family_subst"].get(r["id"], {}))
        if not r["oracle"]:
            d["observed"] = coverage["user_family_observed_only"].get(r["id"])
        per_shape[r["id"]] = d
    by_source = {}
    for r in fam:
        by_source[r["source"]] = by_source.get(r["source"], 0) + 1
    for k in ("user_family_record", "user_family_subst", "user_family_observed_only"):
        coverage.pop(k, None)
    coverage["user_class_family"] = {
        "shapes": len(fam), "shapes_in_oracle": sum(1 for r in fam if r["oracle"]), "shapes_by_source": by_source,
        "record_cases": sum(d.get("record_cases", 0) for d in per_shape.values()),
        "subst_cases": sum(d.get("subst_cases", 0) for d in per_shape.values()),
        "subst_op_checks": sum(d.get("subst_op_checks", 0) for d in per_shape.values()),
        "operations_routed": sum(d.get("operations_routed", 0) for d in per_shape.values()),
        "per_shape": per_shape,
    }
    # the first finding of every part first (the check writes replay files for the first few findings)
    firsts, seen_parts = [], set()
    for f in findings:
        k = (f.kind, str(f.payload.get("part")))
        if k not in seen_parts:
            seen_parts.add(k)
            firsts.append(f)
    findings = firsts + [f for f in findings if not any(f is g for g in firsts)]
    for f in findings:
        if f.kind == "failing-input":
            f.known_id = classify(f.payload)
    evaluations = c2["chains"] + c3["graph_cases"] + c4["substitution_cases"] + c1["hooked_method_checks"] + r6["cases"] + r6["subst_cases"]
    coverage.update({
        "evaluations": evaluations,
        "distinct_nontrivial": c2["chains_nontrivial"] + c3["graph_cases_nontrivial"] + c4["substitution_cases_where_value_matters"]
        + r6["nontrivial_cases"],
        "rule": "chains: uses an alias/fake/outside function or a slot def; graphs: the recorded run issued >= 5 requests; "
                "substitution: the graph's result with the real dataset differs from the substituted one; entry points: "
                "(entry point, subject, options) whose direct form issues >= 3 requests under pass-through handlers",
        "programs": c2["chains"] + c3["graphs"] + len(c4["substitution_shapes"]) + len(fam) + r6["subjects"],
        "disagreements_checked": c2["chain_classes"] * 4 + c1.get("table_lines_compared", 0),
        "samples": c2["chain_samples"] + [c1.get("sample_table_line", "")],
        "distribution": {"chain_tokens": c2["chain_token_histogram"], "request_kinds": c3["request_kinds_seen"],
                         "graph_outcomes": c3["outcomes"], "node_classes": c3["node_classes_executed"]},
        "model_compared": use_model,
    })
    return Exploration(findings, coverage)


def classify(payload):
    """Known-finding trigger predicate (none registered for C18)."""
    kf = known_findings()
    for k in kf.get("known", []):
        if k.get("property") == "C18" and k.get("trigger") and k["trigger"] in json.dumps(payload):
            return k.get("id")
    return None


def explore(ctx):
    exp = run_all(ctx, use_model=True)
    # part 5 (coordinator): the core evaluator model predicts the request log of every operation and the
    # effect of a substituting handler (lean/LabreaModel/Eval.lean: `Event.req`, `Env.subst`)
    import coreprops
    import engine
    core = engine.explore_core(ctx, coreprops.C18)
    for f in core.findings:
        f.payload["part"] = "core"
    exp.findings += core.findings
    exp.coverage["core_model_part"] = {k: core.coverage.get(k) for k in
                                       ("programs", "evaluations", "disagreements_found", "oracle_failures", "distinct_nontrivial", "rule")}
    for k in ("programs", "evaluations", "distinct_nontrivial"):
        if isinstance(exp.coverage.get(k), int) and isinstance(core.coverage.get(k), int):
            exp.coverage[k] += core.coverage[k]
    return exp


def failing_input_search(ctx, why):
    """Implementation-side oracles only (no Lean needed), larger budget."""
    exp = run_all(ctx, use_model=False, scale=2.0)
    return [f for f in exp.findings if f.kind == "failing-input"]


def replay(ctx, payload):
    if payload.get("part") == "core" or payload.get("engine") == "core":
        import coreprops
        import engine
        return engine.replay_core(coreprops.C18, payload)
    info, problems = translation()
    if lean_build(SPEC.drivers):          # the generated table is compiled into the driver
        print("(drv_hook does not build on the current tree: model side skipped)")
        try:
            driver_path("drv_hook").unlink()
        except OSError:
            pass
    part = payload.get("part")
    part = int(part) if isinstance(part, str) and part.isdigit() else part
    print(f"replaying C18 part {part}: {payload.get('what')}")
    if problems:
        print("translator problems on the current tree:")
        for p in problems:
            print("  -", p["what"])
    if part == 1 or part is None:
        fs, _ = part1(info, use_model=driver_path("drv_hook").exists())
        fs = [f for f in fs if payload.get("cls") is None or payload.get("cls") in json.dumps(f.payload) or payload.get("cls") in f.what]
        for f in fs:
            print(f"  {f.kind}: {f.what}")
            if "model" in f.payload:
                print("    model:", f.payload["model"]); print("    impl :", f.payload["impl"])
        bad = bool(fs) or (part is None and bool(problems))
    elif part == 2:
        spec = payload["chain"]
        r = run_worker({"job": "chains", "info": info, "chains": [spec]})["results"]
        use_model = driver_path("drv_hook").exists()
        ml_ = run_driver("drv_hook", [chain_to_model(r[0]["spec"])]) if use_model else []
        print("  chain:", r[0]["spec"], "" if chain_to_model(r[0]["spec"]) == r[0]["spec"] else f"(for the model: {chain_to_model(r[0]['spec'])})")
        print("  impl :", "|".join(";".join(c) for c in r[0].get("obs", [])) or r[0].get("error"))
        print("  model:", ml_[0] if ml_ else "(driver not built)")
        fs, _ = compare_chains([r[0]["spec"]], r, ml_, use_model)
        for f in fs:
            print(f"  {f.kind}: {f.what}")
        bad = bool(fs)
    elif part == 3 and "item" in payload:
        r = run_worker({"job": "graphs", "items": [payload["item"]], "verbose": True})["cases"]
        bad = False
        if payload["item"].get("ushape") is not None:
            print("  class shape of [\"unode\"]:", json.dumps({k: payload["item"]["ushape"].get(k) for k in ("id", "classes", "ctor", "expect")}))
            print("  graph   :", json.dumps(payload["item"].get("spec"))[:700])
        for c in r:
            print("  options :", json.dumps(c["options"]))
            print("  plain   :", json.dumps(c.get("plain"))[:600])
            print("  recorded:", json.dumps(c.get("recorded"))[:600])
            for p in c["problems"]:
                print("  PROBLEM :", p)
                bad = True
    elif part == 3:
        ic = run_worker({"job": "intercept"})
        ps = [p for p in ic["problems"] if p["payload"].get("intercept") == payload.get("intercept")]
        for p in ps:
            print("  PROBLEM :", p["what"])
        bad = bool(ps)
    elif part == "4u":
        r = run_worker({"job": "subst", "cases": [], "ucases": [payload["ucase"]]})["ucases"][0]
        print("  class shape:", json.dumps({k: payload["ucase"]["recipe"][k] for k in ("id", "classes", "ctor", "expect")}))
        for p in r["problems"]:
            print("  PROBLEM :", p["what"])
        if r.get("harness_error"):
            print("  harness error:", r["harness_error"])
        bad = bool(r["problems"]) or bool(r.get("harness_error"))
    elif part == 6:
        case = payload["case"]
        job = {"job": "entrypoints", "only": [case], "verbose": True, "random": [case["random"]] if case.get("random") else []}
        r = run_worker(job)
        if r.get("harness_error"):
            print("  harness error:", r["harness_error"])
        row = next((t for t in r.get("table", []) if t["entry_point"] == case["row"]), {})
        print(f"  entry point {case['row']} on subject {case['subject']}; direct form: {row.get('direct_form')}")
        print("  options:", json.dumps(case["options"]))
        if case.get("random"):
            print("  subject:", json.dumps({k: v for k, v in case["random"].items() if k in ("spec", "shared", "pipe")})[:600])
        for v in r.get("verbose", []):
            print(f"  [{v['mode']}]")
            for form in ("via", "direct"):
                d = v[form]
                print(f"    {'entry point' if form == 'via' else 'direct form':11s}: outcome {json.dumps(d['outcome'])[:200]}; "
                      f"{len(d['requests'])} request(s){'' if v['mode'] == 'pass-through' else ', substituted ' + str(d['substituted']) + ' time(s)'}: "
                      f"{json.dumps([e[:2] for e in d['requests'][:6]])}{' ...' if len(d['requests']) > 6 else ''}")
        for p in r.get("problems", []):
            print("  PROBLEM :", p["what"])
        bad = bool(r.get("problems")) or bool(r.get("harness_error"))
    elif part == 4:
        r = run_worker({"job": "subst", "cases": [payload["case"]]})["cases"][0]
        if r.get("harness_error"):
            print("  harness error:", r["harness_error"])
        print("  with substitution handler:", json.dumps(r.get("got"))[:400])
        print("  same graph over Value    :", json.dumps(r.get("want"))[:400])
        print("  plain (real dataset)     :", json.dumps(r.get("plain"))[:400])
        for p in r["problems"]:
            print("  PROBLEM :", p)
        bad = bool(r["problems"])
    else:
        print("unknown payload")
        return 2
    print("verdict:", "STILL FAILS" if bad else "passes now")
    return 1 if bad else 0


if __name__ == "__main__":
    if "--worker" in sys.argv:
        sys.exit(worker_main())
    try:
        translation()          # regenerate lean/LabreaModel/Generated/ClassTable.lean before the Lean build
    except Exception as e:     # noqa: BLE001
        print(f"INFRA-ERROR property=C18: translator crashed: {type(e).__name__}: {e}")
        sys.exit(2)
    sys.exit(main_check(SPEC, explore, failing_input_search, replay))

"""C15 — threads: handler contexts are thread-local; concurrent register / evaluate are safe.

Lean: lean/LabreaModel/Threads.lean (RuntimeSM under arbitrary interleavings of atomic steps,
atomic / two-step register, MemoryCache under concurrent Cached.evaluate), theorems in
lean/LabreaProps/C15.lean (thread_local, register_all_present, register_needs_atomicity,
cache_own_value, ...).

Tie to the source: a DETERMINISTIC SCHEDULER drives 2-3 real Python threads through chosen
interleavings of the real labrea code.  Exactly one thread runs between yield points; a thread at a
yield point decides (from the schedule) whether it goes on or hands over to another thread by
releasing that thread's semaphore and blocking on its own.  Yield points:
  * "op"     : operation boundaries of the thread programs + acquire/release of the locks
               (labrea.runtime.lock and Overloaded._lock are replaced by scheduler-aware locks);
  * "line"   : + every `line` trace event inside labrea/{runtime,overload,cache,dataset}.py;
  * "opcode" : + every `opcode` trace event (frame.f_trace_opcodes) in those files whose next
               instruction touches shared memory (attribute / global / subscript / call / dict ops;
               instructions on locals commute with everything, so skipping them loses no behaviour).
A schedule is {yield index -> thread to run}; everywhere else the running thread continues and, when
it finishes or blocks on a lock, the lowest enabled thread takes over.  Exploration is breadth first
in the number of preemptions: all schedules with 0, 1, ... up to the preemption bound (quick 2,
thorough 3) as long as a level has at most `cap` schedules — larger levels are sampled with the seeded
RNG — and random schedules with more preemptions beyond.  All waits have timeouts; a timeout, a
deadlock or a runaway execution is an infrastructure error (exit 2), never a violation.

Scenarios: (a) handler contexts in one thread vs requests in another, one Runtime object entered
by several threads, inherit(); (a-lib) the same with the thread programs built from the library's OWN context
managers and derived-runtime helpers - labrea.logging.disabled(), labrea.cache.disabled(), runtime.handle(type,
handler) and runtime.handle(mapping), Runtime.handle on a runtime object in both forms, runtime.inherit() - nested
in either order inside the thread's own handle() blocks and entered repeatedly (`with labrea.logging.disabled():
request` in a loop), by 2-3 threads whose current runtimes differ (own handle() blocks with different tags, a
thread on its default runtime, one Runtime object and a runtime derived from it, a worker that inherits).
Observed request types: two test types, LogRequest and CacheExistsRequest, each with a tagged default registered
in the setup and tagged handlers in the threads' own blocks; tag 0 is the library's own `disabled` handler of the
type (None / False), and a request that reaches the python logger counts as an error.  Six directed scenarios
always run, the seed adds random programs over the same operations (quick 1, thorough 4).  Yield points in
(a-lib): lock boundaries + every line / shared-memory opcode of labrea/runtime.py, labrea/logging.py and
labrea/cache.py (the modules in which these helpers live); exploration with one reservoir per number of
preemptions as in (d) below, so that ALL single-preemption schedules at op and line level are run (opcode level:
sampled, reported under sampled_levels).  Model correspondence in (a-lib): a library context manager is the
model's `h x` (handle on the caller's current runtime) with the fixed handler 0 for its request type, so the
committed steps run through the same Lean model (drv_runtime sched) as in (a); of the three request types
cache.disabled() handles only CacheExistsRequest is observed, and "the log request did not reach the python
logger" has no model counterpart - both are judged by the solo-run oracle only; (a-first) WHO starts from WHAT:
in (a) and (a-lib) every scheduled thread is a spawned worker and the process's main thread only orchestrates (it runs
the setup, unscheduled, and is outside any block while the workers run).  In (a-first) the MAIN thread - the real
threading.main_thread() of the runner process, the thread that drives the scenario; model thread 0 - runs a program of
its own (scn["main"]) as one more participant of the scheduler (go() runs it, traced and preempted like a worker), and
threads that have NEVER touched the runtime (no entry in the thread -> runtime table) make their first request.run() /
handle() / current_runtime() / inherit() / Runtime.__enter__ / logging.disabled() call before the main thread entered
a context, while it is inside one or two nested ones (own handle() blocks, Runtime objects of the setup also entered by
workers, logging.disabled() + cache.disabled()), and after it left - and go on afterwards (a context entered by another
thread must not stick either).  Who the fresh threads are: workers started by the orchestration before the schedule
begins (as in (a)); Thread objects STARTED INSIDE the scenario by a ["S", t] step of the main thread inside its block,
of a worker inside its own block, of a worker that inherited; "pool-style" workers whose tasks are separated by
["wait", e] steps (events known to the scheduler: a waiting thread is not enabled, ["set", e] enables it - the phases
before / inside / after are forced in EVERY schedule of these scenarios, the schedules vary the rest); and, in one
strictly sequential scenario without the scheduler, the threads of real concurrent.futures.ThreadPoolExecutor
(max_workers=1) pools, each reused for three tasks submitted by the main thread before / inside / after its blocks.
Eight directed scenarios always run (quick tier too), the seed adds random programs (quick 1, thorough 4: random first
call per worker, main in one or two blocks, the last worker possibly started from inside by main or by a worker).
Oracle as in (a), now for every thread whatever it is: a thread that did not call inherit() - the main thread
included - observes what its own program observes run alone (the process-wide defaults and its own contexts, never a
context of another thread, main or not, whenever it was entered); a thread that called inherit() observes the
handlers the named parent had at the step inherit committed; plus the Lean model (drv_runtime sched) on the committed
steps of all threads, thread 0 included ("<t> S <u>" is no model step and is left out).  Exploration: reservoirs per
number of preemptions as in (a-lib); (b) concurrent Overloaded.register / Dataset.register; (c) concurrent
evaluations of one cached dataset with different / equal options, also (c3, c4) with one more scheduled thread
that empties the backend in one atomic step (a backend that loses entries; model: CEv.evict, theorem
cache_own_value_evicting); (d) the same for cached datasets
whose dependency graph contains a USER-BUILT node, defined outside dataset.py / cache.py and hence one
object shared by every thread: WithOptions / WithDefaultOptions (around an option, a section, a cached
dataset, as an argument of another expression), Switch, case, Coalesce, Template, Map, Iter, the
evaluatable_* collections, a pipeline step, Overloaded, Option with option / template defaults; 2-3
threads with different and equal options.  This directed family always runs (every kind with two
threads; the option wrappers also with equal options and with three threads; the seed picks one more
kind for three threads in the quick tier, thorough runs all).
Yield points in (d): "line" = every line of labrea/cache.py and of the labrea modules that define the
classes of the shared nodes (option.py, conditional.py, coalesce.py, template.py, iterable.py,
pipeline.py, application.py, arguments.py, overload.py, dataset.py, and types.py for Value / Apply /
Bind and the inherited methods - computed from the graph, listed per node kind in the evidence);
"opcode" = every shared-memory opcode in those node modules.  In both, a METHOD frame of those modules is traced only when it runs on one of the shared
node objects (the instances of the same classes that dataset.py and the nodes build afresh for one
evaluation are reachable from one thread only; steps on them commute with everything); code without
`self` in those modules is always traced (except in types.py, where it is the default request handlers
every evaluation goes through).  Exploration in (d) keeps one reservoir per number of
preemptions (phases(): caps), so that ALL single-preemption schedules (one thread stopped at a yield
point while the others run to completion; for either starting order where the threads do different
things) are run whenever a depth has at most caps[1] of them - with the quick caps that is every
two-thread scenario at line level and the lighter ones at opcode level; larger levels are sampled and
reported under sampled_levels - independent of how many two-preemption schedules there are.
Oracles on the implementation: (a), (a-lib), (a-first) every thread's observations equal those of its own program run
alone (threads that inherit: the handlers the parent had at the step inherit committed), computed by
a small independent interpreter over the observed order of atomic steps; (b) every registered key is
present afterwards; (c) every evaluation returns the value of its own options; (d) as (c), the value of
a thread's own options being what the same evaluation returns when it runs alone, unscheduled, on a
fresh graph - and afterwards a sequential evaluation with each thread's options again returns that
value (no wrong value was stored under the thread's cache key).
Correspondence: the observed order of atomic steps is run through the Lean model (drv_runtime
sched / reg / cache; (d) uses the cache model on the dataset's own cache, with the classes of the threads'
real cache fingerprints) and must give the observed outcome.
Scenarios run in separate runner processes, several at a time; each is deterministic given its job.
"""
import sys
from pathlib import Path

sys.path.insert(0, str(Path(__file__).resolve().parent.parent))
from common import *  # noqa: F401,F403

import json
import os
import random
import subprocess
from concurrent.futures import ThreadPoolExecutor
from typing import Any, Dict, List, Optional, Tuple

SPEC = PropSpec(
    pid="C15",
    lean_modules=["LabreaProps.C15"],
    model_files=["LabreaModel/Threads.lean", "LabreaModel/RuntimeSM.lean"],
    drivers=["drv_runtime"],
    technique="Lean 4 proof over the atomic-step model + bounded deterministic schedule exploration of the real code",
    trusted_base=[
        "atomicity of the `with lock:` bodies and of single dict operations (GIL) is the model's step granularity; "
        "the schedule exploration checks it up to the preemption bound, it is not proved",
        "the deterministic scheduler (sys.settrace + semaphores) in harness/props/C15.py and lean/DrvRuntime.lean (unverified glue); "
        "in the first-call scenarios (a-first) the process's main thread is one of the scheduled participants, threads started "
        "inside a scenario block on their semaphore before they run any labrea code, and event waits are scheduler states "
        "(nobody blocks for real); the ThreadPoolExecutor scenario is strictly sequential (submit, wait for the result)",
        "CPython 3.12 trace events: a thread can only be preempted at the explored yield points "
        "(line / shared-memory opcode boundaries inside labrea/{runtime,overload,cache,dataset}.py, lock boundaries; "
        "in the library-context-manager scenarios (a-lib): lines / shared-memory opcodes of labrea/{runtime,logging,cache}.py, "
        "the modules in which logging.disabled, cache.disabled, handle, Runtime.handle and inherit live; "
        "in the shared-node scenarios (d): lines of labrea/cache.py, and lines / shared-memory opcodes of the modules defining "
        "the shared nodes - labrea/{option,conditional,coalesce,template,iterable,pipeline,application,arguments,overload,"
        "dataset,types}.py - in method frames running on a shared node object and (types.py excepted) in code without `self`)",
        "(d): steps of method frames on per-evaluation instances of the node classes (built by dataset.py / Map / Switch for one "
        "evaluation, reachable from one thread) commute with the other threads' steps and are not yield points; "
        "confectioner (mix, resolve) is not traced: a call into it is one step",
    ],
    assumptions=[
        "default handlers are not registered concurrently with requests (registration is global by design)",
        "thread programs are short (2-3 threads, a few operations each); schedules beyond the preemption bound are sampled",
        "handler bodies are tags; values of cached datasets are pure functions of their options",
        "(a-lib): a library context manager (logging.disabled, cache.disabled) corresponds to the model's handle-on-the-current-"
        "runtime with a fixed handler (tag 0) for its request type; the defaults of LogRequest / CacheExistsRequest are replaced "
        "by tags while a scenario runs and restored afterwards",
        "(a-first): which thread STARTED a thread is not a step of the model (the library keeps no parent link; only inherit(thread) "
        "names one); a thread without a runtime starts from the process-wide default handlers, whoever started it and whatever "
        "the main thread has entered",
        "(d): the expected value of a thread is what its evaluation returns when run alone on a fresh graph (sequential "
        "semantics are the other properties' business); option dictionaries are distinct objects per thread and not mutated",
    ],
)

# ----------------------------------------------------------------------------- runner (subprocess)

RUNNER = r'''
import sys, os, json, threading, _thread, dis, random, time, types, functools, inspect
import importlib
import labrea
RT = importlib.import_module("labrea.runtime")
OV = importlib.import_module("labrea.overload")
CA = importlib.import_module("labrea.cache")
DS = importlib.import_module("labrea.dataset")
TY = importlib.import_module("labrea.types")
LG = importlib.import_module("labrea.logging")
Request, Runtime = RT.Request, RT.Runtime

WAIT = 20.0
MAXY = 200000
TARGETS = set()
TARGETS_OF = {"ctx": (RT,), "reg": (OV, DS), "cache": (CA,)}
# "ctx" scenarios with "lib": the thread programs use the library's own context managers / derived-runtime helpers;
# the modules that implement them are traced as well (logging.disabled, cache.disabled; handle / inherit are in RT)
LIB_MODULES = (RT, LG, CA)
# request types of the library observed in those scenarios: model type number -> (class, constructor arguments,
# the value its `disabled()` handler returns - rendered as the reserved tag 0)
LOG_T, CEX_T = 90, 91
LIB_TYPES = {LOG_T: (LG.LogRequest, (10, "labrea.c15", "msg", {}), None),
             CEX_T: (CA.CacheExistsRequest, (None, {}, None), False)}
LIB_DEFAULTS = {cls: RT._DEFAULT_HANDLERS.get(cls, None) for cls, _, _ in LIB_TYPES.values()}
PYLOG = []          # records that reached the python logger "labrea.c15" (the builtin handler of LogRequest)


class _Capture(__import__("logging").Handler):
    def emit(self, record):
        PYLOG.append(record.getMessage())


_lg = __import__("logging").getLogger("labrea.c15")
_lg.propagate = False
_lg.setLevel(1)
_lg.addHandler(_Capture())
# "graph" scenarios: the traced files are computed from the scenario's graph: cache.py + NODE_FILES, every labrea
# module that defines the class of a user-built node of the graph (None in the other scenarios); SHARED_IDS are
# the ids of those node objects (see make_tracer)
NODE_FILES = None
SHARED_IDS = frozenset()
SHARED_OPS = set()
for name in ("LOAD_ATTR", "STORE_ATTR", "DELETE_ATTR", "LOAD_GLOBAL", "STORE_GLOBAL", "LOAD_NAME",
             "BINARY_SUBSCR", "STORE_SUBSCR", "DELETE_SUBSCR", "DICT_UPDATE", "DICT_MERGE", "CALL",
             "CALL_FUNCTION_EX", "CALL_KW", "LOAD_METHOD", "CONTAINS_OP", "LOAD_DEREF", "STORE_DEREF",
             "BEFORE_WITH", "LOAD_SUPER_ATTR", "MAP_ADD", "LIST_APPEND", "SET_ADD", "LIST_EXTEND",
             "SET_UPDATE", "GET_ITER", "FOR_ITER", "UNPACK_SEQUENCE", "BINARY_OP", "COMPARE_OP", "IS_OP",
             "RAISE_VARARGS", "RETURN_VALUE", "RETURN_CONST"):
    if name in dis.opmap:
        SHARED_OPS.add(dis.opmap[name])
# pure-local opcodes are everything else (LOAD_FAST, STORE_FAST, LOAD_CONST, BUILD_*, POP_TOP, jumps, ...)

class InfraError(Exception):
    pass

class Boom(Exception):
    pass

class LibraryDefaultHandlerRan(Exception):
    pass

MISSING = object()
SCHED = None

class Ev:
    """an event of a thread program (["set", e] / ["wait", e]): a thread that waits for it is not enabled until it
    is set - the scheduler knows (Sched.enabled), nobody blocks for real"""
    def __init__(self):
        self.owner = "unset"


class Sched:
    def __init__(self, n, preempts, gran, unstarted=(), main_index=None):
        # participants 0 .. n-1; `unstarted`: workers whose Thread object is started by a ["S", t] step of another
        # participant (not enabled before that); main_index: the participant that is the process's MAIN thread (it
        # runs its program inside go(), scheduled like the others), None when the main thread only orchestrates
        self.started = [i not in unstarted for i in range(n)]
        self.registered = [False] * n
        self.main_index = main_index
        self.main_body = None
        self.n = n
        self.preempts = preempts
        self.gran = gran
        self.sems = [_thread.allocate_lock() for _ in range(n)]
        for s in self.sems:
            s.acquire()
        self.done = _thread.allocate_lock(); self.done.acquire()
        self.finished = [False] * n
        self.blocked = [None] * n
        self.current = None
        self.k = 0
        self.trace = []        # thread chosen at each yield index
        self.choices = []      # (k, me, me_enabled, default, alternatives)
        self.error = None
        self.ident = {}
        self.commits = []      # (thread, label)
        self.oplabel = [None] * n
        self.committed = [True] * n

    def me(self):
        return self.ident.get(_thread.get_ident())

    def fail(self, msg):
        if self.error is None:
            self.error = msg
        try:
            self.done.release()
        except RuntimeError:
            pass
        raise InfraError(msg)

    def wait(self, me):
        if not self.sems[me].acquire(True, WAIT):
            self.fail("thread %d waited too long for its turn" % me)
        if self.error is not None:
            raise InfraError(self.error)

    def enabled(self):
        return [t for t in range(self.n) if self.started[t] and not self.finished[t]
                and (self.blocked[t] is None or self.blocked[t].owner is None)]

    def pick(self, me, en):
        k = self.k
        self.k += 1
        if self.k > MAXY:
            self.fail("runaway execution (more than %d yield points)" % MAXY)
        me_en = me is not None and me in en
        default = me if me_en else (min(en) if en else None)
        want = self.preempts.get(k)
        nxt = want if (want is not None and want in en) else default
        alts = [t for t in en if t != default]
        if alts:
            self.choices.append((k, me_en, alts))
        self.trace.append(nxt)
        return nxt

    def yield_point(self, me, blocked_on=None):
        self.blocked[me] = blocked_on
        en = self.enabled()
        if not en:
            self.fail("deadlock: no thread can run")
        nxt = self.pick(me, en)
        if nxt != me:
            self.current = nxt
            self.sems[nxt].release()
            self.wait(me)

    def finish(self, me):
        self.finished[me] = True
        en = self.enabled()
        if not en:
            if all(self.finished):
                self.done.release()
                return
            self.fail("deadlock: no thread can run")
        nxt = self.pick(None, en)
        self.current = nxt
        self.sems[nxt].release()

    # atomic-step log
    def begin_op(self, me, label):
        self.oplabel[me] = label
        self.committed[me] = False

    def commit(self, me):
        if me is not None and not self.committed[me]:
            self.committed[me] = True
            self.commits.append((me, self.oplabel[me]))

    def end_op(self, me):
        self.commit(me)


class SchedLock:
    """stands in for threading.Lock; only one scheduled thread runs at a time, so a flag is enough.
    quiet=True: no yield points (used for labrea.runtime.lock in the cache scenarios, where no thread
    can be preempted while it holds that lock because runtime.py is not traced there)."""
    def __init__(self, quiet=False):
        self.owner = None
        self.quiet = quiet

    def acquire(self, blocking=True, timeout=-1):
        self.acquisitions = getattr(self, "acquisitions", 0) + 1
        s = SCHED
        me = s.me() if s is not None else None
        if me is None or self.quiet:
            if self.owner is not None and self.quiet:
                s.fail("quiet lock contended")
            self.owner = "main"
            return True
        s.yield_point(me)
        while self.owner is not None:
            s.yield_point(me, blocked_on=self)
        s.blocked[me] = None
        self.owner = me
        return True

    def release(self):
        s = SCHED
        me = s.me() if s is not None else None
        self.owner = None
        if me is not None and not self.quiet:
            s.commit(me)
            s.yield_point(me)

    def locked(self):
        return self.owner is not None

    def __enter__(self):
        self.acquire()
        return self

    def __exit__(self, *a):
        self.release()


def make_tracer(s, me):
    gran = s.gran
    code_cache = {}

    def local(frame, event, arg):
        if event == "opcode":
            co = frame.f_code
            bc = code_cache.get(co)
            if bc is None:
                bc = code_cache[co] = co.co_code
            if bc[frame.f_lasti] in SHARED_OPS:
                s.yield_point(me)
        elif event == "line" and gran == "line":
            s.yield_point(me)
        return local

    node_files, shared_ids, cache_file, types_file = NODE_FILES, SHARED_IDS, CA.__file__, TY.__file__

    def glob(frame, event, arg):
        if event == "call":
            co = frame.f_code
            fn = co.co_filename
            if node_files is not None:
                # graph scenarios.  cache.py: every line (line phase).  The modules that implement the shared nodes
                # (line phase: every line, opcode phase: every shared-memory opcode): methods running on one of
                # the SHARED objects, and code without `self` (module functions, static methods, nested generators
                # and lambdas); methods running on instances that dataset.py / the nodes build afresh for one
                # evaluation touch objects of one thread only and commute with everything.  types.py (Value, Apply,
                # Bind, the inherited Evaluatable methods and the evaluate / keys / validate wrappers): methods
                # running on a shared object only - its code without `self` is the default request handlers, which
                # every evaluation of every object goes through and which only read their own request
                if fn in node_files:
                    if co.co_argcount and co.co_varnames[0] == "self":
                        if id(frame.f_locals.get("self")) not in shared_ids:
                            return None
                    elif fn == types_file:
                        return None
                    if gran == "opcode":
                        frame.f_trace_opcodes = True
                    return local
                if fn == cache_file and gran == "line":
                    return local
                return None
            if fn in TARGETS:
                if gran == "opcode":
                    frame.f_trace_opcodes = True
                return local
        return None
    return glob


def run_threads(n, preempts, gran, bodies, main_body=None, unstarted=()):
    """bodies[i](sched, i) is the program of worker i; main_body(sched, n), if given, is the program the MAIN thread
    runs as participant n; returns the Sched"""
    global SCHED
    s = Sched(n + (1 if main_body is not None else 0), preempts, gran, unstarted, n if main_body is not None else None)
    s.main_body = main_body
    SCHED = s
    errors = []

    def wrap(i):
        s.ident[_thread.get_ident()] = i
        s.registered[i] = True
        try:
            s.wait(i)
            if gran in ("line", "opcode"):
                sys.settrace(make_tracer(s, i))
            try:
                bodies[i](s, i)
            finally:
                sys.settrace(None)
            s.finish(i)
        except InfraError:
            pass
        except BaseException as e:
            errors.append("worker %d crashed: %s: %s" % (i, type(e).__name__, e))
            s.error = s.error or errors[-1]
            for l in [s.done] + ([s.sems[s.main_index]] if s.main_index is not None else []):
                try:
                    l.release()
                except RuntimeError:
                    pass

    ths = [threading.Thread(target=wrap, args=(i,), daemon=True) for i in range(n)]
    s.threads = ths
    return s, ths


def await_registered(s, idx):
    """wait until the started workers idx have registered their ident (they block on their semaphore right away)"""
    t0 = time.time()
    while not all(s.registered[i] for i in idx):
        if time.time() - t0 > WAIT:
            s.fail("workers did not start")
        time.sleep(0)


def go(s, ths):
    for i, th in enumerate(ths):
        if s.started[i]:
            th.start()
    await_registered(s, [i for i in range(len(ths)) if s.started[i]])
    mi = s.main_index
    if mi is not None:
        s.ident[_thread.get_ident()] = mi
        s.registered[mi] = True
    en = s.enabled()
    first = s.pick(None, en)
    s.current = first
    if mi is None:
        s.sems[first].release()
    else:
        # the main thread is a participant: it runs its program here, handing over at yield points like a worker
        if first != mi:
            s.sems[first].release()
            s.wait(mi)
        if s.gran in ("line", "opcode"):
            sys.settrace(make_tracer(s, mi))
        try:
            s.main_body(s, mi)
        finally:
            sys.settrace(None)
        s.finish(mi)
    if not s.done.acquire(True, 3 * WAIT):
        raise InfraError("execution did not finish in time")
    if s.error is not None:
        raise InfraError(s.error)
    for th in ths:
        th.join(WAIT)
    global SCHED
    SCHED = None


# ------------------------------------------------------------------ scenario (a): handler contexts

def spawned_threads(scn):
    """scheduler indices of the workers that are started by a ["S", t] step of a thread program"""
    out = set()

    def walk(items):
        for it in items:
            if it[0] == "S":
                out.add(it[1] - 1)
            for sub in ((it[2],) if it[0] == "W" else (it[1],) if it[0] in ("Y", "task") else ()):
                walk(sub)
    for prog in [scn.get("main", [])] + list(scn["threads"]):
        walk(prog)
    return out


class CtxRun:
    def __init__(self, scn, serial):
        self.scn = scn
        self.types = {}
        self.serial = serial
        self.vars = {}
        self.keep = []
        self.logs = {}
        self.thobj = {}
        self.events = {}
        self.sync_tid = {}
        self.pools = {}
        self.next_task = {}

    def ty(self, k):
        if k in LIB_TYPES:
            return LIB_TYPES[k][0]
        if k not in self.types:
            self.types[k] = type("Req_%d_%d" % (self.serial, k), (Request,), {})
        return self.types[k]

    def hs(self, pairs):
        return {self.ty(k): (lambda req, h=h: h) for k, h in pairs}

    def request(self, k):
        """run one request of type k in the calling thread; the tag of the handler that served it"""
        if k not in LIB_TYPES:
            return self.ty(k)().run()
        cls, args, off = LIB_TYPES[k]
        n = len(PYLOG)
        v = cls(*args).run()
        if len(PYLOG) != n:
            raise LibraryDefaultHandlerRan()     # (the setup replaces the library's default handler by a tag)
        return 0 if v is off else v           # tag 0: the library's own `disabled` handler of this type

    def call_handle(self, f, pairs, mapping=False):
        m = self.hs(pairs)
        if len(m) == 1 and not mapping:
            (cls, h), = m.items()
            return f(cls, h)
        return f(m)

    @staticmethod
    def lab_hs(pairs):
        return " ".join([str(len(pairs))] + ["%d %d" % (a, b) for a, b in pairs])

    def items(self, s, me, tid, items):
        log = self.logs[tid]
        for it in items:
            k = it[0]
            if s is not None:
                s.yield_point(me)
            try:
                if k == "c":
                    self.op(s, me, "c %d" % it[1])
                    r = RT.current_runtime(); self.vars[it[1]] = r; self.keep.append(r)
                elif k == "n":
                    self.op(s, me, "n %d %s" % (it[1], self.lab_hs(it[2])))
                    r = Runtime(self.hs(it[2])); self.vars[it[1]] = r; self.keep.append(r)
                elif k == "d":
                    self.op(s, me, "d %d %d %s" % (it[1], it[2], self.lab_hs(it[3])))
                    r = self.call_handle(self.vars[it[2]].handle, it[3]); self.vars[it[1]] = r; self.keep.append(r)
                elif k == "h":
                    self.op(s, me, "h %d %s" % (it[1], self.lab_hs(it[2])))
                    r = self.call_handle(RT.handle, it[2]); self.vars[it[1]] = r; self.keep.append(r)
                elif k == "hm":
                    # runtime.handle in its MAPPING form also for a single pair
                    self.op(s, me, "h %d %s" % (it[1], self.lab_hs(it[2])))
                    r = self.call_handle(RT.handle, it[2], True); self.vars[it[1]] = r; self.keep.append(r)
                elif k == "dm":
                    self.op(s, me, "d %d %d %s" % (it[1], it[2], self.lab_hs(it[3])))
                    r = self.call_handle(self.vars[it[2]].handle, it[3], True); self.vars[it[1]] = r; self.keep.append(r)
                elif k == "hd":
                    # ["hd", x]: `x = labrea.cache.disabled()` — the library's own context managers are runtimes derived
                    # from the CALLER's current runtime at the time of the call (model: `h x` with the fixed handler,
                    # tag 0, for the observed request type CacheExistsRequest; the other two cache request types are
                    # not observed); entered with ["W", x, body] like any other
                    self.op(s, me, "h %d %s" % (it[1], self.lab_hs([[CEX_T, 0]])))
                    r = CA.disabled(); self.vars[it[1]] = r; self.keep.append(r)
                elif k == "hl":
                    # ["hl", x]: `x = labrea.logging.disabled()` (model: `h x` with the fixed handler, tag 0, for LogRequest)
                    self.op(s, me, "h %d %s" % (it[1], self.lab_hs([[LOG_T, 0]])))
                    r = LG.disabled(); self.vars[it[1]] = r; self.keep.append(r)
                elif k == "g":
                    self.op(s, me, "g %d %d" % (it[1], it[2]))
                    RT.handle_by_default(self.ty(it[1]), (lambda req, h=it[2]: h))
                elif k == "r":
                    self.op(s, me, "r %d" % it[1])
                    try:
                        v = self.request(it[1])
                        log.append("s%s" % (v,))
                    except TypeError:
                        log.append("T")
                elif k == "i":
                    self.op(s, me, "i %d" % it[1])
                    RT.inherit(self.thobj[it[1]])
                elif k == "p":
                    self.op(s, me, "p")
                    o = RT._RUNTIMES.get(threading.current_thread(), MISSING)
                    if o is not MISSING:
                        self.keep.append(o)
                    log.append(("@", o))
                elif k == "^":
                    raise Boom()
                elif k == "S":
                    # ["S", t]: the calling thread STARTS the Thread object of model thread t (a thread that has never
                    # touched the runtime); it blocks on its semaphore right away and is enabled from here on.  Not a
                    # step of the model: logged as "<t> S <u>" for the reader and the coverage counts, filtered out
                    # before the committed steps go to the Lean model
                    self.op(s, me, "S %d" % it[1])
                    j = it[1] - 1
                    s.threads[j].start()
                    await_registered(s, [j])
                    s.started[j] = True
                elif k == "set":
                    self.events.setdefault(it[1], Ev()).owner = None
                    continue
                elif k == "wait":
                    ev = self.events.setdefault(it[1], Ev())
                    while ev.owner is not None:
                        s.yield_point(me, blocked_on=ev)
                    s.blocked[me] = None
                    continue
                elif k == "T":
                    # ["T", w] (pool scenarios, unscheduled): the calling thread submits the next task of pool worker w
                    # (model thread w, a concurrent.futures.ThreadPoolExecutor(max_workers=1) of its own, i.e. ONE real
                    # pool thread reused for all of w's tasks) and waits for its result
                    task = self.scn["threads"][it[1] - 1][self.next_task.get(it[1], 0)][1]
                    self.next_task[it[1]] = self.next_task.get(it[1], 0) + 1
                    if it[1] not in self.pools:
                        self.pools[it[1]] = __import__("concurrent.futures").futures.ThreadPoolExecutor(max_workers=1)

                    def runtask(w=it[1], task=task):
                        self.sync_tid[_thread.get_ident()] = w
                        if self.thobj.setdefault(w, threading.current_thread()) is not threading.current_thread():
                            raise InfraError("pool worker %d is not one reused thread" % w)
                        try:
                            self.items(None, None, w, task)
                        except Boom:
                            self.logs[w].append("!")
                    self.pools[it[1]].submit(runtask).result(WAIT)
                    continue
                elif k == "W":
                    r = self.vars[it[1]]
                    self.op(s, me, "e %d" % it[1])
                    r.__enter__()
                    self.endop(s, me)
                    exc = (None, None, None)
                    try:
                        self.items(s, me, tid, it[2])
                    except Boom as e:
                        exc = (type(e), e, e.__traceback__)
                        raise
                    finally:
                        if s is not None:
                            s.yield_point(me)
                        self.op(s, me, "x %d" % it[1])
                        r.__exit__(*exc)
                        self.endop(s, me)
                    continue
                elif k == "Y":
                    try:
                        self.items(s, me, tid, it[1])
                    except Boom:
                        pass
                    continue
                else:
                    raise ValueError("bad item %r" % (it,))
            except Boom:
                raise
            except InfraError:
                raise
            except Exception as e:
                log.append("E:" + type(e).__name__)
            self.endop(s, me)

    def op(self, s, me, label):
        if s is not None:
            s.begin_op(me, "%d %s" % (self.tid_of[me], label))
        else:
            # unscheduled: the setup (main thread, model thread 0) and the strictly sequential pool scenarios
            self.setup_commits.append("%d %s" % (self.sync_tid.get(_thread.get_ident(), 0), label))

    def endop(self, s, me):
        if s is not None:
            s.end_op(me)

    def execute(self, preempts, gran):
        scn = self.scn
        progs = scn["threads"]
        n = len(progs)
        self.tid_of = {i: i + 1 for i in range(n)}
        self.tid_of[n] = 0          # participant n, if there is one, is the main thread (scn["main"])
        if threading.current_thread() is not threading.main_thread():
            raise InfraError("the scenario is not driven by the process's main thread")
        RT._RUNTIMES.pop(threading.main_thread(), None)
        self.setup_commits = []
        self.logs = {t: [] for t in range(n + 1)}
        self.thobj = {0: threading.main_thread()}
        # setup, unscheduled, by the main thread (model thread 0)
        try:
            self.items(None, None, 0, scn.get("setup", []))
        except Boom:
            pass

        def body(i):
            def f(s, me):
                try:
                    self.items(s, me, i + 1, progs[i])
                except Boom:
                    self.logs[i + 1].append("!")
            return f

        def main_body(s, me):
            try:
                self.items(s, me, 0, scn["main"])
            except Boom:
                self.logs[0].append("!")
        if scn.get("pool"):
            # strictly sequential: the main thread runs scn["main"] unscheduled, every ["T", w] runs the next task of
            # threads[w-1] in w's real pool thread and waits for it; the order of steps is the program order
            s = Sched(0, {}, gran)
            try:
                main_body(None, None)
            finally:
                for pool in self.pools.values():
                    pool.shutdown(wait=True)
            if sorted(self.thobj) != list(range(n + 1)) or any(self.next_task.get(w + 1, 0) != len(progs[w]) for w in range(n)):
                raise InfraError("pool scenario: not every task of every pool worker was submitted")
        else:
            s, ths = run_threads(n, preempts, gran, [body(i) for i in range(n)], main_body if "main" in scn else None,
                                 spawned_threads(scn))
            for i, th in enumerate(ths):
                self.thobj[i + 1] = th
            go(s, ths)
        for t in range(n + 1):
            o = RT._RUNTIMES.get(self.thobj[t], MISSING)
            self.logs[t].append(("F=", o))
        for th in self.thobj.values():
            RT._RUNTIMES.pop(th, None)
        for cls in self.types.values():
            RT._DEFAULT_HANDLERS.pop(cls, None)
        for cls, h in LIB_DEFAULTS.items():
            if h is None:
                RT._DEFAULT_HANDLERS.pop(cls, None)
            else:
                RT._DEFAULT_HANDLERS[cls] = h
        # render
        names = {}
        for x in sorted(self.vars):
            names.setdefault(id(self.vars[x]), "v%d" % x)
        anon = []
        out = {}
        for t in range(n + 1):
            toks = []
            for e in self.logs[t]:
                if isinstance(e, str):
                    toks.append(e)
                else:
                    pre, o = e
                    if o is MISSING:
                        toks.append(pre + "-")
                    elif o is None:
                        toks.append(pre + "None")
                    elif id(o) in names:
                        toks.append(pre + names[id(o)])
                    else:
                        if id(o) not in anon:
                            anon.append(id(o)); self.keep.append(o)
                        toks.append(pre + "a%d" % anon.index(id(o)))
            out[str(t)] = toks
        commits = self.setup_commits + [lab for _, lab in s.commits]
        if scn.get("lib"):
            return s, {"commits": commits, "obs": out, "traced": sorted(os.path.basename(f) for f in TARGETS)}
        return s, {"commits": commits, "obs": out}


# ------------------------------------------------------------------ scenario (b): register

def exec_reg(scn, serial, preempts, gran):
    from labrea import Option, Value, dataset
    progs = scn["threads"]
    n = len(progs)
    if scn.get("via") in ("dataset", "overload_list"):
        @dataset(dispatch="K")
        def target() -> int:
            return -1
        ov_of = lambda: target.overloads
        reg = target.register
        if scn.get("via") == "overload_list":
            # the decorator form with a LIST of aliases (here the same alias twice: one table entry, as the model has it);
            # the implementations are built beforehand, outside the scheduled region
            prebuilt = {}
            for prog in progs:
                for key, val in prog:
                    def impl(_v=val) -> int:
                        return _v
                    prebuilt[(key, val)] = dataset(impl)

            def reg(key, value):
                target.overload([key, key])(prebuilt[(key, value.value)])
    elif scn.get("via") == "implements":
        # registration through an interface implementation class: `@Iface.implementation(alias) class _: m = value`
        from labrea import interface

        @interface(dispatch="K")
        class Iface:
            @staticmethod
            def m() -> int:
                return -1
        target = Iface.m
        ov_of = lambda: target.overloads

        def reg(key, value):
            Iface.implementation(key)(type("Impl_%s" % (key,), (), {"m": value.value}))
    else:
        target = OV.Overloaded(Option("K"), {}, Value(-1))
        ov_of = lambda: target
        reg = target.register
    ov_of()._lock = SchedLock()

    def body(i):
        def f(s, me):
            for key, val in progs[i]:
                s.yield_point(me)
                s.begin_op(me, "%d %d %d" % (i, key, val))
                reg(key, Value(val))
                s.end_op(me)
        return f
    s, ths = run_threads(n, preempts, gran, [body(i) for i in range(n)])
    go(s, ths)
    table = {}
    for key in sorted(ov_of().lookup.keys()):
        try:
            table[str(key)] = target.evaluate({"K": key})
        except Exception as e:
            table[str(key)] = "E:" + type(e).__name__
    acquired = getattr(ov_of()._lock, "acquisitions", 0)
    OV._LOCKS.pop(id(ov_of()), None)
    return s, {"commits": [lab for _, lab in s.commits], "table": table, "lock_acquisitions_at_least_one_per_registration":
               acquired >= sum(len(p) for p in progs)}


# ------------------------------------------------------------------ scenario (c): cached dataset

def make_logdict(ops):
    class LogDict(dict):
        """the MemoryCache dict: every operation is one atomic step, logged at the moment it happens
        (a yield point right before it, none between the operation and its log entry)"""
        def _pre(self):
            me = SCHED.me() if SCHED is not None else None
            if me is not None:
                SCHED.yield_point(me)
            return me

        def __getitem__(self, k):
            me = self._pre()
            if me is not None:
                ops.append(me)
            return dict.__getitem__(self, k)

        def __setitem__(self, k, v):
            me = self._pre()
            if me is not None:
                ops.append(me)
            dict.__setitem__(self, k, v)

        def __contains__(self, k):
            me = self._pre()
            if me is not None:
                ops.append(me)
            return dict.__contains__(self, k)
    return LogDict()


def exec_cache(scn, serial, preempts, gran):
    from labrea import Option, dataset
    opts = scn["threads"]            # per thread: value of option A
    n = len(opts)
    calls = []

    @dataset
    def target(a: int = Option("A")) -> int:
        calls.append(a)
        return a * 100 + 7

    cache = target.cache
    ops = []
    if not isinstance(cache, CA.MemoryCache) or not isinstance(getattr(cache, "_cache", None), dict):
        raise InfraError("dataset cache is not a MemoryCache with a _cache dict")
    cache._cache = make_logdict(ops)
    results = {}

    def body(i):
        def f(s, me):
            s.yield_point(me)
            try:
                results[str(i)] = target.evaluate({"A": opts[i], "PAD": i})
            except InfraError:
                raise
            except Exception as e:
                results[str(i)] = "E:" + type(e).__name__
        return f
    bodies = [body(i) for i in range(n)]
    if scn.get("evictions"):
        # one more scheduled thread plays a backend that loses its entries (bounded / expiring / shared): each round
        # is one atomic step that empties the dict, logged as "e<fp>" for every fingerprint (model: CEv.evict)
        def evictor(s, me):
            for _ in range(scn["evictions"]):
                s.yield_point(me)
                dict.clear(cache._cache)
                ops.extend("e%d" % a for a in sorted(set(opts)))
        bodies.append(evictor)
    s, ths = run_threads(len(bodies), preempts, gran, bodies)
    go(s, ths)
    for th in ths:
        RT._RUNTIMES.pop(th, None)
    return s, {"dictops": ops, "results": results, "bodies": sorted(calls)}


# ------------------------------------------------------------------ scenario (d): cached dataset over shared user-built nodes

def _lt20(a):
    return a < 20


def _triple(v):
    return v * 3


def _pick(mode):
    return labrea.Option("X") if mode == "x" else labrea.Option("Y")


def build_graph(node, calls):
    """A fresh dependency graph: the cached dataset `target` has ONE parameter whose default is a user-built
    expression `shared` of the given kind, built here once (outside dataset.py / cache.py) and therefore one
    object, with one __dict__, for every thread that evaluates `target`."""
    L = labrea
    Option = L.Option
    if node == "with_options":                      # forced pre-set options around an option
        shared = L.WithOptions(Option("A"), {"U": 1})
    elif node == "with_options_section":            # a pre-set section that is merged key by key with the caller's
        shared = L.WithOptions(Option("S.A"), {"S": {"U": 1}})
    elif node == "with_default_options":            # caller's options win over the pre-set ones
        shared = L.WithDefaultOptions(Option("A"), {"A": 0})
    elif node == "with_options_over_dataset":       # the wrapped object is itself a cached dataset
        @L.dataset
        def inner(a=Option("A"), u=Option("U")):
            return a * 10 + u
        shared = L.WithOptions(inner, {"U": 3})
    elif node == "with_options_as_argument":        # the node is an argument of another expression
        shared = L.WithOptions(Option("A"), {"U": 1}).apply(_triple)
    elif node == "switch":
        shared = L.Switch(Option("MODE"), {"x": Option("X"), "y": Option("Y")}, Option("Z"))
    elif node == "case":
        shared = L.case(Option("A")).when(_lt20, Option("X")).otherwise(Option("Y"))
    elif node == "coalesce":
        shared = L.Coalesce(Option("P"), Option("Q"))
    elif node == "template":
        shared = L.Template("{A}-{:b:}", b=Option("B"))
    elif node == "map":
        shared = L.Map(Option("A"), {"A": Option("XS")})
    elif node == "iter":
        shared = L.Iter(Option("A"), Option("B"))
    elif node == "collections":
        shared = L.evaluatable_dict({"a": Option("A"), "t": L.evaluatable_tuple(Option("B"), Option("A"))})
    elif node == "pipeline":
        @L.pipeline_step
        def add(x, k=Option("K")):
            return x + k
        shared = Option("A") >> add
    elif node == "overloaded":
        shared = L.Overloaded(Option("K"), {1: Option("X"), 2: Option("Y")}, Option("Z"))
    elif node == "bind_apply":                      # Bind / Apply / Value (types.py) built with .bind() and .apply()
        shared = Option("MODE").bind(_pick).apply(_triple)
    elif node == "option_default":                  # an option whose default is another option / a template
        shared = L.evaluatable_tuple(Option("A", default=Option("B")), Option("C", default="{B}/d"))
    else:
        raise ValueError("unknown node kind %r" % (node,))

    @L.dataset
    def target(x=shared):
        v = plain(x)
        calls.append(v)
        return ["value-of", v]

    return target, [shared]


def plain(x):
    """evaluation results as plain JSON-like data (lazy iterables are consumed here, inside the dataset body)"""
    if x is None or isinstance(x, (str, bytes, int, float, bool)):
        return x
    if isinstance(x, dict):
        return {str(k): plain(v) for k, v in sorted(x.items(), key=lambda kv: repr(kv[0]))}
    if isinstance(x, (set, frozenset)):
        return sorted((plain(v) for v in x), key=repr)
    return [plain(v) for v in x]


def node_objects(roots):
    """every Evaluatable reachable from the user-built nodes through attributes / containers; a Dataset is
    listed but not entered (its innards are built afresh by dataset.py for every evaluation)"""
    seen, out, todo = set(), [], list(roots)
    while todo:
        o = todo.pop()
        if id(o) in seen:
            continue
        seen.add(id(o))
        if isinstance(o, TY.Evaluatable):
            out.append(o)
            if not isinstance(o, DS.Dataset):
                todo.extend(getattr(o, "__dict__", {}).values())
        elif isinstance(o, (list, tuple, set, frozenset)):
            todo.extend(o)
        elif isinstance(o, dict):
            todo.extend(o.values())
        elif isinstance(o, functools.partial):
            todo.extend(o.args); todo.extend(o.keywords.values())
    return out


def node_modules(objs):
    """(files, class names): the labrea modules that define the classes of the given nodes, and types.py (the
    concrete Value / Apply / Bind and the methods every node inherits)"""
    files, names = {TY.__file__}, set()
    for o in objs:
        for cls in type(o).__mro__:
            mod = getattr(cls, "__module__", "")
            if mod.startswith("labrea.") and not (mod == "labrea.types" and (inspect.isabstract(cls) or cls is TY.Transformation)):
                files.add(sys.modules[mod].__file__)
                names.add(mod[len("labrea."):] + "." + cls.__qualname__)
    return files, names


GRAPH_SOLO = {}


def show(v):
    return json.dumps(v, sort_keys=True, default=repr)


def graph_solo(scn):
    """the specification side: every thread's evaluation run ALONE, unscheduled, on a fresh graph of its own
    (value = pure function of the thread's own options), and the cache fingerprint of its options"""
    key = json.dumps(scn, sort_keys=True)
    if key not in GRAPH_SOLO:
        expected, fps = {}, []
        for i, o in enumerate(scn["threads"]):
            target, _ = build_graph(scn["node"], [])
            o = json.loads(json.dumps(o))
            try:
                expected[str(i)] = show(target.evaluate(o))
                fp = target.fingerprint(o)
            except Exception as e:
                raise InfraError("graph scenario %s: thread %d alone fails: %s: %s" % (scn["node"], i, type(e).__name__, e))
            if fp not in fps:
                fps.append(fp)
            expected["fp%d" % i] = fps.index(fp) + 1
        GRAPH_SOLO[key] = expected
    return GRAPH_SOLO[key]


def exec_graph(scn, serial, preempts, gran):
    global NODE_FILES, SHARED_IDS
    solo = graph_solo(scn)
    n = len(scn["threads"])
    opts = [json.loads(json.dumps(o)) for o in scn["threads"]]      # one dictionary object per thread
    calls = []
    target, shared = build_graph(scn["node"], calls)
    cache = target.cache
    ops = []
    if not isinstance(cache, CA.MemoryCache) or not isinstance(getattr(cache, "_cache", None), dict):
        raise InfraError("dataset cache is not a MemoryCache with a _cache dict")
    cache._cache = make_logdict(ops)
    nodes = node_objects(shared)
    files, classes = node_modules(nodes)
    SHARED_IDS = frozenset(id(o) for o in nodes)
    NODE_FILES = frozenset(files)
    TARGETS.clear()
    TARGETS.add(CA.__file__)
    TARGETS.update(files)
    results = {}

    def body(i):
        def f(s, me):
            s.yield_point(me)
            try:
                results[str(i)] = show(target.evaluate(opts[i]))
            except InfraError:
                raise
            except Exception as e:
                results[str(i)] = "E:" + type(e).__name__
        return f
    s, ths = run_threads(n, preempts, gran, [body(i) for i in range(n)])
    go(s, ths)
    for th in ths:
        RT._RUNTIMES.pop(th, None)
    # afterwards, sequentially: the same options again (what the threads left in the caches)
    after = {}
    for i in range(n):
        try:
            after[str(i)] = show(target.evaluate(json.loads(json.dumps(scn["threads"][i]))))
        except Exception as e:
            after[str(i)] = "E:" + type(e).__name__
    return s, {"dictops": ops, "results": results, "after": after,
               "expected": {str(i): solo[str(i)] for i in range(n)}, "fps": [solo["fp%d" % i] for i in range(n)],
               "bodies": sorted(show(c) for c in calls),
               "traced": sorted(os.path.basename(f) for f in TARGETS), "shared_node_classes": sorted(classes)}


# ------------------------------------------------------------------ exploration

def execute(scn, serial, preempts, gran):
    global NODE_FILES
    kind = scn["kind"]
    RT.lock = SchedLock(quiet=(kind in ("cache", "graph")))
    NODE_FILES = None
    if kind == "graph":
        return exec_graph(scn, serial, preempts, gran)
    TARGETS.clear()
    for m in (LIB_MODULES if (kind == "ctx" and scn.get("lib")) else TARGETS_OF[kind]):
        TARGETS.add(m.__file__)
    if kind == "ctx":
        return CtxRun(scn, serial).execute(preempts, gran)
    if kind == "reg":
        return exec_reg(scn, serial, preempts, gran)
    if kind == "cache":
        return exec_cache(scn, serial, preempts, gran)
    raise ValueError(kind)


def warm(scn, gran):
    """CPython instruments a code object for opcode events the first time a traced frame asks for
    them, and the first execution sees fewer events than later ones: run the default schedule a few
    times (results discarded) so that yield indices are stable and schedules replay exactly."""
    for i in range(3):
        execute(scn, 1000000 + i, {}, gran)


def explore(job):
    scn = job["scenario"]
    rng = random.Random(job["seed"])
    serial = [0]
    outcomes = {}      # key -> {"outcome":…, "count":…, "witness": {...}}
    stats = {"executions": 0, "by_level": {}, "max_yield_points": 0, "sampled_levels": [], "seconds": {}}

    def run(preempts, gran, npre):
        serial[0] += 1
        s, outcome = execute(scn, serial[0], dict(preempts), gran)
        stats["executions"] += 1
        stats["max_yield_points"] = max(stats["max_yield_points"], s.k)
        key = json.dumps(outcome, sort_keys=True)
        if key not in outcomes:
            outcomes[key] = {"outcome": outcome, "count": 0,
                             "witness": {"gran": gran, "preempts": sorted(preempts.items()),
                                         "preemptions": npre, "schedule": rle(s.trace)}}
        outcomes[key]["count"] += 1
        return s

    for phase in job["phases"]:
        t_phase = time.time()
        gran, bound, cap = phase["gran"], phase["bound"], phase["cap"]
        stats["max_yield_points"] = 0
        warm(scn, gran)
        level = [((), 0, -1)]           # (preempts tuple, cost, last index)
        seen = set()
        spent = 0
        caps = phase.get("caps")        # graph scenarios: one reservoir per number of preemptions (see below)
        if caps:
            explore_by_cost(run, rng, stats, gran, bound, caps, phase["budget"])
            level = []
        for depth in range(0, 10 ** 6):
            if not level or spent >= cap * (bound + 1):
                break
            nxt = []
            nseen = 0
            for pre, cost, last in level:
                if pre in seen:
                    continue
                seen.add(pre)
                spent += 1
                s = run(dict(pre), gran, cost)
                if depth == 0 and scn.get("kind") == "reg" and gran != "op" and any(
                        v["outcome"].get("lock_acquisitions_at_least_one_per_registration") is False for v in outcomes.values()):
                    # an unprotected registration was seen: spend the budget on finding the schedule that loses an update
                    cap = cap * 25
                lv = "%s/%d" % (gran, cost)
                stats["by_level"][lv] = stats["by_level"].get(lv, 0) + 1
                for (k, me_en, alts) in s.choices:
                    if k <= last:
                        continue
                    c2 = cost + (1 if me_en else 0)
                    if c2 > bound:
                        continue
                    for j in alts:
                        nseen += 1
                        if len(nxt) < cap:
                            nxt.append((pre + ((k, j),), c2, k))
                        else:
                            q = rng.randrange(nseen)
                            if q < cap:
                                nxt[q] = (pre + ((k, j),), c2, k)
            if nseen > cap:
                stats["sampled_levels"].append([gran, depth + 1, nseen])
            level = nxt
        # random schedules beyond the bound
        for _ in range(phase.get("random", 0)):
            m = rng.randint(bound + 1, bound + 3)
            top = max(stats["max_yield_points"], 4)
            pre = {rng.randrange(top): rng.randrange(len(scn["threads"]) + (1 if "main" in scn else 0)) for _ in range(m)}
            run(pre, gran, m)
            lv = "%s/random" % gran
            stats["by_level"][lv] = stats["by_level"].get(lv, 0) + 1
        stats["seconds"][gran] = [round(time.time() - t_phase, 2), stats["max_yield_points"]]
    return {"outcomes": list(outcomes.values()), "stats": stats}


def explore_by_cost(run, rng, stats, gran, bound, caps, budget):
    """Breadth first like the loop in explore(), but the schedules of one depth are kept in one reservoir per
    NUMBER OF PREEMPTIONS (caps[c] schedules with c preemptions per depth): all schedules with one preemption -
    thread X stopped at a yield point, the others run to completion, X resumes; for every X, because which thread
    starts is a free choice - are run as long as there are at most caps[1] of them per depth, independent of how
    many two-preemption schedules compete for the budget.  Cheaper schedules of a depth run first."""
    level = [((), 0, -1)]
    seen = set()
    spent = 0
    for depth in range(0, 10 ** 6):
        if not level or spent >= budget:
            break
        nxt = {}
        nseen = {}
        for pre, cost, last in sorted(level, key=lambda e: e[1]):
            if pre in seen:
                continue
            if spent >= budget:
                stats["sampled_levels"].append([gran, depth, "budget"])
                break
            seen.add(pre)
            spent += 1
            s = run(dict(pre), gran, cost)
            lv = "%s/%d" % (gran, cost)
            stats["by_level"][lv] = stats["by_level"].get(lv, 0) + 1
            for (k, me_en, alts) in s.choices:
                if k <= last:
                    continue
                c2 = cost + (1 if me_en else 0)
                if c2 > bound:
                    continue
                cap = caps[min(c2, len(caps) - 1)]
                bucket = nxt.setdefault(c2, [])
                for j in alts:
                    nseen[c2] = nseen.get(c2, 0) + 1
                    if len(bucket) < cap:
                        bucket.append((pre + ((k, j),), c2, k))
                    else:
                        q = rng.randrange(nseen[c2])
                        if q < cap:
                            bucket[q] = (pre + ((k, j),), c2, k)
        for c2 in sorted(nseen):
            if nseen[c2] > caps[min(c2, len(caps) - 1)]:
                stats["sampled_levels"].append([gran, depth + 1, "%d preemptions" % c2, nseen[c2]])
        level = [e for c2 in sorted(nxt) for e in nxt[c2]]


def rle(trace):
    out = []
    for t in trace:
        if out and out[-1][0] == t:
            out[-1][1] += 1
        else:
            out.append([t, 1])
    return out


def main():
    for line in sys.stdin:
        line = line.strip()
        if not line:
            continue
        job = json.loads(line)
        try:
            if job["cmd"] == "explore":
                res = explore(job)
            else:
                warm(job["scenario"], job["gran"])
                s, outcome = execute(job["scenario"], 1, {int(k): v for k, v in job["preempts"]}, job["gran"])
                res = {"outcome": outcome, "schedule": rle(s.trace), "yield_points": s.k}
            print(json.dumps(res)); sys.stdout.flush()
        except InfraError as e:
            print(json.dumps({"infra": str(e)})); sys.stdout.flush()
            os._exit(3)

main()
'''


# ----------------------------------------------------------------------------- parent side

def run_runner(jobs: List[Dict[str, Any]], timeout: int) -> List[Dict[str, Any]]:
    try:
        r = sh([PY, "-B", "-c", RUNNER], inp="\n".join(json.dumps(j) for j in jobs) + "\n", timeout=timeout,
               env={"PYTHONPATH": str(REPO), "PYTHONHASHSEED": "0"})
    except subprocess.TimeoutExpired:
        raise Infra("C15 scheduler run timed out")
    lines = [l for l in r.stdout.splitlines() if l.strip()]
    out = []
    for l in lines:
        try:
            out.append(json.loads(l))
        except ValueError:
            raise Infra(f"C15 runner printed garbage: {l[:200]}")
    for o in out:
        if "infra" in o:
            raise Infra("C15 scheduler: " + o["infra"])
    if r.returncode != 0 or len(out) != len(jobs):
        raise Infra(f"C15 runner failed rc={r.returncode} results={len(out)}/{len(jobs)}: {r.stderr[-1500:]}")
    return out


# --- (a) independent interpreter over the committed atomic steps -------------------------------

class LinearSpec:
    """Thread-locality as a program: every thread has its own current runtime and its own stack of
    saved ones; a step of thread t reads and writes ONLY t's entries (inherit additionally reads the
    parent's current runtime at that step).  Runtimes are the dicts of handlers they were given;
    defaults: any default ever registered for the type is accepted (see C14.SpecInterp)."""

    def __init__(self):
        self.defaults: Dict[int, List[int]] = {}
        self.vars: Dict[int, dict] = {}
        self.cur: Dict[int, Optional[dict]] = {}
        self.stack: Dict[int, list] = {}
        self.obs: Dict[int, List[List[str]]] = {}

    def top(self, t):
        if self.cur.get(t) is None:
            self.cur[t] = {}
        return self.cur[t]

    @staticmethod
    def hs(toks: List[str]) -> dict:
        n = int(toks[0])
        return {int(toks[1 + 2 * i]): int(toks[2 + 2 * i]) for i in range(n)}

    def step(self, label: str):
        tk = label.split()
        t, k, a = int(tk[0]), tk[1], tk[2:]
        if k == "c":
            self.vars[int(a[0])] = self.top(t)
        elif k == "n":
            self.vars[int(a[0])] = self.hs(a[1:])
        elif k == "d":
            self.vars[int(a[0])] = {**self.vars[int(a[1])], **self.hs(a[2:])}
        elif k == "h":
            self.vars[int(a[0])] = {**self.top(t), **self.hs(a[1:])}
        elif k == "g":
            self.defaults.setdefault(int(a[0]), []).append(int(a[1]))
        elif k == "r":
            ty = int(a[0])
            top = self.top(t)
            if ty in top:
                ans = ["s%d" % top[ty]]
            elif self.defaults.get(ty):
                ans = sorted({"s%d" % h for h in self.defaults[ty]})
            else:
                ans = ["T"]
            self.obs.setdefault(t, []).append(ans)
        elif k == "i":
            p = self.cur.get(int(a[0]))
            self.cur[t] = p if p is not None else {}
        elif k == "e":
            self.stack.setdefault(t, []).append(self.cur.get(t))
            self.cur[t] = self.vars[int(a[0])]
        elif k == "x":
            self.cur[t] = self.stack[t].pop()
        elif k == "p":
            pass


def served_tokens(toks: List[str]) -> List[str]:
    return [t for t in toks if t == "T" or t.startswith("E:") or (t.startswith("s") and t[1:].lstrip("-").isdigit())]


def norm_anon(toks: List[str]) -> List[str]:
    """rename anonymous identities a<k> per thread in order of first appearance"""
    m: Dict[str, str] = {}
    out = []
    for t in toks:
        for pre in ("@", "F="):
            if t.startswith(pre + "a") and t[len(pre) + 1:].isdigit():
                name = t[len(pre):]
                m.setdefault(name, "a%d" % len(m))
                t = pre + m[name]
        out.append(t)
    return out


def solo_expected(scn, i: int) -> List[List[str]]:
    """thread i+1 run alone after the setup (threads that inherit are excluded by the caller); i = -1: the main
    thread, model thread 0, i.e. the setup followed by scn["main"].  Starting a thread, events and submitting a pool
    task are no steps of the thread's own handler state; the tasks of a pool worker run one after the other"""
    ls = LinearSpec()

    def lin(t, items):
        for it in items:
            k = it[0]
            hs = lambda pairs: " ".join([str(len(pairs))] + [f"{a} {b}" for a, b in pairs])
            if k == "W":
                ls.step(f"{t} e {it[1]}")
                try:
                    lin(t, it[2])
                finally:
                    ls.step(f"{t} x {it[1]}")
            elif k == "Y":
                try:
                    lin(t, it[1])
                except _Boom:
                    pass
            elif k == "^":
                raise _Boom()
            elif k in ("S", "set", "wait", "T"):
                pass
            elif k == "task":
                try:
                    lin(t, it[1])
                except _Boom:
                    pass
            elif k in ("n", "h", "hm"):
                ls.step(f"{t} {k[0]} {it[1]} {hs(it[2])}")
            elif k == "hd":
                ls.step(f"{t} h {it[1]} {hs([[CEX_T, 0]])}")
            elif k == "hl":
                ls.step(f"{t} h {it[1]} {hs([[LOG_T, 0]])}")
            elif k in ("d", "dm"):
                ls.step(f"{t} d {it[1]} {it[2]} {hs(it[3])}")
            else:
                ls.step(" ".join([str(t), k] + [str(x) for x in it[1:]]))
    for t, items in ((0, scn.get("setup", [])), (i + 1, scn["threads"][i] if i >= 0 else scn.get("main", []))):
        try:
            lin(t, items)
        except _Boom:
            pass
    return ls.obs.get(i + 1, [])


class _Boom(Exception):
    pass


# model type numbers of the library's request types observed in the library-context-manager scenarios (as in RUNNER);
# tag 0 is the library's own `disabled` handler of the type
LOG_T, CEX_T = 90, 91


def uses_inherit(items) -> bool:
    for it in items:
        if it[0] == "i":
            return True
        if it[0] == "W" and uses_inherit(it[2]):
            return True
        if it[0] in ("Y", "task") and uses_inherit(it[1]):
            return True
    return False


HELPER_NAMES = {"hl": "labrea.logging.disabled()", "hd": "labrea.cache.disabled()", "h": "runtime.handle(type, handler) / (mapping of 2+)",
                "hm": "runtime.handle(mapping)", "d": "Runtime.handle(type, handler) / (mapping of 2+) on a runtime object",
                "dm": "Runtime.handle(mapping) on a runtime object", "i": "runtime.inherit(thread)", "c": "runtime.current_runtime()",
                "W": "with <runtime>: (enter / exit)", "r": "request.run()"}


def helper_calls(items) -> Dict[str, int]:
    out: Dict[str, int] = {}
    for it in items:
        if it[0] in HELPER_NAMES:
            out[HELPER_NAMES[it[0]]] = out.get(HELPER_NAMES[it[0]], 0) + 1
        for sub in ((it[2],) if it[0] == "W" else (it[1],) if it[0] in ("Y", "task") else ()):
            for k, v in helper_calls(sub).items():
                out[k] = out.get(k, 0) + v
    return out


FIRST_CALLS = {"r": "request.run()", "h": "runtime.handle() / logging.disabled() / cache.disabled()", "c": "runtime.current_runtime()",
               "i": "runtime.inherit(thread)", "e": "Runtime.__enter__", "d": "Runtime.handle on a runtime object"}


def first_touch_stats(outcome, acc: Dict[str, Dict[str, int]]) -> None:
    """(a-first) coverage, read off the committed steps of one distinct outcome: for every thread other than the main
    thread, which library call was its FIRST one and where the main thread (model thread 0) was at that step; for
    every thread started inside the scenario, who started it from where"""
    depth: Dict[int, int] = {}
    entered0 = False
    touched = set()
    for lab in outcome["commits"]:
        tk = lab.split()
        t, k = int(tk[0]), tk[1]
        if k == "S":
            who = "the main thread" if t == 0 else "a worker"
            where = f"inside {depth.get(t, 0)} context(s)" if depth.get(t, 0) else "outside any context"
            key = f"started by {who} {where}"
            acc["threads_started_inside_the_scenario"][key] = acc["threads_started_inside_the_scenario"].get(key, 0) + 1
            continue
        if t != 0 and t not in touched and k in FIRST_CALLS:
            touched.add(t)
            d0 = depth.get(0, 0)
            state = f"is inside {d0} context(s)" if d0 else ("has left its context(s)" if entered0 else "has not entered a context yet")
            key = f"{FIRST_CALLS[k]} / the main thread {state}"
            acc["first_call_of_a_thread_without_runtime"][key] = acc["first_call_of_a_thread_without_runtime"].get(key, 0) + 1
        if k == "e":
            depth[t] = depth.get(t, 0) + 1
            entered0 = entered0 or t == 0
        elif k == "x":
            depth[t] = depth.get(t, 0) - 1


def allowed_ok(got: List[str], spec: List[List[str]]) -> bool:
    return len(got) == len(spec) and all(g in a for g, a in zip(got, spec))


def show(spec: List[List[str]]) -> List[str]:
    return [a[0] if len(a) == 1 else "|".join(a) for a in spec]


def judge_ctx(scn, outcome, model_line: Optional[str]) -> List[Tuple[str, str]]:
    res: List[Tuple[str, str]] = []
    n = len(scn["threads"])
    ls = LinearSpec()
    try:
        for lab in outcome["commits"]:
            ls.step(lab)
        spec_ok = True
    except (KeyError, IndexError):
        spec_ok = False           # e.g. exit committed without matching enter: implementation went off the rails
        res.append(("failing-input", "handler contexts: the committed steps are not a well-nested history per thread"))
    # the main thread (model thread 0) is judged like the others when it runs a program of its own next to them
    for t in ([0] if "main" in scn else []) + list(range(1, n + 1)):
        got = served_tokens(outcome["obs"][str(t)])
        who = f"thread {t}" + (" (the main thread)" if t == 0 else "")
        if any(x.startswith("E:") for x in outcome["obs"][str(t)]):
            res.append(("failing-input", f"handler contexts: {who} got an unexpected exception: {outcome['obs'][str(t)]}"))
            continue
        if not uses_inherit(scn["threads"][t - 1] if t else scn["main"]):
            solo = solo_expected(scn, t - 1)
            if not allowed_ok(got, solo):
                res.append(("failing-input", f"handler contexts: {who} observed {got}; run alone it observes {show(solo)} "
                                             f"(another thread changed which handler serves it)"))
                continue
        if spec_ok and not allowed_ok(got, ls.obs.get(t, [])):
            res.append(("failing-input", f"handler contexts: {who} observed {got}; with inherit() reading the parent's "
                                         f"runtime at its step the thread-local specification gives {show(ls.obs.get(t, []))}"))
    if model_line is not None:
        per: Dict[str, List[str]] = {str(t): [] for t in range(n + 1)}
        for tok in model_line.split():
            if tok.startswith("F"):
                t, name = tok[1:].split("=", 1)
                per.setdefault(t, []).append("F=" + name)
            else:
                t, o = tok.split(":", 1)
                per.setdefault(t, []).append(o)
        for t in range(n + 1):
            a = norm_anon(outcome["obs"][str(t)])
            b = norm_anon(per.get(str(t), []))
            if t == 0 and not any(lab.startswith("0 ") for lab in outcome["commits"]):
                continue
            if a != b:
                res.append(("correspondence", f"handler contexts: thread {t}: implementation {a}, Lean model on the observed "
                                              f"order of atomic steps {b}"))
    return res


def judge_reg(scn, outcome, model_line: Optional[str]) -> List[Tuple[str, str]]:
    res = []
    if outcome.get("lock_acquisitions_at_least_one_per_registration") is False:
        res.append(("correspondence", "register: a registration completed without ever taking the table's lock: the step the "
                                      "model treats as atomic (read the table, add the entry, store the table) is unprotected"))
    want = {}
    for i, prog in enumerate(scn["threads"]):
        for key, val in prog:
            want.setdefault(str(key), set()).add(val)
    for key, vals in sorted(want.items()):
        if key not in outcome["table"]:
            res.append(("failing-input", f"register: key {key} registered by a thread is missing afterwards (lost update); "
                                         f"table {outcome['table']}"))
        elif outcome["table"][key] not in vals:
            res.append(("failing-input", f"register: key {key} maps to {outcome['table'][key]}, never registered"))
    if model_line is not None:
        model = dict(tok.split("=") for tok in model_line.split())
        impl = {k: str(v) for k, v in outcome["table"].items()}
        if model != impl:
            res.append(("correspondence", f"register: implementation table {impl}, Lean model on the observed commit order {model}"))
    return res


def judge_cache(scn, outcome, model_line: Optional[str]) -> List[Tuple[str, str]]:
    res = []
    for i, a in enumerate(scn["threads"]):
        got = outcome["results"].get(str(i))
        if got != a * 100 + 7:
            res.append(("failing-input", f"cache: thread {i} evaluated with A={a} and got {got}, not its own value {a * 100 + 7}"))
    if model_line is not None:
        model = dict(tok.split("=") for tok in model_line.split())
        for i, a in enumerate(scn["threads"]):
            if model.get(str(i)) != str(a):
                res.append(("correspondence", f"cache: Lean model on the observed dict-operation order gives thread {i} "
                                              f"the value of fingerprint {model.get(str(i))}, its own is {a}"))
    return res


def judge_graph(scn, outcome, model_line: Optional[str]) -> List[Tuple[str, str]]:
    """(d): the value a thread gets, and the value a later sequential evaluation with the same options gets, is
    the one the thread's evaluation gives when it runs alone on a fresh graph"""
    res = []
    node = scn["node"]
    for i, o in enumerate(scn["threads"]):
        want = outcome["expected"][str(i)]
        got = outcome["results"].get(str(i))
        if got != want:
            res.append(("failing-input", f"shared node: thread {i} evaluated a cached dataset over a shared `{node}` node with "
                                         f"options {json.dumps(o)} and got {got}; evaluated alone these options give {want}"))
        aft = outcome["after"].get(str(i))
        if aft != want:
            res.append(("failing-input", f"shared node: after the concurrent evaluations over a shared `{node}` node, a sequential "
                                         f"evaluation with thread {i}'s options {json.dumps(o)} returns {aft}, not their own value "
                                         f"{want} (a wrong value was stored under this cache key)"))
    if model_line is not None:
        model = dict(tok.split("=") for tok in model_line.split())
        for i, fp in enumerate(outcome["fps"]):
            if model.get(str(i)) != str(fp):
                res.append(("correspondence", f"shared node: Lean model on the observed dict-operation order gives thread {i} "
                                              f"the value of fingerprint class {model.get(str(i))}, its own is {fp}"))
    return res


def model_lines(scn, outcomes: List[Dict[str, Any]]) -> List[str]:
    kind = scn["kind"]
    if kind == "graph":
        # the dataset's own cache, as in (c); fingerprints are the classes of the threads' real cache fingerprints
        return run_driver("drv_runtime", [" ".join([str(len(o["fps"]))] + [str(f) for f in o["fps"]] + ["|"] + [str(t) for t in o["dictops"]])
                                          for o in outcomes], args=["cache"])
    if kind == "ctx":
        # ("<t> S <u>", thread t started thread u, is not a step of the model)
        return run_driver("drv_runtime", [" ".join(c for c in o["commits"] if c.split()[1] != "S") for o in outcomes], args=["sched"])
    if kind == "reg":
        return run_driver("drv_runtime", [" ".join(o["commits"]) for o in outcomes], args=["reg"])
    n = len(scn["threads"])
    return run_driver("drv_runtime", [" ".join([str(n)] + [str(a) for a in scn["threads"]] + ["|"] + [str(t) for t in o["dictops"]])
                                      for o in outcomes], args=["cache"])


def judge(scn, outcome, model_line):
    return {"ctx": judge_ctx, "reg": judge_reg, "cache": judge_cache, "graph": judge_graph}[scn["kind"]](scn, outcome, model_line)


# ----------------------------------------------------------------------------- scenarios

def scenarios(rng: random.Random, thorough: bool) -> List[Tuple[str, Dict[str, Any]]]:
    T0, T1 = 0, 1
    out: List[Tuple[str, Dict[str, Any]]] = [
        ("a1 one Runtime object entered by two threads",
         {"kind": "ctx", "setup": [["g", T0, 1], ["n", 0, [[T0, 2]]]],
          "threads": [[["r", T0], ["W", 0, [["r", T0]]], ["r", T0], ["p"]],
                      [["W", 0, [["r", T0], ["W", 0, [["r", T0]]]]], ["r", T0], ["p"]]]}),
        ("a2 handle() contexts in one thread vs requests in another",
         {"kind": "ctx", "setup": [["g", T0, 1], ["g", T1, 5]],
          "threads": [[["h", 1, [[T0, 2]]], ["W", 1, [["r", T0], ["h", 2, [[T1, 6]]], ["W", 2, [["r", T1]]], ["r", T1]]], ["r", T0]],
                      [["r", T0], ["r", T1], ["r", T0], ["p"]]]}),
        ("a3 inherit() while the parent is inside / outside its block",
         {"kind": "ctx", "setup": [["g", T0, 1], ["n", 0, [[T0, 2]]]],
          "threads": [[["W", 0, [["r", T0]]], ["r", T0]],
                      [["i", 1], ["r", T0], ["r", T0]]]}),
        ("a4 three threads: shared object, exception exit, fresh thread",
         {"kind": "ctx", "setup": [["g", T0, 1], ["n", 0, [[T0, 2]]], ["d", 1, 0, [[T0, 3]]]],
          "threads": [[["Y", [["W", 0, [["r", T0], ["^"]]]]], ["r", T0], ["p"]],
                      [["W", 1, [["r", T0]]], ["p"]],
                      [["W", 0, [["W", 1, [["r", T0]]], ["r", T0]]], ["p"]]]}),
        ("a5 inherit() by a worker that already holds a runtime (reused pool thread)",
         {"kind": "ctx", "setup": [["g", T0, 1], ["n", 0, [[T0, 2]]]],
          "threads": [[["W", 0, [["r", T0], ["r", T0]]], ["r", T0]],
                      [["r", T0], ["p"], ["i", 1], ["r", T0], ["p"], ["h", 1, [[T0, 7]]], ["W", 1, [["r", T0]]], ["i", 1], ["r", T0]]]}),
        ("a6 labrea.cache.disabled() inside different handler contexts of two threads",
         {"kind": "ctx", "setup": [["g", T0, 1]],
          "threads": [[["h", 1, [[T0, 21]]], ["W", 1, [["hd", 3], ["W", 3, [["r", T0]]], ["r", T0]]], ["hd", 5], ["W", 5, [["r", T0]]], ["r", T0]],
                      [["h", 2, [[T0, 22]]], ["W", 2, [["r", T0], ["hd", 4], ["W", 4, [["r", T0], ["p"]]], ["r", T0]]], ["p"]]]}),
        ("b1 two threads register on one Overloaded",
         {"kind": "reg", "via": "overloaded", "threads": [[[1, 10]], [[2, 20]]]}),
        ("b2 three threads Dataset.register",
         {"kind": "reg", "via": "dataset", "threads": [[[1, 10]], [[2, 20]], [[3, 30]]]}),
        ("b4 the list-of-aliases decorator form from two threads",
         {"kind": "reg", "via": "overload_list", "threads": [[[1, 10], [2, 20]], [[3, 30]]]}),
        ("b5 list-of-aliases form against plain register",
         {"kind": "reg", "via": "overload_list", "threads": [[[1, 10]], [[2, 20]], [[3, 30]]]}),
        ("b6 interface implementations registered from two threads",
         {"kind": "reg", "via": "implements", "threads": [[[1, 10]], [[2, 20]], [[3, 30]]]}),
        ("b3 two registrations each",
         {"kind": "reg", "via": "overloaded", "threads": [[[1, 10], [2, 20]], [[3, 30], [4, 40]]]}),
        ("c1 two evaluations with different options",
         {"kind": "cache", "threads": [1, 2]}),
        ("c2 three evaluations, two with equal options",
         {"kind": "cache", "threads": [1, 2, 1]}),
        ("c3 two evaluations with equal options while the backend loses its entries once",
         {"kind": "cache", "threads": [1, 1], "evictions": 1}),
        ("c4 two evaluations with different options while the backend loses its entries twice",
         {"kind": "cache", "threads": [1, 2], "evictions": 2}),
    ]
    # random handler-context scenarios
    for r in range(5 if thorough else 1):
        nthr = rng.choice([2, 2, 3])
        setup = [["g", T0, 1], ["n", 0, [[T0, 2]]], ["d", 1, 0, [[T1, 3]]]]
        nvar = [2]
        tag = [10]

        def prog(depth=0):
            items = []
            for _ in range(rng.randint(1, 3)):
                c = rng.random()
                if c < 0.4:
                    items.append(["r", rng.choice([T0, T1])])
                elif c < 0.7 and depth < 2:
                    items.append(["W", rng.choice([0, 1]), prog(depth + 1)])
                elif c < 0.85 and depth < 2:
                    x = nvar[0]; nvar[0] += 1; tag[0] += 1
                    items.append(["h", x, [[rng.choice([T0, T1]), tag[0]]]])
                    items.append(["W", x, prog(depth + 1)])
                else:
                    items.append(["p"])
            return items
        threads = [prog() + [["r", T0]] for _ in range(nthr)]
        if rng.random() < 0.5:
            threads[-1] = [["i", 1]] + threads[-1]
        elif rng.random() < 0.6:
            # inherit after the worker has already used (and so holds) a runtime of its own
            pos = rng.randint(1, len(threads[-1]))
            threads[-1] = threads[-1][:pos] + [["i", 1]] + threads[-1][pos:]
        out.append((f"a-random-{r}", {"kind": "ctx", "setup": setup, "threads": threads}))
    # (d) last, so that the scenarios above and their seeds are what they were before the family existed
    out += graph_scenarios(rng, thorough)
    # (a-lib) after (d), for the same reason
    out += lib_scenarios(rng, thorough)
    # (a-first) after (a-lib), for the same reason
    out += first_scenarios(rng, thorough)
    return out


def first_scenarios(rng: random.Random, thorough: bool) -> List[Tuple[str, Dict[str, Any]]]:
    """(a-first) WHO starts from WHAT: threads that have never touched the runtime make their first request /
    handle() / current_runtime() / inherit() / __enter__ / logging.disabled() call before, while and after the
    process's MAIN thread (scn["main"], model thread 0, a scheduled participant like the workers) and / or the
    thread that started them is inside one or several handler contexts.  ["S", t] starts thread t from inside the
    scenario (by the main thread or by a worker, inside or outside a context of its own); ["set", e] / ["wait", e]
    order the phases where the scenario is directed ("pool-style" workers: the tasks of one reused thread are
    separated by waits, as a pool worker waits for its queue); the other scenarios leave the order to the schedule
    exploration.  One scenario runs real concurrent.futures pools, strictly sequentially.  T0 has a default
    (tag 1), T1 has none (an unhandled request fails with TypeError).  The directed scenarios always run; the seed
    adds random programs (quick 1, thorough 4)."""
    T0, T1, L, C = 0, 1, LOG_T, CEX_T
    out: List[Tuple[str, Dict[str, Any]]] = []

    def add(name, main, threads, setup=(), **kw):
        out.append((f"a-first {name}", {"kind": "ctx", "first": True, "setup": [["g", T0, 1]] + list(setup),
                                        "main": main, "threads": threads, **kw}))

    add("pool-style: a reused worker's first task while the main thread is inside two nested handle() blocks, its next "
        "after main left; another worker's first task after main left",
        [["h", 1, [[T0, 2]]], ["W", 1, [["r", T0], ["h", 2, [[T1, 6]]], ["W", 2, [["set", 1], ["wait", 2], ["r", T1]]], ["r", T0]]],
         ["set", 3], ["wait", 4], ["r", T0], ["r", T1]],
        [[["wait", 1], ["r", T0], ["r", T1], ["p"], ["set", 2], ["wait", 3], ["r", T0], ["r", T1], ["p"], ["set", 4]],
         [["wait", 3], ["r", T0], ["r", T1], ["p"]]])
    add("first request before the main thread entered, later ones while it is inside and after it left; a worker "
        "that inherit()s from the main thread",
        [["wait", 1], ["h", 1, [[T0, 2], [T1, 6]]], ["W", 1, [["r", T0], ["set", 2], ["wait", 3]]], ["set", 4], ["r", T0]],
        [[["r", T0], ["p"], ["set", 1], ["wait", 2], ["r", T0], ["r", T1], ["set", 3], ["wait", 4], ["r", T0]],
         [["wait", 2], ["i", 0], ["r", T0], ["r", T1], ["wait", 4], ["r", T0], ["p"]]])
    add("first call current_runtime() / handle() against the main thread's handle() block (free order)",
        [["h", 1, [[T0, 2]]], ["W", 1, [["r", T0]]], ["r", T0]],
        [[["c", 5], ["r", T0], ["W", 5, [["r", T0]]], ["p"]],
         [["h", 6, [[T1, 7]]], ["W", 6, [["r", T0], ["r", T1]]], ["r", T0]]])
    add("first call __enter__ of the Runtime object the main thread is inside / inherit(main) (free order)",
        [["W", 0, [["W", 1, [["r", T0], ["r", T1]]], ["r", T0]]], ["r", T0]],
        [[["W", 0, [["r", T0], ["r", T1]]], ["r", T0], ["r", T1], ["p"]],
         [["i", 0], ["r", T0], ["r", T1], ["p"]]],
        [["n", 0, [[T0, 2]]], ["d", 1, 0, [[T1, 6]]]])
    add("main thread inside logging.disabled() and cache.disabled(): first LogRequest / CacheExistsRequest / "
        "logging.disabled() of fresh threads",
        [["hl", 1], ["W", 1, [["hd", 2], ["W", 2, [["r", L], ["r", C], ["set", 1], ["wait", 2]]], ["r", L]]], ["set", 3], ["r", L], ["r", C]],
        [[["wait", 1], ["r", L], ["r", C], ["r", T0], ["set", 2], ["wait", 3], ["r", L], ["r", C]],
         [["wait", 1], ["hl", 5], ["W", 5, [["r", L], ["r", C]]], ["r", L], ["r", C]]],
        [["g", T1, 5], ["g", L, 2], ["g", C, 3]], lib=True)
    add("threads started by the main thread while it is inside handle(); an inheriting one starts a third",
        [["h", 1, [[T0, 2], [T1, 6]]], ["W", 1, [["S", 1], ["r", T0], ["S", 2]]], ["r", T0]],
        [[["r", T0], ["r", T1], ["p"]],
         [["i", 0], ["r", T0], ["S", 3], ["r", T1]],
         [["r", T0], ["r", T1], ["p"]]])
    add("a thread started by a worker that is inside its own handle() block, main inside another",
        [["h", 2, [[T0, 2]]], ["W", 2, [["r", T0]]], ["r", T0]],
        [[["h", 1, [[T0, 3], [T1, 7]]], ["W", 1, [["S", 2], ["r", T0]]], ["r", T1]],
         [["r", T0], ["r", T1], ["p"], ["i", 1], ["r", T0], ["r", T1]]])
    add("real ThreadPoolExecutor workers (one reused thread each): first task before / while / after the main thread "
        "is inside handle() blocks, inherit() in a later task",
        [["T", 1], ["h", 1, [[T0, 2], [T1, 6]]],
         ["W", 1, [["T", 1], ["T", 2], ["h", 2, [[T0, 3]]], ["W", 2, [["T", 3], ["T", 2]]], ["T", 3], ["r", T0]]],
         ["T", 1], ["T", 2], ["T", 3], ["T", 4], ["r", T0]],
        [[["task", [["r", T0], ["p"]]], ["task", [["r", T0], ["r", T1]]], ["task", [["r", T0], ["p"]]]],
         [["task", [["r", T0], ["r", T1], ["p"]]], ["task", [["i", 0], ["r", T0], ["r", T1]]], ["task", [["r", T0], ["p"]]]],
         [["task", [["c", 7], ["r", T0]]], ["task", [["W", 7, [["r", T0]]], ["r", T1]]], ["task", [["r", T0], ["p"]]]],
         [["task", [["r", T0], ["r", T1], ["p"]]]]],
        pool=True)

    for r in range(4 if thorough else 1):
        nw = rng.choice([2, 2, 3])
        tag = [70]

        def hs():
            tag[0] += 1
            pairs = [[rng.choice([T0, T1]), tag[0]]]
            if rng.random() < 0.4:
                tag[0] += 1
                pairs.append([T0 + T1 - pairs[0][0], tag[0]])
            return pairs

        def reqs():
            return [["r", rng.choice([T0, T0, T1])] for _ in range(rng.randint(1, 2))]
        # workers: a first call of a random kind, then requests; the last one may be started from inside the scenario
        threads: List[Any] = []
        for t in range(1, nw + 1):
            x = 100 * t
            first = rng.choice(["r", "r", "h", "c", "i", "W", "p"])
            if first == "h":
                prog = [["h", x, hs()], ["W", x, reqs()]]
            elif first == "c":
                prog = [["c", x]] + reqs() + [["W", x, reqs()]]
            elif first == "i":
                prog = [["i", 0]]
            elif first == "W":
                prog = [["W", rng.choice([0, 1]), reqs()]]
            elif first == "p":
                prog = [["p"]]
            else:
                prog = []
            threads.append(prog + reqs() + [["p"], ["r", T0]])
        started_inside = nw if rng.random() < 0.7 else None
        spawner = rng.choice([0] + list(range(1, nw))) if started_inside else None
        # main: one or two nested blocks (its own handle() or the setup's Runtime objects), requests in between
        inner = reqs()
        if rng.random() < 0.5:
            inner = [["h", 12, hs()], ["W", 12, reqs()]] + inner
        if spawner == 0:
            inner.insert(rng.randint(0, len(inner)), ["S", started_inside])
        if rng.random() < 0.5:
            main = [["h", 11, hs()], ["W", 11, inner]] + reqs()
        else:
            main = [["W", rng.choice([0, 1]), inner]] + reqs()
        if rng.random() < 0.3:
            main = reqs() + main
        if spawner:
            prog = threads[spawner - 1]
            pos = rng.randint(0, len(prog))
            w = [it for it in prog[:pos] if it[0] == "W"]
            if w and rng.random() < 0.6:
                w[-1][2].insert(rng.randint(0, len(w[-1][2])), ["S", started_inside])
            else:
                prog.insert(pos, ["S", started_inside])
        add(f"random-{r}", main, threads, [["n", 0, [[T0, 2]]], ["d", 1, 0, [[T1, 3]]]])
    return out


def lib_scenarios(rng: random.Random, thorough: bool) -> List[Tuple[str, Dict[str, Any]]]:
    """(a-lib) handler contexts built with the library's OWN context managers and derived-runtime helpers:
    labrea.logging.disabled() ["hl"], labrea.cache.disabled() ["hd"], runtime.handle(type, handler) / (mapping)
    ["h" / "hm"], Runtime.handle on a runtime object ["d" / "dm"], runtime.inherit() ["i"], nested in either order
    inside the threads' own blocks and entered repeatedly, by 2-3 threads whose current runtimes differ.  Request
    types: two test types, LogRequest and CacheExistsRequest; every block of a thread has its own tags.  The
    directed scenarios always run; the seed adds random programs over the same operations (quick 1, thorough 4)."""
    T0, T1, L, C = 0, 1, LOG_T, CEX_T
    setup = [["g", T0, 1], ["g", T1, 5], ["g", L, 2], ["g", C, 3]]
    out: List[Tuple[str, Dict[str, Any]]] = []

    def add(name, threads, extra_setup=()):
        out.append((f"a-lib {name}", {"kind": "ctx", "lib": True, "setup": setup + list(extra_setup), "threads": threads}))

    def loop(helper, x, bodies):
        """`with helper(): body` once per body, every time a fresh call of the helper"""
        items = []
        for j, b in enumerate(bodies):
            items += [[helper, x + j], ["W", x + j, b]]
        return items

    add("logging.disabled() in a loop inside the own handle() blocks of two threads",
        [[["h", 1, [[T0, 21], [L, 31]]], ["W", 1, loop("hl", 10, [[["r", L], ["r", T0]], [["r", T0], ["r", L]]]) + [["r", L]]], ["r", T0]],
         [["h", 2, [[T0, 22], [L, 32]]], ["W", 2, loop("hl", 20, [[["r", T0], ["r", L]], [["r", T0]]]) + [["r", L], ["r", T0]]]]])
    add("cache.disabled() in a loop inside the own handle() blocks of two threads",
        [[["hm", 1, [[T0, 21]]], ["W", 1, loop("hd", 10, [[["r", C], ["r", T0]], [["r", T0]]]) + [["r", C]]]],
         [["h", 2, [[T0, 22], [C, 42]]], ["W", 2, loop("hd", 20, [[["r", T0]], [["r", T0], ["r", C]]]) + [["r", C], ["r", T0]]]]])
    add("a thread on its default runtime against a thread inside handle(), both looping over logging.disabled()",
        [loop("hl", 10, [[["r", T0], ["r", L]], [["r", T0]], [["r", L]]]) + [["r", L]],
         [["hm", 2, [[T0, 22], [L, 32]]], ["W", 2, loop("hl", 20, [[["r", L]], [["r", T0], ["r", L]]]) + [["r", T0]]]]])
    add("the helpers nested in either order: handle forms, Runtime.handle on an object, logging / cache disabled",
        [[["hm", 1, [[T0, 21]]], ["W", 1, [["hl", 10], ["W", 10, [["h", 11, [[T1, 41]]], ["W", 11, [["r", T0], ["r", T1], ["r", L]]]]],
                                         ["c", 12], ["dm", 13, 12, [[L, 33]]], ["W", 13, [["r", L], ["hl", 14], ["W", 14, [["r", L], ["r", T0]]]]]]]],
         [["n", 2, [[T0, 22], [T1, 52]]], ["W", 2, [["hd", 20], ["W", 20, [["hl", 21], ["W", 21, [["r", T0], ["r", L], ["r", C]]]]],
                                                   ["hl", 22], ["W", 22, [["hd", 23], ["W", 23, [["r", T1], ["r", C], ["r", L]]]]]]]]])
    add("one Runtime object and runtimes derived from it, logging.disabled() entered three times by one thread",
        [[["W", 0, loop("hl", 10, [[["r", T0]], [["r", L], ["r", T0]], [["r", T0]]])], ["r", L]],
         [["W", 1, loop("hl", 20, [[["r", T0], ["r", L]], [["r", T0]]]) + [["r", L]]], ["r", T0]]],
        [["n", 0, [[T0, 23], [L, 34]]], ["d", 1, 0, [[T0, 24]]]])
    add("three threads: two in different handle() blocks, a worker that inherits, all looping over logging.disabled()",
        [[["h", 1, [[T0, 21]]], ["W", 1, loop("hl", 10, [[["r", T0]], [["r", T0], ["r", L]]])]],
         [["h", 2, [[T0, 22], [L, 32]]], ["W", 2, loop("hl", 20, [[["r", T0]], [["r", L], ["r", T0]]])]],
         [["i", 1]] + loop("hl", 30, [[["r", T0]], [["r", T0]]]) + [["r", L]]])

    for r in range(4 if thorough else 1):
        nthr = rng.choice([2, 2, 3])
        nvar, tag = [0], [60]

        def fresh():
            nvar[0] += 1
            return 100 * (len(threads) + 1) + nvar[0]

        def block(depth):
            items = []
            for _ in range(rng.randint(1, 2) if depth else rng.randint(2, 3)):
                c = rng.random()
                if c < 0.3 or depth >= 3:
                    items.append(["r", rng.choice([T0, T0, T1, L, L, C])])
                    continue
                x = fresh()
                tag[0] += 1
                if c < 0.6:
                    items.append([rng.choice(["hl", "hl", "hd"]), x])
                elif c < 0.85:
                    pairs = [[rng.choice([T0, T1, L, C]), tag[0]]]
                    if rng.random() < 0.4:
                        tag[0] += 1
                        pairs.append([rng.choice([t for t in (T0, T1, L, C) if t != pairs[0][0]]), tag[0]])
                    items.append([rng.choice(["h", "hm"]), x, pairs])
                else:
                    y = fresh()
                    items.append(["c", y])
                    items.append([rng.choice(["d", "dm"]), x, y, [[rng.choice([T0, L]), tag[0]]]])
                items.append(["W", x, block(depth + 1) + [["r", rng.choice([T0, L])]]])
            return items
        threads: List[Any] = []
        for _ in range(nthr):
            nvar[0] = 0
            tag[0] += 1
            x = fresh()
            threads.append([["h", x, [[T0, tag[0]]]], ["W", x, block(1)], ["r", T0]])
        if nthr == 3 and rng.random() < 0.5:
            threads[-1] = [["i", 1]] + threads[-1]
        add(f"random-{r}", threads)
    return out


# (d) the directed family over user-built shared nodes: node kind (see build_graph in RUNNER) -> options of two
# threads with different effective options (different cache fingerprints AND different values)
GRAPH_NODES: Dict[str, List[Dict[str, Any]]] = {
    "with_options": [{"A": 1}, {"A": 2}],
    "with_options_section": [{"S": {"A": 1}}, {"S": {"A": 2}}],
    "with_default_options": [{"A": 1}, {}],
    "with_options_over_dataset": [{"A": 1, "U": 8}, {"A": 2, "U": 9}],
    "with_options_as_argument": [{"A": 1}, {"A": 2}],
    "switch": [{"MODE": "x", "X": 11, "Y": 12, "Z": 13}, {"MODE": "y", "X": 21, "Y": 22, "Z": 23}],
    "case": [{"A": 1, "X": 11, "Y": 12}, {"A": 50, "X": 21, "Y": 22}],
    "coalesce": [{"P": 1, "Q": 2}, {"Q": 3}],
    "template": [{"A": "a1", "B": "b1"}, {"A": "a2", "B": "b2"}],
    "map": [{"XS": [1, 2]}, {"XS": [3]}],
    "iter": [{"A": 1, "B": 2}, {"A": 3, "B": 4}],
    "collections": [{"A": 1, "B": 2}, {"A": 3, "B": 4}],
    "pipeline": [{"A": 1, "K": 10}, {"A": 2, "K": 20}],
    "overloaded": [{"K": 1, "X": 11, "Y": 12, "Z": 13}, {"K": 2, "X": 21, "Y": 22, "Z": 23}],
    "bind_apply": [{"MODE": "x", "X": 11, "Y": 12}, {"MODE": "y", "X": 21, "Y": 22}],
    "option_default": [{"A": 1, "B": 5, "C": 6}, {"B": 2}],
}
# a third thread with options of its own (the three-thread scenarios are: different, different, equal to the
# first; and for the option wrappers also three different ones)
GRAPH_THIRD: Dict[str, Dict[str, Any]] = {
    "with_options": {"A": 3},
    "with_default_options": {"A": 2},
    "switch": {"MODE": "q", "X": 31, "Y": 32, "Z": 33},
}
GRAPH_WRAPPERS = ["with_options", "with_default_options"]
# the two threads do different things (one takes the default / the second member / the fallback): which of them is the
# one that is stopped matters, so both starting orders are explored also in the quick tier
GRAPH_ASYMMETRIC = ["with_default_options", "coalesce", "option_default"]


def graph_scenarios(rng: random.Random, thorough: bool) -> List[Tuple[str, Dict[str, Any]]]:
    """always: every node kind with two threads / different options; the option wrappers with equal options and
    with three threads (two with equal options); quick: three threads for one more kind chosen by the seed;
    thorough: three threads for all kinds, and three different options for the wrappers and the switch"""
    out: List[Tuple[str, Dict[str, Any]]] = []
    kinds = list(GRAPH_NODES)

    def add(tag, node, threads, both_orders=True):
        out.append((f"d-{node} {tag}", {"kind": "graph", "node": node, "threads": threads,
                                        "both_orders": bool(both_orders or thorough)}))
    for node in kinds:
        add("two evaluations with different options", node, GRAPH_NODES[node], node in GRAPH_ASYMMETRIC)
    for node in GRAPH_WRAPPERS:
        a, b = GRAPH_NODES[node]
        add("two evaluations with equal options", node, [a, a], False)
    rest = [k for k in kinds if k not in GRAPH_WRAPPERS]
    three = kinds if thorough else GRAPH_WRAPPERS + [rng.choice(rest)]
    for node in three:
        a, b = GRAPH_NODES[node]
        add("three evaluations, two with equal options", node, [a, b, a])
    if thorough:
        for node in sorted(GRAPH_THIRD):
            add("three evaluations with different options", node, GRAPH_NODES[node] + [GRAPH_THIRD[node]])
    return out


def phases(kind: str, thorough: bool, scn: Optional[Dict[str, Any]] = None) -> List[Dict[str, Any]]:
    """cap = schedules per exploration depth; a phase runs at most cap * (bound + 1) schedules.
    graph scenarios: caps[c] = schedules with c preemptions per exploration depth (c = 0: the free choices - which
    thread starts, which one goes on when a thread has finished), budget = schedules per phase"""
    pb = 3 if thorough else 2
    if kind == "ctx" and scn is not None and scn.get("pool"):
        return [{"gran": "op", "bound": 0, "cap": 1, "random": 0}]       # strictly sequential: one execution
    if kind == "ctx" and scn is not None and scn.get("first"):
        # one reservoir per number of preemptions, as in (a-lib); c = 0 are the free choices (who starts, who goes on
        # when a thread finishes or waits for an event)
        if thorough:
            op = {"caps": [60, 600, 600, 600], "budget": 2000, "random": 0}
            line = {"caps": [60, 1500, 400, 200], "budget": 2500, "random": 100}
            opcode = {"caps": [60, 1500, 300, 150], "budget": 2200, "random": 100}
        else:
            op = {"caps": [30, 130, 30], "budget": 180, "random": 0}
            line = {"caps": [30, 180, 20], "budget": 230, "random": 10}
            opcode = {"caps": [30, 80, 10], "budget": 110, "random": 5}
        return [{"gran": "op", "bound": pb, "cap": 0, **op},
                {"gran": "line", "bound": pb, "cap": 0, **line},
                {"gran": "opcode", "bound": pb, "cap": 0, **opcode}]
    if kind == "ctx" and scn is not None and scn.get("lib"):
        # one reservoir per number of preemptions, as in (d): all single-preemption schedules first
        if thorough:
            op = {"caps": [60, 600, 600, 600], "budget": 2000, "random": 0}
            line = {"caps": [60, 2500, 500, 250], "budget": 3500, "random": 100}
            opcode = {"caps": [60, 2500, 300, 150], "budget": 3000, "random": 100}
        else:
            op = {"caps": [30, 130, 40], "budget": 200, "random": 0}
            line = {"caps": [30, 650, 30], "budget": 700, "random": 10}
            opcode = {"caps": [30, 120, 10], "budget": 150, "random": 5}
        return [{"gran": "op", "bound": pb, "cap": 0, **op},
                {"gran": "line", "bound": pb, "cap": 0, **line},
                {"gran": "opcode", "bound": pb, "cap": 0, **opcode}]
    if kind == "graph":
        two = len(scn["threads"]) == 2
        free = 30 if (scn.get("both_orders") or not two) else 0
        if thorough:
            line = {"caps": [60, 2500, 500, 250], "budget": 3500, "random": 100}
            opcode = {"caps": [60, 2500, 300, 150], "budget": 3000, "random": 100}
        elif two:
            line = {"caps": [free, 600, 40], "budget": 700, "random": 10}
            opcode = {"caps": [free, 200, 15], "budget": 220, "random": 5}
        else:
            line = {"caps": [free, 300, 20], "budget": 340, "random": 10}
            opcode = {"caps": [free, 150, 10], "budget": 170, "random": 5}
        op = {"caps": [60, 600, 600, 600], "budget": 2000} if thorough else {"caps": [30, 60, 60], "budget": 150}
        return [{"gran": "op", "bound": pb, "cap": 0, "random": 0, **op},
                {"gran": "line", "bound": pb, "cap": 0, **line},
                {"gran": "opcode", "bound": pb, "cap": 0, **opcode}]
    if kind == "reg":
        return [{"gran": "op", "bound": pb, "cap": 300 if thorough else 80, "random": 0},
                {"gran": "line", "bound": pb, "cap": 600 if thorough else 100, "random": 50 if thorough else 10},
                {"gran": "opcode", "bound": pb, "cap": 1500 if thorough else 150, "random": 300 if thorough else 30}]
    if kind == "ctx":
        return [{"gran": "op", "bound": pb, "cap": 600 if thorough else 100, "random": 0},
                {"gran": "line", "bound": pb, "cap": 700 if thorough else 80, "random": 100 if thorough else 20},
                {"gran": "opcode", "bound": pb, "cap": 700 if thorough else 80, "random": 300 if thorough else 20}]
    return [{"gran": "op", "bound": pb, "cap": 300 if thorough else 50, "random": 0},
            {"gran": "line", "bound": pb, "cap": 600 if thorough else 50, "random": 100 if thorough else 15},
            {"gran": "opcode", "bound": pb, "cap": 700 if thorough else 50, "random": 200 if thorough else 15}]


def classify(payload: Dict[str, Any]) -> Optional[str]:
    return None


def explore(ctx: Ctx) -> Exploration:
    rng = random.Random(ctx.seed)
    thorough = ctx.tier == "thorough"
    scns = scenarios(rng, thorough)
    jobs = [{"cmd": "explore", "scenario": scn, "seed": ctx.seed * 1000 + i,
             "phases": phases(scn["kind"], thorough, scn)}
            for i, (_, scn) in enumerate(scns)]
    # one runner process per scenario (isolation; an infra failure names the scenario), several at a time; every
    # process is deterministic given its job, and the results are consumed in list order, so the verdict does not
    # depend on the timing.  Submitted longest first: family (d) from the end of the list, then (a-lib), then the others
    timeout = 1500 if thorough else 240
    workers = max(1, min(12, (os.cpu_count() or 2) - 2))
    pool = ThreadPoolExecutor(max_workers=workers)
    heavy = ["map", "with_options_over_dataset", "collections"]      # the longest single scenarios start first
    rank = lambda i: (-1 if scns[i][1].get("node") in heavy else 0) if scns[i][1]["kind"] == "graph" else 1 if scns[i][1].get("lib") else 2
    order = sorted(range(len(jobs)), key=lambda i: (rank(i), -i if rank(i) <= 0 else i))
    background = {i: pool.submit(run_runner, [jobs[i]], 3 * timeout) for i in order}
    try:
        return _explore(ctx, thorough, scns, jobs, background)
    finally:
        pool.shutdown(wait=False, cancel_futures=True)


def _explore(ctx: Ctx, thorough: bool, scns, jobs, background) -> Exploration:
    findings: List[Finding] = []
    total_exec = 0
    total_outcomes = 0
    nontrivial = 0
    dist: Dict[str, Any] = {"by_level": {}, "max_yield_points": {}, "sampled_levels": {}, "distinct_outcomes": {}}
    samples = []
    checked = 0
    kinds: Dict[str, int] = {}
    graph_cov: Dict[str, Any] = {}
    lib_cov: Dict[str, Any] = {"scenarios": 0, "executions": 0, "distinct_outcomes": 0, "traced_files": [],
                               "helper_calls_in_programs": {}, "executions_by_level": {}}
    first_cov: Dict[str, Any] = {"scenarios": 0, "scenarios_with_real_pool_threads": 0, "executions": 0, "distinct_outcomes": 0,
                                 "rule": "counts of distinct outcomes (order of atomic steps, observations), by the first library call "
                                         "of every non-main thread and the main thread's position at that step / by who started a "
                                         "thread from where",
                                 "main_thread_is_a_scheduled_participant": True,
                                 "first_call_of_a_thread_without_runtime": {}, "threads_started_inside_the_scenario": {},
                                 "executions_by_level": {}}
    for idx, ((name, scn), job) in enumerate(zip(scns, jobs)):
        kname = "ctx-first" if scn.get("first") else "ctx-lib" if scn.get("lib") else scn["kind"]
        kinds[kname] = kinds.get(kname, 0) + 1
        try:
            res = background[idx].result()[0]
        except Infra as e:
            raise Infra(f"scenario `{name}`: {e}")
        outs = res["outcomes"]
        st = res["stats"]
        total_exec += st["executions"]
        total_outcomes += len(outs)
        for k, v in st["by_level"].items():
            dist["by_level"][k] = dist["by_level"].get(k, 0) + v
        dist["max_yield_points"][name] = st["max_yield_points"]
        dist["distinct_outcomes"][name] = len(outs)
        if st["sampled_levels"]:
            dist["sampled_levels"][name] = st["sampled_levels"]
        if scn["kind"] == "graph" and outs:
            g = graph_cov.setdefault(scn["node"], {"scenarios": 0, "executions": 0, "traced_files": [], "shared_node_classes": []})
            g["scenarios"] += 1
            g["executions"] += st["executions"]
            g["traced_files"] = outs[0]["outcome"]["traced"]
            g["shared_node_classes"] = outs[0]["outcome"]["shared_node_classes"]
        if scn.get("first") and outs:
            first_cov["scenarios"] += 1
            first_cov["scenarios_with_real_pool_threads"] += 1 if scn.get("pool") else 0
            first_cov["executions"] += st["executions"]
            first_cov["distinct_outcomes"] += len(outs)
            for o in outs:
                first_touch_stats(o["outcome"], first_cov)
            for lv, cnt in st["by_level"].items():
                first_cov["executions_by_level"][lv] = first_cov["executions_by_level"].get(lv, 0) + cnt
        if scn.get("lib") and not scn.get("first") and outs:
            lib_cov["scenarios"] += 1
            lib_cov["executions"] += st["executions"]
            lib_cov["distinct_outcomes"] += len(outs)
            lib_cov["traced_files"] = sorted(set(lib_cov["traced_files"]) | set(outs[0]["outcome"]["traced"]))
            for th in [scn.get("setup", [])] + scn["threads"]:
                for opname, cnt in helper_calls(th).items():
                    lib_cov["helper_calls_in_programs"][opname] = lib_cov["helper_calls_in_programs"].get(opname, 0) + cnt
            for lv, cnt in st["by_level"].items():
                lib_cov["executions_by_level"][lv] = lib_cov["executions_by_level"].get(lv, 0) + cnt
        mlines = model_lines(scn, [o["outcome"] for o in outs])
        if len(mlines) != len(outs):
            raise Infra("drv_runtime returned a wrong number of lines")
        for o, ml in zip(outs, mlines):
            checked += 1
            if o["witness"]["preemptions"] > 0 or len(o["witness"]["schedule"]) > len(scn["threads"]):
                nontrivial += 1
            js = judge(scn, o["outcome"], ml)
            seen = set()
            for kind, what in js:
                if (kind, what.split(":")[0]) in seen:
                    continue
                seen.add((kind, what.split(":")[0]))
                if len([f for f in findings if f.kind == kind]) >= 3:
                    continue
                findings.append(Finding(kind, what, {"scenario_name": name, "scenario": scn, "gran": o["witness"]["gran"],
                                                     "preempts": o["witness"]["preempts"],
                                                     "schedule_threads_per_yield_point_rle": o["witness"]["schedule"],
                                                     "outcome": o["outcome"], "model": ml,
                                                     "seen_in_executions": o["count"]}))
        if len(samples) < 5 and outs:
            w = outs[-1]["witness"]
            samples.append(f"{name}: gran={w['gran']} preempts={w['preempts']} -> {json.dumps(outs[-1]['outcome'])[:160]}")
    for f in findings:
        f.known_id = classify(f.payload)
    cov = {
        "evaluations": total_exec,
        "distinct_nontrivial": nontrivial,
        "rule": "distinct (order of atomic steps, observations) outcomes reached by a schedule with at least one "
                "preemption or thread switch before a thread finished",
        "programs": len(scns),
        "disagreements_checked": checked,
        "samples": samples,
        "distribution": dist,
        "preemption_bound": 3 if thorough else 2,
        "granularities": ["op", "line", "opcode"],
        "scenario_kinds": {"a handler contexts (ctx)": kinds.get("ctx", 0), "b register (reg)": kinds.get("reg", 0),
                           "c cached dataset (cache)": kinds.get("cache", 0),
                           "a-lib handler contexts through the library's own context managers / derived-runtime helpers "
                           "(ctx, lib)": kinds.get("ctx-lib", 0),
                           "d cached dataset over shared user-built nodes (graph)": kinds.get("graph", 0),
                           "a-first handler contexts: first call of threads without a runtime vs the main / starting thread's "
                           "contexts (ctx, first)": kinds.get("ctx-first", 0)},
        "shared_node_family": graph_cov,
        "library_context_manager_family": lib_cov,
        "first_touch_family": first_cov,
    }
    return Exploration(findings, cov)


def replay(ctx: Ctx, payload: Dict[str, Any]) -> int:
    scn = payload["scenario"]
    job = {"cmd": "replay", "scenario": scn, "gran": payload["gran"], "preempts": payload["preempts"]}
    res = run_runner([job], timeout=120)[0]
    ml = model_lines(scn, [res["outcome"]])[0]
    print("scenario :", payload.get("scenario_name"), json.dumps(scn))
    print("schedule : granularity", payload["gran"], "preemptions", payload["preempts"])
    print("           threads per yield point (run-length):", res["schedule"])
    if payload.get("schedule_threads_per_yield_point_rle") not in (None, res["schedule"]):
        print("           (differs from the recorded run:", payload["schedule_threads_per_yield_point_rle"], ")")
    print("impl     :", json.dumps(res["outcome"]))
    print("model    :", ml)
    js = judge(scn, res["outcome"], ml)
    for k, w in js:
        print(f"FAIL [{k}] {w}")
    if not js:
        print("verdict  : thread-local / all keys present / own value (also afterwards), and agrees with the model")
    return 1 if js else 0


if __name__ == "__main__":
    sys.exit(main_check(SPEC, explore, None, replay))

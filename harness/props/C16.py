import sys
from pathlib import Path
sys.path.insert(0, str(Path(__file__).resolve().parent.parent))
from common import *
import coreprops, engine, corespecs

PROP = coreprops.ALL["C16"]
SPEC = corespecs.SPECS["C16"]


def explore(ctx):
    return engine.explore_core(ctx, PROP)


def replay(ctx, payload):
    return engine.replay_core(PROP, payload)


if __name__ == "__main__":
    sys.exit(main_check(SPEC, explore, None, replay))
